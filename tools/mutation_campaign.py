#!/usr/bin/env python3
"""Mutation campaign: mechanical single-site mutants of the files the properties are anchored in,
each built in a scratch worktree of /repo, run against the repository's own test suite and - if
that stays green - against scaled-down quick tiers of the checks anchored in the mutated file
(scratch copy of /verif/sim pointed at the scratch worktree; output redirected with
VERIF_OUT_ROOT, so /verif/evidence and /verif/replays are untouched). /repo itself is never edited.

  tools/mutation_campaign.py gen  [--per-file N] [--seed S]   -> /verif/mutants/campaign_candidates.json
  tools/mutation_campaign.py run  [--workers K] [--limit N]   -> /verif/mutants/campaign.jsonl (appends; resumes)
  tools/mutation_campaign.py report                           -> summary to stdout

Scratch directories live under /tmp/mut and are removed at the end of `run`.
"""
import json, os, random, re, subprocess, sys, time, shutil, threading, queue

REPO = "/repo"
SCRATCH = "/tmp/mut"
CANDS = "/verif/mutants/campaign_candidates.json"
OUT = "/verif/mutants/campaign.jsonl"

# file -> properties whose ptpsim checks are run (cheapest first); from properties.jsonl anchors
def anchors():
    m = {}
    for l in open("/verif/properties.jsonl"):
        p = json.loads(l)
        for f in p["anchors"]["files"]:
            m.setdefault(f, []).append(p["id"])
    return m

SIM_CHECKS = ["C18", "C09", "C14", "C05", "C06", "C03", "C13", "C15", "C10", "C08", "C11", "C07", "C12", "C17", "C02", "C01"]
SCALE = {"C01": "0.3", "C02": "0.25", "C07": "0.5", "C12": "0.5"}

OPS = [
    ("rel", [(r" <= ", " < "), (r" < ", " <= "), (r" >= ", " > "), (r" > ", " >= "), (r" == ", " != "), (r" != ", " == ")]),
    ("arith", [(r" \+ ", " - "), (r" - ", " + "), (r" \+= ", " -= "), (r" -= ", " += ")]),
    ("logic", [(r" && ", " || "), (r" \|\| ", " && ")]),
    ("bool", [(r"\btrue\b", "false"), (r"\bfalse\b", "true")]),
    ("const", [(r"\b1\b", "2"), (r"\b0\b", "1"), (r"\b2\b", "3"), (r"\b4\b", "3"), (r"\b255\b", "254"), (r"\b8\b", "7")]),
    ("negate_if", [(r"^(\s*)if (?!let )(.+) \{\s*$", r"\1if !(\2) {")]),
    ("delete", [(r"^(\s*)(self\.[A-Za-z_\.]+(\(.*\))?\s*(=|\+=|-=).*;)\s*$", r"\1// mutant: deleted"), (r"^(\s*)(\*?[a-z_\.]+ = .*;)\s*$", r"\1// mutant: deleted"), (r"^(\s*)(return [^;]*;)\s*$", r"\1// mutant: deleted")]),
    ("some_none", [(r"= Some\(([a-z_\.]+)\);", r"= None;")]),
]

SKIP_LINE = re.compile(r"^\s*(//|#\[|log::|debug_assert|assert|use |pub use |mod |pub mod |///|\*|const |pub const |static )|unreachable!|panic!|\.expect\(|fmt::|write!\(|=>\s*write|#!\[")


def candidates(per_file, seed):
    rng = random.Random(seed)
    out = []
    files = sorted(anchors().keys())
    for f in files:
        path = os.path.join(REPO, f)
        if not os.path.exists(path) or not f.endswith(".rs"):
            continue
        lines = open(path).read().split("\n")
        # stop at the unit-test module
        end = len(lines)
        for i, l in enumerate(lines):
            if l.strip() == "#[cfg(test)]" and i + 1 < len(lines) and "mod " in lines[i + 1]:
                end = i
                break
        sites = []
        in_doc = False
        for i in range(end):
            l = lines[i]
            if SKIP_LINE.search(l) or not l.strip():
                continue
            for op, rules in OPS:
                for pat, rep in rules:
                    for m in re.finditer(pat, l):
                        if op in ("negate_if", "delete", "some_none"):
                            new = re.sub(pat, rep, l, count=1)
                        else:
                            new = l[: m.start()] + re.sub(pat, rep, l[m.start() : m.end()], count=1) + l[m.end() :]
                        if new != l:
                            sites.append({"file": f, "line": i + 1, "op": op, "old": l, "new": new})
                        if op in ("negate_if", "delete", "some_none"):
                            break
        rng.shuffle(sites)
        # the stubbed parts of the daemon are not run by the simulation at all
        if f in ("statime-linux/src/main.rs", "statime-linux/src/clock/mod.rs") or f.startswith("statime-linux/src/metrics") or "observer" in f or f.startswith("statime-linux/src/config"):
            continue
        core = any(f.startswith(x) for x in ("statime/src/port/", "statime/src/bmc/", "statime/src/filters/", "statime/src/ptp_instance", "statime/src/overlay_clock", "statime/src/time/"))
        per_file_here = per_file * 3 if core else per_file // 2
        # spread over operators
        chosen, per_op = [], {}
        for s in sites:
            k = per_op.get(s["op"], 0)
            if k >= max(2, per_file_here // 4) or (s["op"] == "const" and k >= max(1, per_file_here // 8)):
                continue
            per_op[s["op"]] = k + 1
            chosen.append(s)
            if len(chosen) >= per_file_here:
                break
        out.extend(chosen)
    for i, c in enumerate(out):
        c["id"] = f"A{i:04d}"
    return out


def sh(cmd, timeout=None, env=None, cwd=None):
    # own process group, so that a timeout kills the whole tree (a mutant that loops for ever inside
    # a check must not survive as an orphan)
    import signal
    p = subprocess.Popen(cmd, shell=True, stdout=subprocess.PIPE, stderr=subprocess.PIPE, text=True, env=env, cwd=cwd, start_new_session=True)
    try:
        o, e = p.communicate(timeout=timeout)
        return p.returncode, o, e
    except subprocess.TimeoutExpired:
        try:
            os.killpg(p.pid, signal.SIGKILL)
        except ProcessLookupError:
            pass
        o, e = p.communicate()
        return 124, o or "", "TIMEOUT"


def setup_worker(k):
    d = f"{SCRATCH}/w{k}"
    shutil.rmtree(d, ignore_errors=True)
    os.makedirs(d)
    sh(f"git -C {REPO} worktree prune")
    rc, o, e = sh(f"git -C {REPO} worktree add --detach {d}/repo HEAD")
    assert rc == 0, e
    os.makedirs(f"{d}/verif")
    sh(f"cp -r /verif/sim {d}/verif/sim")
    for f in ["ptpsim/Cargo.toml"]:
        p = f"{d}/verif/sim/{f}"
        s = open(p).read().replace('"/repo/', f'"{d}/repo/')
        open(p, "w").write(s)
    p = f"{d}/verif/sim/.cargo/config.toml"
    s = open(p).read().replace("/verif/target", f"{d}/target")
    open(p, "w").write(s)
    os.makedirs(f"{d}/out/evidence")
    os.makedirs(f"{d}/out/replays")
    return d


def teardown_worker(k):
    d = f"{SCRATCH}/w{k}"
    sh(f"git -C {REPO} worktree remove --force {d}/repo")
    shutil.rmtree(d, ignore_errors=True)


FULL = False


def run_one(d, c, amap, threads):
    res = {"id": c["id"], "file": c["file"], "line": c["line"], "op": c["op"], "old": c["old"].strip(), "new": c["new"].strip()}
    path = f"{d}/repo/{c['file']}"
    sh(f"git -C {d}/repo checkout -q -- .")
    lines = open(path).read().split("\n")
    if lines[c["line"] - 1] != c["old"]:
        res["status"] = "stale"
        return res
    lines[c["line"] - 1] = c["new"]
    open(path, "w").write("\n".join(lines))
    env = dict(os.environ, CARGO_NET_OFFLINE="true", CARGO_TARGET_DIR=f"{d}/target-repo")
    t0 = time.time()
    rc, o, e = sh("cargo build --workspace --offline 2>&1 | tail -5", env=env, cwd=f"{d}/repo", timeout=900)
    rc2, _, _ = sh("cargo build --workspace --offline", env=env, cwd=f"{d}/repo", timeout=900)
    if rc2 != 0:
        res["status"] = "does_not_compile"
        sh(f"git -C {d}/repo checkout -q -- .")
        return res
    rc, o, e = sh("cargo test --workspace --no-fail-fast --offline 2>&1 | grep -E '^test result' | awk '{f+=$6} END {print f+0}'", env=env, cwd=f"{d}/repo", timeout=1800)
    failed = o.strip()
    res["existing_tests_failed"] = int(failed) if failed.isdigit() else -1
    if rc == 124:
        res["existing_tests_failed"] = -2
    # the checks
    env2 = dict(os.environ, CARGO_NET_OFFLINE="true", VERIF_OUT_ROOT=f"{d}/out", VERIF_THREADS=str(threads), VERIF_MAX_MIN="1")
    rc, o, e = sh("cargo build --release --offline 2>&1 | tail -3", env=env2, cwd=f"{d}/verif/sim", timeout=1800)
    rcb, _, eb = sh("cargo build --release --offline", env=env2, cwd=f"{d}/verif/sim", timeout=1800)
    if rcb != 0:
        res["status"] = "harness_does_not_build"
        res["detail"] = eb[-400:]
        sh(f"git -C {d}/repo checkout -q -- .")
        return res
    want = set(amap.get(c["file"], []))
    if "/datastructures/" in c["file"] or "/time/" in c["file"] or "/config/" in c["file"]:
        want |= {"C10", "C09", "C14", "C11", "C15", "C03", "C07"}
    if "/filters/" in c["file"]:
        want |= {"C02"}
    props = [p for p in SIM_CHECKS if p in want or FULL]
    res["checks"] = {}
    detected = None
    for p in props:
        env3 = dict(env2, VERIF_BUDGET_SCALE=SCALE.get(p, "1"))
        t1 = time.time()
        rc, o, e = sh(f"ulimit -v 12000000; {d}/target/release/verif check {p} quick", env=env3, timeout=900)
        oracles = sorted(set(l.split("oracle=")[1].split(" ")[0] for l in o.splitlines() if l.startswith("violation") and "oracle=" in l))
        res["checks"][p] = {"exit": rc, "oracles": oracles[:4], "wall_s": round(time.time() - t1, 1)}
        if rc == 1:
            detected = p
            break
        if rc not in (0, 1):
            # timeout, abort, out of memory: the library hung or blew up under the check
            detected = p
            res["checks"][p]["abnormal"] = True
            break
    res["detected_by"] = detected
    res["status"] = "detected" if detected else "survived"
    res["wall_s"] = round(time.time() - t0, 1)
    sh(f"git -C {d}/repo checkout -q -- .")
    return res


def main():
    if len(sys.argv) < 2:
        print(__doc__)
        return
    cmd = sys.argv[1]
    def opt(name, default):
        return type(default)(sys.argv[sys.argv.index(name) + 1]) if name in sys.argv else default
    if cmd == "gen":
        c = candidates(opt("--per-file", 14), opt("--seed", 1))
        json.dump(c, open(CANDS, "w"), indent=0)
        by = {}
        for x in c:
            by[x["file"]] = by.get(x["file"], 0) + 1
        print(len(c), "candidates", by)
    elif cmd in ("run", "run2", "run3"):
        workers = opt("--workers", 6)
        limit = opt("--limit", 100000)
        cands = json.load(open(CANDS))
        global OUT, FULL
        if cmd == "run2":
            # second pass: every test-silent survivor of pass 1 against the FULL battery of sim checks
            surv = set()
            for l in open(OUT):
                r = json.loads(l)
                if r["status"] == "survived" and r.get("existing_tests_failed") == 0:
                    surv.add(r["id"])
            cands = [c for c in cands if c["id"] in surv]
            OUT = OUT.replace("campaign.jsonl", "campaign_pass2.jsonl")
            FULL = True
        if cmd == "run3":
            # third pass, after the checks were strengthened: what survived passes 1 and 2, full battery
            surv = set()
            for l in open(OUT):
                r = json.loads(l)
                if r["status"] == "survived" and r.get("existing_tests_failed") == 0:
                    surv.add(r["id"])
            p2 = OUT.replace("campaign.jsonl", "campaign_pass2.jsonl")
            for l in open(p2):
                r = json.loads(l)
                if r["status"] == "detected":
                    surv.discard(r["id"])
            cands = [c for c in cands if c["id"] in surv]
            OUT = OUT.replace("campaign.jsonl", "campaign_pass3.jsonl")
            FULL = True
        done = set()
        if os.path.exists(OUT):
            for l in open(OUT):
                done.add(json.loads(l)["id"])
        todo = [c for c in cands if c["id"] not in done and not c["file"].startswith("statime-linux/src/metrics") and "observer" not in c["file"]][:limit]
        # interleave files so that a partial run is a fair sample
        random.Random(7).shuffle(todo)
        amap = anchors()
        q = queue.Queue()
        for c in todo:
            q.put(c)
        lock = threading.Lock()
        threads = max(1, 16 // workers)
        def work(k):
            d = setup_worker(k)
            while True:
                try:
                    c = q.get_nowait()
                except queue.Empty:
                    break
                try:
                    r = run_one(d, c, amap, threads)
                except Exception as ex:
                    r = {"id": c["id"], "status": "tool_error", "detail": str(ex)[:300]}
                with lock:
                    open(OUT, "a").write(json.dumps(r) + "\n")
                    print(r["id"], r.get("file"), r.get("op"), r["status"], r.get("detected_by"), r.get("existing_tests_failed"), flush=True)
            teardown_worker(k)
        ts = [threading.Thread(target=work, args=(k,)) for k in range(workers)]
        for t in ts:
            t.start()
        for t in ts:
            t.join()
        shutil.rmtree(SCRATCH, ignore_errors=True)
        sh(f"git -C {REPO} worktree prune")
    elif cmd == "report":
        rows = [json.loads(l) for l in open(OUT)]
        for name, label in (("campaign_pass2.jsonl", " (full battery)"), ("campaign_pass3.jsonl", " (full battery, strengthened checks)")):
            p2 = OUT.replace("campaign.jsonl", name)
            if os.path.exists(p2):
                second = {json.loads(l)["id"]: json.loads(l) for l in open(p2)}
                for r in rows:
                    if r["status"] == "survived" and r["id"] in second and second[r["id"]]["status"] == "detected":
                        r["status"] = "detected"
                        r["detected_by"] = second[r["id"]]["detected_by"] + label
        st = {}
        for r in rows:
            st[r["status"]] = st.get(r["status"], 0) + 1
        print("status", st)
        valid = [r for r in rows if r["status"] in ("detected", "survived")]
        silent = [r for r in valid if r.get("existing_tests_failed") == 0]
        print("compiled:", len(valid), "of which the 76 tests stay green:", len(silent))
        print("detected among all compiled:", sum(r["status"] == "detected" for r in valid))
        print("detected among test-silent:", sum(r["status"] == "detected" for r in silent), "of", len(silent))
        print("survivors (test-silent):")
        for r in silent:
            if r["status"] == "survived":
                print("  ", r["id"], r["file"], r["line"], r["op"], "|", r["old"][:70], "=>", r["new"][:70])


if __name__ == "__main__":
    main()
