#!/bin/bash
# usage: with_patch.sh <patch.diff> <command...>
# Applies a seeded change to /repo, runs the command (which rebuilds from /repo), and always reverts.
set -u
PATCH="$1"; shift
git -C /repo diff --quiet || { echo "refusing: /repo has uncommitted changes"; exit 2; }
git -C /repo apply "$PATCH" || { echo "patch does not apply"; exit 2; }
trap 'git -C /repo checkout -- . ; git -C /repo clean -fdq -- statime statime-linux >/dev/null 2>&1' EXIT
"$@"
echo "exit=$?"
