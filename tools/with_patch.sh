#!/bin/bash
# usage: with_patch.sh <patch.diff> <command...>
# Applies a seeded change to /repo, runs the command (which rebuilds from /repo), and always reverts.
set -u
PATCH="$1"; shift
git -C /repo diff --quiet || { echo "refusing: /repo has uncommitted changes"; exit 2; }
git -C /repo apply "$PATCH" || { echo "patch does not apply"; exit 2; }
# evidence and replay files of runs against a changed tree must never land in /verif
export VERIF_OUT_ROOT=/tmp/sens_out EXPSIM_OUT_ROOT=/tmp/sens_out VERIF_C17_OUT=/tmp/sens_out
mkdir -p /tmp/sens_out/evidence /tmp/sens_out/replays
trap 'git -C /repo checkout -- . ; git -C /repo clean -fdq -- statime statime-linux >/dev/null 2>&1' EXIT
"$@"
echo "exit=$?"
