#!/usr/bin/env python3
"""Regenerates the sensitivity table of DESIGN.md (between the SENS markers) from mutants/sensitivity.json."""
import json,re
r=json.load(open('/verif/mutants/sensitivity.json'))
notes={
 'M25':'not a violation of C13 as stated: every commanded value stays within the bound (the clamp is relative to what the filter believes); it only delays convergence after a refused command',
 'M38':'equivalent under the quantifier: an exact duplicate Follow_Up overwrites the response time with the same value',
 'M39':'only changes the outcome when two candidates compare equal, i.e. inside the open finding C05.outcome_depends_on_announce_order; caught by the existing tests anyway',
 'M42':'no longer compiles after fix 1ef560e; torn-update mutants live in /verif/c17/mutants (m1a, m1b, both detected) and S-C17-2',
 'M26':'arms changed by fix 0a6e9da; was caught by the existing tests',
}
def key(k):
    return (0 if k.startswith('S-') else 1, k)
t="| id | kind | change | target | result | detected by (oracle) |\n|---|---|---|---|---|---|\n"
for k in sorted(r,key=key):
    v=r[k]
    if not v['applied']:
        status='does not apply to the repaired tree'; det='-'
    elif v.get('detected_by'):
        det=', '.join(f"{p} ({', '.join(o.split('.',1)[1] for o in v['checks'][p]['oracles'][:2])})" for p in v['detected_by'])
        status='detected'
    else:
        det='-'; status='not detected'
    kind='seeded (sub-agent)' if v['kind']=='seeded' else f"candidate ({v.get('existing_tests','?')} by the 76 tests)"
    extra=' - '+notes[k] if k in notes else ''
    t+=f"| {k} | {kind} | {v['what'][:120].replace('|','/')} | {'/'.join(v['targets'])} | {status}{extra} | {det} |\n"
n_app=sum(1 for v in r.values() if v['applied']); n_det=sum(1 for v in r.values() if v.get('detected_by'))
n_seed=sum(1 for v in r.values() if v['kind']=='seeded'); n_seed_det=sum(1 for v in r.values() if v['kind']=='seeded' and v.get('detected_by'))
head=f"**{n_seed_det} of {n_seed} seeded changes** (five rounds of independent sub-agents that saw only the property text (18 claimed properties x 5 rounds); rounds 2-4 were told what the earlier rounds had done and asked for a different, subtler mechanism - round 3 for one that needs an unusual-but-legal configuration to meet a specific history; round 5, in a later session, gave each agent a preferred way for the change to manifest - two cooperating sites, a fault at one point of an exchange, an unusual configuration plus a sequence, an arrival order, state carried across a state change - and forbade reverting an earlier fix) and **{n_det} of {n_app} applicable changes overall** are reported with a replay by the quick tier at the default seed.\n\n"
s=open('/verif/DESIGN.md').read()
s=re.sub(r'<!-- SENS-BEGIN -->.*?<!-- SENS-END -->', '<!-- SENS-BEGIN -->\n'+head+t+'<!-- SENS-END -->', s, flags=re.S)
open('/verif/DESIGN.md','w').write(s)
print(n_seed_det,n_seed,n_det,n_app)
