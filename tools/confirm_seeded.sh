#!/bin/bash
# usage: confirm_seeded.sh <worktree> <name>
# Confirms a seeded change delivered by a sub-agent in its scratch worktree:
#  (1) with patch.diff the whole existing suite passes, (2) with patch+demo the demo fails,
#  (3) with the patch reversed the demo passes. Then files it under /verif/seeded/<name>/
#  and removes the worktree with its build output.
set -u
WT="$1"; NAME="$2"
D="$WT/DELIVER"
export CARGO_NET_OFFLINE=true CARGO_TARGET_DIR="$WT/target"
cd "$WT" || exit 2
[ -f "$D/patch.diff" ] && [ -f "$D/demo.diff" ] && [ -f "$D/meta.json" ] || { echo "missing deliverables"; exit 2; }
mkdir -p /verif/seeded/_tmp_$NAME && cp "$D"/patch.diff "$D"/demo.diff "$D"/meta.json /verif/seeded/_tmp_$NAME/
P=/verif/seeded/_tmp_$NAME
git checkout -q -- . ; git clean -fdq -e target -e DELIVER
git apply "$P/patch.diff" || { echo "patch does not apply"; exit 2; }
T1=$(cargo test --workspace --no-fail-fast --offline 2>&1 | grep -E "^test result" | awk '{p+=$4; f+=$6} END {print p" "f}')
DEMO=$(python3 -c "import json;print(json.load(open('$P/meta.json'))['demo_cmd'])")
git apply "$P/demo.diff" || { echo "demo does not apply on patched tree"; exit 2; }
bash -c "$DEMO" > "$P/demo_with_patch.log" 2>&1; R2=$?
git apply -R "$P/patch.diff" || { echo "cannot reverse patch"; exit 2; }
bash -c "$DEMO" > "$P/demo_without_patch.log" 2>&1; R3=$?
echo "suite(pass fail)=$T1 demo_with_patch_exit=$R2 demo_without_patch_exit=$R3"
set -- $T1
if [ "${2:-1}" = "0" ] && [ "${1:-0}" -ge 76 ] && [ $R2 -ne 0 ] && [ $R3 -eq 0 ]; then
  python3 - "$P" "$T1" "$R2" "$R3" <<'PY'
import json,sys
p=sys.argv[1]
m=json.load(open(p+'/meta.json'))
m['confirmed_by_me']={'existing_suite_pass_fail_with_patch':sys.argv[2],'demo_exit_with_patch':int(sys.argv[3]),'demo_exit_without_patch':int(sys.argv[4]),
  'ran':'tools/confirm_seeded.sh: git apply patch.diff; cargo test --workspace --no-fail-fast --offline; git apply demo.diff; demo_cmd (fails); git apply -R patch.diff; demo_cmd (passes)'}
json.dump(m,open(p+'/meta.json','w'),indent=1)
PY
  tail -c 1500 "$P/demo_with_patch.log" > "$P/demo_with_patch.tail.log"; rm -f "$P/demo_with_patch.log" "$P/demo_without_patch.log"
  rm -rf /verif/seeded/$NAME; mv "$P" /verif/seeded/$NAME
  echo "CONFIRMED $NAME"
else
  echo "NOT CONFIRMED $NAME (kept $P for inspection)"
fi
cd / && git -C /repo worktree remove --force "$WT"
