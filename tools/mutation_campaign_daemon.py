#!/usr/bin/env python3
"""Mechanical mutants of the daemon-side files (statime-linux/src/main.rs -> daemonsim C15/C12;
metrics/exporter.rs, metrics/format.rs, observer.rs -> expsim C19/C20), built and checked in a
scratch worktree with the scratch-check scripts of daemonsim / expsim (nothing under /repo or
/verif/evidence is touched). Results: /verif/mutants/campaign_daemon.jsonl.

  tools/mutation_campaign_daemon.py [--per-file N] [--seed S]
"""
import json, os, random, re, subprocess, sys, time, shutil
sys.path.insert(0, "/verif/tools")
import mutation_campaign as mc

FILES = {
    "statime-linux/src/main.rs": ("daemon", 36),
    "statime-linux/src/metrics/exporter.rs": ("exp", 14),
    "statime-linux/src/metrics/format.rs": ("exp", 12),
    "statime-linux/src/observer.rs": ("exp", 8),
}
OUT = "/verif/mutants/campaign_daemon.jsonl"
S = "/tmp/mutd"


def sites(f, n, rng):
    lines = open(os.path.join("/repo", f)).read().split("\n")
    end = len(lines)
    for i, l in enumerate(lines):
        if l.strip() == "#[cfg(test)]" and i + 1 < len(lines) and "mod " in lines[i + 1]:
            end = i
            break
    out = []
    for i in range(end):
        l = lines[i]
        if mc.SKIP_LINE.search(l) or not l.strip() or "expect(" in l or "clap" in l or "#[arg" in l:
            continue
        for op, rules in mc.OPS:
            for pat, rep in rules:
                for m in re.finditer(pat, l):
                    if op in ("negate_if", "delete", "some_none"):
                        new = re.sub(pat, rep, l, count=1)
                    else:
                        new = l[: m.start()] + re.sub(pat, rep, l[m.start() : m.end()], count=1) + l[m.end() :]
                    if new != l:
                        out.append({"file": f, "line": i + 1, "op": op, "old": l, "new": new})
                    if op in ("negate_if", "delete", "some_none"):
                        break
    rng.shuffle(out)
    chosen, per_op = [], {}
    for s in out:
        k = per_op.get(s["op"], 0)
        if k >= max(2, n // 3) or (s["op"] == "const" and k >= max(1, n // 8)):
            continue
        per_op[s["op"]] = k + 1
        chosen.append(s)
        if len(chosen) >= n:
            break
    return chosen


def main():
    second_pass = "--pass2" in sys.argv  # survivors in main.rs again, with the daemon-level C19 check
    global OUT
    first = {}
    if second_pass:
        first = {json.loads(l)["id"]: json.loads(l) for l in open(OUT)}
        OUT = OUT.replace("campaign_daemon.jsonl", "campaign_daemon_pass2.jsonl")
    rng = random.Random(11)
    cands = []
    for f, (_, n) in FILES.items():
        cands += sites(f, n, rng)
    for i, c in enumerate(cands):
        c["id"] = f"D{i:03d}"
    done = set()
    if os.path.exists(OUT):
        done = {json.loads(l)["id"] for l in open(OUT)}
    shutil.rmtree(S, ignore_errors=True)
    os.makedirs(S)
    mc.sh("git -C /repo worktree prune")
    rc, o, e = mc.sh(f"git -C /repo worktree add --detach {S}/repo HEAD")
    assert rc == 0, e
    env = dict(os.environ, CARGO_NET_OFFLINE="true", CARGO_TARGET_DIR=f"{S}/target-repo")
    try:
        for c in cands:
            if c["id"] in done:
                continue
            if second_pass and not (c["file"].endswith("main.rs") and first.get(c["id"], {}).get("status") == "survived"):
                continue
            r = {k: (c[k].strip() if k in ("old", "new") else c[k]) for k in ("id", "file", "line", "op", "old", "new")}
            mc.sh(f"git -C {S}/repo checkout -q -- .")
            path = f"{S}/repo/{c['file']}"
            lines = open(path).read().split("\n")
            lines[c["line"] - 1] = c["new"]
            open(path, "w").write("\n".join(lines))
            rcb, _, _ = mc.sh("cargo build --workspace --offline", env=env, cwd=f"{S}/repo", timeout=900)
            if rcb != 0:
                r["status"] = "does_not_compile"
            else:
                rc, o, e = mc.sh("cargo test --workspace --no-fail-fast --offline 2>&1 | grep -E '^test result' | awk '{f+=$6} END {print f+0}'", env=env, cwd=f"{S}/repo", timeout=1800)
                r["existing_tests_failed"] = int(o.strip()) if o.strip().isdigit() else -1
                kind = FILES[c["file"]][0]
                r["checks"] = {}
                det = None
                if kind == "daemon" and second_pass:
                    runs = [("C19", f"SCRATCH_DIR={S}/dsim SCRATCH_TARGET={S}/dsim-target VERIF_BUDGET_SCALE=0.5 VERIF_MAX_MIN=1 /verif/daemonsim/scripts/scratch-check.sh {S}/repo check C19 quick")]
                elif kind == "daemon":
                    runs = [("C15", f"SCRATCH_DIR={S}/dsim SCRATCH_TARGET={S}/dsim-target VERIF_BUDGET_SCALE=0.3 VERIF_MAX_MIN=1 /verif/daemonsim/scripts/scratch-check.sh {S}/repo check C15 quick"),
                            ("C12", f"SCRATCH_DIR={S}/dsim SCRATCH_TARGET={S}/dsim-target VERIF_BUDGET_SCALE=0.5 VERIF_MAX_MIN=1 /verif/daemonsim/scripts/scratch-check.sh {S}/repo check C12 quick")]
                else:
                    runs = [("C20", f"SCRATCH_TARGET={S}/exp-target VERIF_MAX_MIN=1 /verif/expsim/scripts/scratch-check.sh {S}/repo check C20 quick"),
                            ("C19", f"SCRATCH_TARGET={S}/exp-target VERIF_BUDGET_SCALE=0.3 VERIF_MAX_MIN=1 /verif/expsim/scripts/scratch-check.sh {S}/repo check C19 quick")]
                for p, cmd in runs:
                    t1 = time.time()
                    rc, o, e = mc.sh(cmd, timeout=1500)
                    oracles = sorted(set(l.split("oracle=")[1].split(" ")[0] for l in o.splitlines() if l.startswith("violation") and "oracle=" in l))
                    r["checks"][p] = {"exit": rc, "oracles": oracles[:4], "wall_s": round(time.time() - t1, 1)}
                    if rc != 0:
                        det = p
                        if rc != 1:
                            r["checks"][p]["abnormal"] = (o[-300:] + e[-200:])
                        break
                r["detected_by"] = det
                r["status"] = "detected" if det else "survived"
            open(OUT, "a").write(json.dumps(r) + "\n")
            print(r["id"], r["file"], r["op"], r["status"], r.get("detected_by"), r.get("existing_tests_failed"), flush=True)
    finally:
        mc.sh(f"git -C /repo worktree remove --force {S}/repo")
        shutil.rmtree(S, ignore_errors=True)
        mc.sh("git -C /repo worktree prune")


if __name__ == "__main__":
    main()
