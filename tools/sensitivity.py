#!/usr/bin/env python3
"""Sensitivity matrix: apply each seeded change (/verif/seeded/*/patch.diff) and each
pre-validated mutant candidate (/verif/mutants/candidates.json, search/replace) to /repo,
run the quick tier of the targeted checks, record which check reports an unlisted
violation, and always revert /repo. Results go to /verif/mutants/sensitivity.json.

usage: tools/sensitivity.py [--only ID,ID,...] [--all-checks]
"""
import json, os, subprocess, sys, time, glob

REPO = "/repo"

def sh(cmd, **kw):
    return subprocess.run(cmd, shell=True, capture_output=True, text=True, **kw)

def clean():
    sh(f"git -C {REPO} reset -q --hard HEAD && git -C {REPO} clean -fdq -- statime statime-linux")

def repo_dirty():
    return sh(f"git -C {REPO} status --porcelain --untracked-files=no").stdout.strip() != ""

def run_check(pid):
    t0 = time.time()
    # evidence and replay files of runs against a changed tree must never land in /verif
    out = "/tmp/sens_out"
    os.makedirs(out + "/evidence", exist_ok=True)
    os.makedirs(out + "/replays", exist_ok=True)
    r = sh(f"VERIF_OUT_ROOT={out} EXPSIM_OUT_ROOT={out} VERIF_C17_OUT={out} /verif/check {pid} quick", timeout=1800)
    viol = [l for l in r.stdout.splitlines() if l.startswith("VIOLATION")]
    oracles = sorted(set(l.split("oracle=")[1].split(" ")[0] for l in r.stdout.splitlines() if l.startswith("violation") and "oracle=" in l))
    return {"exit": r.returncode, "violations": len(viol), "oracles": oracles[:6], "wall_s": round(time.time() - t0, 1)}

def main():
    only = None
    all_checks = "--all-checks" in sys.argv
    for i, a in enumerate(sys.argv):
        if a == "--only":
            only = set(sys.argv[i + 1].split(","))
    if repo_dirty():
        print("refusing: /repo has uncommitted changes")
        sys.exit(2)
    claimed = [c["property_id"] for c in json.load(open("/verif/MANIFEST.json"))["checks"]]
    jobs = []
    for d in sorted(glob.glob("/verif/seeded/S-*")):
        meta = json.load(open(d + "/meta.json"))
        jobs.append({"id": os.path.basename(d), "kind": "seeded", "targets": [meta["property"]], "patch": d + "/patch.diff", "what": meta.get("summary", "")})
    for m in json.load(open("/verif/mutants/candidates.json")):
        jobs.append({"id": m["id"], "kind": "candidate", "targets": m["targets"].split("/"), "file": m["file"], "old": m["old"], "new": m["new"], "what": m["what"], "existing_tests": m.get("existing_tests")})
    out_path = "/verif/mutants/sensitivity.json"
    results = json.load(open(out_path)) if os.path.exists(out_path) else {}
    for j in jobs:
        if only and j["id"] not in only:
            continue
        clean()
        applied = False
        if j["kind"] == "seeded":
            r = sh(f"git -C {REPO} apply {j['patch']}")
            applied = r.returncode == 0

        else:
            p = os.path.join(REPO, j["file"])
            s = open(p).read()
            if s.count(j["old"]) >= 1:
                open(p, "w").write(s.replace(j["old"], j["new"], 1))
                applied = True
        entry = {"kind": j["kind"], "what": j["what"], "targets": j["targets"], "applied": applied, "checks": {}}
        if j.get("existing_tests"):
            entry["existing_tests"] = j["existing_tests"]
        if applied:
            checks = claimed if all_checks else [t for t in j["targets"] if t in claimed]
            for pid in checks:
                entry["checks"][pid] = run_check(pid)
            entry["detected_by"] = [p for p, r in entry["checks"].items() if r["exit"] == 1]
        clean()
        results[j["id"]] = entry
        print(j["id"], "applied" if applied else "DOES-NOT-APPLY", entry.get("detected_by"), flush=True)
        json.dump(results, open(out_path, "w"), indent=1)
    clean()

if __name__ == "__main__":
    try:
        main()
    finally:
        clean()
