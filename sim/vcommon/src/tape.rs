//! The decision tape. Every choice a run makes goes through a `Chooser`.
//! In generation mode a choice is drawn from the stream's PRNG (all derived
//! from one seed) and appended to the tape; in replay mode it is read back.
//! A tape that has been shortened or edited is still a valid input: missing
//! entries read as 0, which every call site treats as its *nominal* value
//! (no fault, nominal delay, first ordering, smallest size) and out-of-range
//! entries are reduced modulo the range. That is what makes tapes shrinkable.

use crate::rng::{mix, Rng64};
use serde::{Deserialize, Serialize};

pub const N_STREAMS: usize = 6;
/// scenario / configuration decisions
pub const S_CFG: usize = 0;
/// network: delays, loss, duplication, reordering
pub const S_NET: usize = 1;
/// host: timer order, TX timestamp faults, BMCA phase
pub const S_HOST: usize = 2;
/// scripted peers / workload generators
pub const S_WORK: usize = 3;
/// fault scripts
pub const S_FAULT: usize = 4;
/// noise frames of the two-run check (kept apart so world A's draws never shift)
pub const S_NOISE: usize = 5;

#[derive(Clone, Debug, Default, Serialize, Deserialize, PartialEq)]
pub struct Tape {
    pub streams: Vec<Vec<u64>>,
}

impl Tape {
    pub fn len(&self) -> usize {
        self.streams.iter().map(|s| s.len()).sum()
    }
    pub fn is_empty(&self) -> bool {
        self.len() == 0
    }
}

enum Mode {
    Gen(Vec<Rng64>),
    Replay,
}

pub struct Chooser {
    mode: Mode,
    tape: Tape,
    pos: [usize; N_STREAMS],
    pub seed: u64,
}

impl Chooser {
    pub fn generate(seed: u64) -> Self {
        let rngs = (0..N_STREAMS).map(|i| Rng64::new(mix(&[seed, i as u64 + 1]))).collect();
        Chooser {
            mode: Mode::Gen(rngs),
            tape: Tape { streams: vec![Vec::new(); N_STREAMS] },
            pos: [0; N_STREAMS],
            seed,
        }
    }
    pub fn replay(seed: u64, mut tape: Tape) -> Self {
        tape.streams.resize(N_STREAMS, Vec::new());
        Chooser { mode: Mode::Replay, tape, pos: [0; N_STREAMS], seed }
    }
    /// The tape as consumed so far (generation) or as given (replay), truncated
    /// to what was actually read.
    pub fn into_tape(self) -> Tape {
        let mut t = self.tape;
        for (i, s) in t.streams.iter_mut().enumerate() {
            s.truncate(self.pos[i]);
        }
        t
    }
    /// copy of the tape as consumed so far (for lock-step second runs over the same decisions)
    pub fn tape_so_far(&self) -> Tape {
        let mut t = self.tape.clone();
        t.streams.resize(N_STREAMS, Vec::new());
        for (i, s) in t.streams.iter_mut().enumerate() {
            s.truncate(self.pos[i]);
        }
        t
    }
    pub fn consumed(&self) -> usize {
        self.pos.iter().sum()
    }

    /// value in 0..n ; 0 is the nominal choice
    #[inline]
    pub fn choose(&mut self, stream: usize, n: u64) -> u64 {
        if n <= 1 {
            return 0;
        }
        let p = self.pos[stream];
        self.pos[stream] += 1;
        match &mut self.mode {
            Mode::Gen(rngs) => {
                let v = rngs[stream].below(n);
                self.tape.streams[stream].push(v);
                v
            }
            Mode::Replay => match self.tape.streams[stream].get(p) {
                Some(v) => *v % n,
                None => 0,
            },
        }
    }
    /// inclusive range, `lo` nominal
    #[inline]
    pub fn range(&mut self, stream: usize, lo: u64, hi: u64) -> u64 {
        debug_assert!(hi >= lo);
        lo + self.choose(stream, hi - lo + 1)
    }
    /// signed inclusive range whose nominal value is the one closest to 0
    pub fn irange(&mut self, stream: usize, lo: i64, hi: i64) -> i64 {
        debug_assert!(hi >= lo);
        let n = (hi - lo) as u64 + 1;
        let nominal = 0i64.clamp(lo, hi);
        let v = self.choose(stream, n) as i64;
        // map 0 -> nominal, then wrap through the range
        let off = (nominal - lo) as i64;
        lo + (v + off).rem_euclid(n as i64)
    }
    /// true with probability num/den; the nominal answer is false
    #[inline]
    pub fn chance(&mut self, stream: usize, num: u64, den: u64) -> bool {
        if num == 0 {
            return false;
        }
        if num >= den {
            return true;
        }
        let v = self.choose(stream, den);
        v >= den - num
    }
    pub fn boolean(&mut self, stream: usize) -> bool {
        self.choose(stream, 2) == 1
    }
    /// pick an element; index 0 nominal
    pub fn pick<'a, T>(&mut self, stream: usize, items: &'a [T]) -> &'a T {
        &items[self.choose(stream, items.len() as u64) as usize]
    }
    /// weighted pick: returns index; index 0 is nominal and should carry the
    /// "plain" alternative
    pub fn weighted(&mut self, stream: usize, weights: &[u64]) -> usize {
        let total: u64 = weights.iter().sum();
        let mut v = self.choose(stream, total);
        for (i, w) in weights.iter().enumerate() {
            if v < *w {
                return i;
            }
            v -= *w;
        }
        weights.len() - 1
    }
    /// 64 raw bits (for seeding library RNGs)
    pub fn bits(&mut self, stream: usize) -> u64 {
        let hi = self.choose(stream, 1 << 32);
        let lo = self.choose(stream, 1 << 32);
        (hi << 32) | lo
    }
    /// Fisher-Yates with tape decisions (identity permutation nominal)
    pub fn shuffle<T>(&mut self, stream: usize, v: &mut [T]) {
        for i in 0..v.len() {
            let j = i + self.choose(stream, (v.len() - i) as u64) as usize;
            v.swap(i, j);
        }
    }
}
