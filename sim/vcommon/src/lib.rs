//! Shared machinery for every deterministic-simulation check in /verif:
//! one PRNG, the decision tape (record / replay), run outcomes, the batch
//! runner (parallel across runs, never inside a run), the tape minimiser,
//! known-findings matching, replay files and evidence files.

pub mod batch;
pub mod rng;
pub mod tape;

pub use batch::*;
pub use rng::Rng64;
pub use tape::{Chooser, Tape};

use serde::{Deserialize, Serialize};
use std::collections::BTreeMap;

/// One violation of one oracle, found in one run.
#[derive(Clone, Debug, Serialize, Deserialize, PartialEq)]
pub struct Violation {
    /// property id, e.g. "C12"
    pub property: String,
    /// stable oracle id, e.g. "C12.listening_without_receipt_timer"
    pub oracle: String,
    /// distinguishing key of the failing history (entry point, panic site,
    /// parameter class ...). Known findings are matched on oracle + key.
    pub key: String,
    /// human readable description with concrete values
    pub message: String,
}

/// What one simulated run reports back to the batch runner.
#[derive(Clone, Debug, Default)]
pub struct RunOutcome {
    pub violations: Vec<Violation>,
    /// the run reached its target situation and evaluated its oracle
    pub nontrivial: bool,
    /// hash of the sequence of event kinds / oracle phases (distinctness measure)
    pub shape: u64,
    /// digest of the full event log (determinism / replay check)
    pub digest: u64,
    pub events: u64,
    pub sim_seconds: f64,
    pub oracle_evals: u64,
    pub faults: BTreeMap<String, u64>,
    pub probes: BTreeMap<String, u64>,
    /// hashes of abstract states visited
    pub states: Vec<u64>,
    /// a written-out description of the case (kept for a few runs only)
    pub sample: Option<serde_json::Value>,
    /// panics of the system under test caught inside the run
    pub sut_panics: Vec<String>,
}

impl RunOutcome {
    pub fn fault(&mut self, k: &str) {
        *self.faults.entry(k.to_string()).or_insert(0) += 1;
    }
    pub fn fault_n(&mut self, k: &str, n: u64) {
        if n > 0 {
            *self.faults.entry(k.to_string()).or_insert(0) += n;
        }
    }
    pub fn probe(&mut self, k: &str) {
        *self.probes.entry(k.to_string()).or_insert(0) += 1;
    }
    pub fn probe_n(&mut self, k: &str, n: u64) {
        if n > 0 {
            *self.probes.entry(k.to_string()).or_insert(0) += n;
        }
    }
    pub fn violate(&mut self, property: &str, oracle: &str, key: impl Into<String>, message: impl Into<String>) {
        // keep one violation per (oracle,key) per run
        let key = key.into();
        if self.violations.iter().any(|v| v.oracle == oracle && v.key == key) {
            return;
        }
        self.violations.push(Violation {
            property: property.to_string(),
            oracle: oracle.to_string(),
            key,
            message: message.into(),
        });
    }
}

/// FNV-1a style incremental hash used for digests and fingerprints (stable
/// across runs, processes and thread counts - no RandomState anywhere).
#[derive(Clone, Copy, Debug)]
pub struct Fnv(pub u64);
impl Default for Fnv {
    fn default() -> Self {
        Fnv(0xcbf29ce484222325)
    }
}
impl Fnv {
    pub fn new() -> Self {
        Self::default()
    }
    #[inline]
    pub fn byte(&mut self, b: u8) {
        self.0 ^= b as u64;
        self.0 = self.0.wrapping_mul(0x100000001b3);
    }
    #[inline]
    pub fn bytes(&mut self, b: &[u8]) {
        for x in b {
            self.byte(*x);
        }
    }
    #[inline]
    pub fn u64(&mut self, v: u64) {
        self.bytes(&v.to_le_bytes());
    }
    #[inline]
    pub fn u128(&mut self, v: u128) {
        self.bytes(&v.to_le_bytes());
    }
    pub fn str(&mut self, s: &str) {
        self.bytes(s.as_bytes());
        self.byte(0xff);
    }
    pub fn finish(&self) -> u64 {
        // final avalanche
        let mut z = self.0;
        z ^= z >> 33;
        z = z.wrapping_mul(0xff51afd7ed558ccd);
        z ^= z >> 33;
        z
    }
}

pub fn hash_str(s: &str) -> u64 {
    let mut f = Fnv::new();
    f.str(s);
    f.finish()
}

/// A check = a family of simulated runs for one property.
pub trait Check: Sync {
    /// property id ("C01")
    fn property(&self) -> &'static str;
    /// scenario family name (one property may have several)
    fn family(&self) -> &'static str;
    /// run one simulated execution; every decision must come from `ch`
    fn run(&self, ch: &mut Chooser, tier: Tier) -> RunOutcome;
    /// how many runs in this tier
    fn budget(&self, tier: Tier) -> u64;
    /// Optional oracle over the whole batch of this family (e.g. a percentile of a measured
    /// quantity): gets the probes summed over all runs of the family and the number of runs.
    fn batch_oracle(&self, _probes: &BTreeMap<String, u64>, _runs: u64) -> Vec<Violation> {
        Vec::new()
    }
}

#[derive(Clone, Copy, Debug, PartialEq, Eq, Serialize, Deserialize)]
#[serde(rename_all = "lowercase")]
pub enum Tier {
    Quick,
    Thorough,
}

impl Tier {
    pub fn name(self) -> &'static str {
        match self {
            Tier::Quick => "quick",
            Tier::Thorough => "thorough",
        }
    }
}
