//! Batch runner: seeded search over many simulated runs, in parallel across
//! runs (never inside one), with tape minimisation, replay files, known
//! findings and evidence files.

use crate::rng::mix;
use crate::tape::{Chooser, Tape};
use crate::{Check, RunOutcome, Tier, Violation};
use serde::{Deserialize, Serialize};
use serde_json::json;
use std::collections::{BTreeMap, BTreeSet};
use std::panic::{catch_unwind, AssertUnwindSafe};
use std::path::{Path, PathBuf};
use std::sync::atomic::{AtomicU64, Ordering};
use std::sync::Mutex;
use std::time::Instant;

pub const VERIF_ROOT: &str = "/verif";

/// Where evidence and replay files go: `/verif`, or - for the mutation campaign only, which runs
/// scratch copies of the checks against scratch copies of the repository in parallel -
/// `VERIF_OUT_ROOT`. Known findings are always read from `/verif`.
pub fn out_root() -> String {
    std::env::var("VERIF_OUT_ROOT").unwrap_or_else(|_| VERIF_ROOT.to_string())
}

#[derive(Clone, Debug, Serialize, Deserialize)]
pub struct KnownFinding {
    pub property: String,
    pub oracle: String,
    /// every string must occur in the violation key
    #[serde(default)]
    pub key_contains: Vec<String>,
    /// "open" or "fixed: <commit>"
    pub status: String,
    pub what: String,
}

pub fn load_known_findings() -> Vec<KnownFinding> {
    let p = Path::new(VERIF_ROOT).join("known_findings.json");
    match std::fs::read_to_string(&p) {
        Ok(s) => match serde_json::from_str::<Vec<KnownFinding>>(&s) {
            Ok(v) => v,
            Err(e) => {
                eprintln!("HARNESS-ERROR: cannot parse {}: {e}", p.display());
                std::process::exit(2);
            }
        },
        Err(_) => Vec::new(),
    }
}

pub fn match_known<'a>(known: &'a [KnownFinding], v: &Violation) -> Option<&'a KnownFinding> {
    known.iter().find(|k| {
        k.status == "open"
            && k.property == v.property
            && k.oracle == v.oracle
            && k.key_contains.iter().all(|s| v.key.contains(s.as_str()))
    })
}

#[derive(Clone, Debug, Serialize, Deserialize)]
pub struct ReplayFile {
    pub property: String,
    pub family: String,
    pub tier: Tier,
    pub seed: u64,
    pub run_index: u64,
    pub oracle: String,
    pub key: String,
    pub message: String,
    pub digest: u64,
    pub minimised: bool,
    pub tape_len_before: usize,
    pub tape: Tape,
    /// set for violations of a batch-level oracle: replay re-runs `batch_runs` runs from `batch_seed`
    #[serde(default)]
    pub batch_runs: Option<u64>,
    #[serde(default)]
    pub batch_seed: Option<u64>,
}

pub fn run_seed(base_seed: u64, family: &str, index: u64) -> u64 {
    mix(&[base_seed, crate::hash_str(family), index])
}

thread_local! {
    static LAST_PANIC: std::cell::RefCell<Option<(String, String)>> = const { std::cell::RefCell::new(None) };
    static QUIET_PANICS: std::cell::Cell<bool> = const { std::cell::Cell::new(false) };
}

/// Install a panic hook that records message and location per thread and
/// stays quiet while a simulated run is in progress.
pub fn install_panic_hook() {
    let default = std::panic::take_hook();
    std::panic::set_hook(Box::new(move |info| {
        let msg = if let Some(s) = info.payload().downcast_ref::<&str>() {
            s.to_string()
        } else if let Some(s) = info.payload().downcast_ref::<String>() {
            s.clone()
        } else {
            "non-string panic payload".to_string()
        };
        let mut loc = info
            .location()
            .map(|l| format!("{}:{}", l.file(), l.line()))
            .unwrap_or_else(|| "?".into());
        // panics raised inside dependencies (fixed, arrayvec, core): name the first frame of the
        // system under test from a forced backtrace, so that the signature identifies the call site
        if !loc.contains("/repo/") && !loc.contains("/verif/") {
            let bt = std::backtrace::Backtrace::force_capture().to_string();
            let mut lines = bt.lines();
            while let Some(l) = lines.next() {
                let t = l.trim_start();
                let sym = t.split_once(": ").map(|x| x.1).unwrap_or(t);
                if sym.starts_with("statime::") || sym.starts_with("<statime::") || sym.starts_with("statime_linux::") || sym.starts_with("<statime_linux::") {
                    let at = lines.next().map(|l| l.trim().trim_start_matches("at ").to_string()).unwrap_or_default();
                    let short = at.rsplit("/repo/").next().unwrap_or(&at).to_string();
                    loc = format!("{loc} <- {short}");
                    break;
                }
            }
        }
        LAST_PANIC.with(|p| *p.borrow_mut() = Some((msg, loc)));
        if !QUIET_PANICS.with(|q| q.get()) {
            default(info);
        }
    }));
}

pub fn take_last_panic() -> Option<(String, String)> {
    LAST_PANIC.with(|p| p.borrow_mut().take())
}

pub fn set_quiet_panics(q: bool) {
    QUIET_PANICS.with(|c| c.set(q));
}

/// Run `f` catching panics; returns Err((message, location)).
pub fn guarded<R>(f: impl FnOnce() -> R) -> Result<R, (String, String)> {
    let prev = QUIET_PANICS.with(|q| q.replace(true));
    let r = catch_unwind(AssertUnwindSafe(f));
    QUIET_PANICS.with(|q| q.set(prev));
    match r {
        Ok(v) => Ok(v),
        Err(_) => Err(take_last_panic().unwrap_or(("unknown panic".into(), "?".into()))),
    }
}

fn is_harness_location(loc: &str) -> bool {
    loc.contains("/verif/") || loc.starts_with("ptpsim/") || loc.starts_with("vcommon/") || loc.starts_with("src/")
        || loc.starts_with("expsim/") || loc.starts_with("c17/")
}

/// One run of one family under a chooser, panics turned into outcome entries.
pub fn run_once(check: &dyn Check, ch: &mut Chooser, tier: Tier) -> Result<RunOutcome, String> {
    match guarded(|| check.run(ch, tier)) {
        Ok(o) => Ok(o),
        Err((msg, loc)) if msg.starts_with("DetectLock:") => {
            // the instance-state lock was requested again while held for writing: under RefCell
            // that is a re-borrow panic, under the daemon's RwLock a self-deadlock
            let mut o = RunOutcome::default();
            o.sut_panics.push(format!("{msg} @ {loc}"));
            o.violate("C17", "C17.reentrant_lock_request_while_held_for_writing", format!("family={}", check.family()), format!("{msg} (scenario {})", check.family()));
            o.violate("C03", "C03.panic_in_scenario", format!("family={} msg=DetectLock re-borrow", check.family()), msg.clone());
            o.nontrivial = true;
            Ok(o)
        }
        Err((msg, loc)) => {
            if is_harness_location(&loc) {
                Err(format!("harness panic at {loc}: {msg}"))
            } else {
                // the system under test panicked outside a guarded call
                let mut o = RunOutcome::default();
                o.sut_panics.push(format!("{msg} @ {loc}"));
                o.violate(
                    "C03",
                    "C03.panic_in_scenario",
                    format!("family={} loc={} msg={}", check.family(), loc, truncate(&msg, 80)),
                    format!("system under test panicked inside scenario {}: {msg} at {loc}", check.family()),
                );
                o.nontrivial = true;
                Ok(o)
            }
        }
    }
}

pub fn truncate(s: &str, n: usize) -> String {
    if s.len() <= n {
        s.to_string()
    } else {
        let mut e = n;
        while !s.is_char_boundary(e) {
            e -= 1;
        }
        s[..e].to_string()
    }
}

#[derive(Default)]
struct Agg {
    runs: u64,
    nontrivial: u64,
    shapes: BTreeSet<u64>,
    states: BTreeSet<u64>,
    events: u64,
    sim_seconds: f64,
    oracle_evals: u64,
    faults: BTreeMap<String, u64>,
    probes: BTreeMap<String, u64>,
    samples: Vec<serde_json::Value>,
    sut_panics: BTreeMap<String, u64>,
    other_property_violations: BTreeMap<String, u64>,
}

struct Found {
    family_idx: usize,
    index: u64,
    seed: u64,
    v: Violation,
}

pub struct BatchOptions {
    pub threads: usize,
    pub base_seed: u64,
    pub budget_scale: f64,
    pub max_minimise: usize,
}

impl BatchOptions {
    pub fn from_env() -> Self {
        let threads = std::env::var("VERIF_THREADS")
            .ok()
            .and_then(|s| s.parse().ok())
            .unwrap_or_else(|| std::thread::available_parallelism().map(|n| n.get()).unwrap_or(8).min(16));
        let base_seed = std::env::var("VERIF_SEED").ok().and_then(|s| s.parse().ok()).unwrap_or(1u64);
        let budget_scale = std::env::var("VERIF_BUDGET_SCALE").ok().and_then(|s| s.parse().ok()).unwrap_or(1.0);
        let max_minimise = std::env::var("VERIF_MAX_MIN").ok().and_then(|s| s.parse().ok()).unwrap_or(6);
        BatchOptions { threads, base_seed, budget_scale, max_minimise }
    }
}

/// Extra, check-specific entries merged into the evidence file.
#[derive(Default, Clone)]
pub struct EvidenceExtras {
    pub level: String,
    pub rule: String,
    pub assumptions: Vec<String>,
    pub components_real: Vec<String>,
    pub components_stub: Vec<String>,
    pub notes: Vec<String>,
    pub exhaustive: bool,
}

/// Run all families of one property. Returns the process exit code.
pub fn run_property(
    property: &str,
    families: &[&dyn Check],
    tier: Tier,
    opts: &BatchOptions,
    extras: &EvidenceExtras,
) -> i32 {
    install_panic_hook();
    let t0 = Instant::now();
    let known = load_known_findings();
    let mut agg = Agg::default();
    let mut per_family = Vec::new();
    let mut found: Vec<Found> = Vec::new();
    let mut harness_errors: Vec<String> = Vec::new();
    let mut batch_found: Vec<(usize, u64, Violation)> = Vec::new();

    for (fi, fam) in families.iter().enumerate() {
        let n = ((fam.budget(tier) as f64) * opts.budget_scale).ceil().max(1.0) as u64;
        let ft0 = Instant::now();
        let next = AtomicU64::new(0);
        // every worker folds its runs into a local aggregate (sums, sets, maps: all order
        // independent), so memory does not grow with the number of runs
        #[derive(Default)]
        struct Local {
            runs: u64,
            nontrivial: u64,
            events: u64,
            sim_ms: u64,
            oracle_evals: u64,
            shapes: BTreeSet<u64>,
            states: BTreeSet<u64>,
            faults: BTreeMap<String, u64>,
            probes: BTreeMap<String, u64>,
            sut_panics: BTreeMap<String, u64>,
            other: BTreeMap<String, u64>,
            samples: Vec<(u64, u64, serde_json::Value)>,
            found: Vec<(u64, u64, Violation)>,
            errors: Vec<String>,
        }
        let merged: Mutex<Local> = Mutex::new(Local::default());
        std::thread::scope(|s| {
            for _ in 0..opts.threads {
                s.spawn(|| {
                    let mut l = Local::default();
                    loop {
                        let i = next.fetch_add(1, Ordering::Relaxed);
                        if i >= n {
                            break;
                        }
                        let seed = run_seed(opts.base_seed, fam.family(), i);
                        let mut ch = Chooser::generate(seed);
                        match run_once(*fam, &mut ch, tier) {
                            Err(e) => l.errors.push(format!("family={} index={} seed={}: {}", fam.family(), i, seed, e)),
                            Ok(o) => {
                                l.runs += 1;
                                l.events += o.events;
                                l.sim_ms += (o.sim_seconds * 1000.0) as u64;
                                l.oracle_evals += o.oracle_evals;
                                if o.nontrivial {
                                    l.nontrivial += 1;
                                    l.shapes.insert(o.shape);
                                }
                                for st in o.states {
                                    l.states.insert(st);
                                }
                                for (k, v) in o.faults {
                                    *l.faults.entry(k).or_insert(0) += v;
                                }
                                for (k, v) in o.probes {
                                    *l.probes.entry(k).or_insert(0) += v;
                                }
                                for p in o.sut_panics {
                                    *l.sut_panics.entry(truncate(&p, 160)).or_insert(0) += 1;
                                }
                                if i < 3 {
                                    if let Some(sm) = o.sample {
                                        l.samples.push((i, seed, sm));
                                    }
                                }
                                for v in o.violations {
                                    if v.property == property {
                                        // bounded: keep at most a few thousand per worker
                                        if l.found.len() < 20_000 {
                                            l.found.push((i, seed, v));
                                        } else {
                                            *l.other.entry(format!("(further) {}", v.oracle)).or_insert(0) += 1;
                                        }
                                    } else {
                                        *l.other.entry(v.oracle.clone()).or_insert(0) += 1;
                                    }
                                }
                            }
                        }
                    }
                    let mut g = merged.lock().unwrap();
                    g.runs += l.runs;
                    g.nontrivial += l.nontrivial;
                    g.events += l.events;
                    g.sim_ms += l.sim_ms;
                    g.oracle_evals += l.oracle_evals;
                    g.shapes.extend(l.shapes);
                    g.states.extend(l.states);
                    for (k, v) in l.faults {
                        *g.faults.entry(k).or_insert(0) += v;
                    }
                    for (k, v) in l.probes {
                        *g.probes.entry(k).or_insert(0) += v;
                    }
                    for (k, v) in l.sut_panics {
                        *g.sut_panics.entry(k).or_insert(0) += v;
                    }
                    for (k, v) in l.other {
                        *g.other.entry(k).or_insert(0) += v;
                    }
                    g.samples.extend(l.samples);
                    g.found.extend(l.found);
                    g.errors.extend(l.errors);
                });
            }
        });
        let mut m = merged.into_inner().unwrap();
        m.samples.sort_by_key(|x| x.0);
        m.found.sort_by(|a, b| (a.0, &a.2.oracle, &a.2.key).cmp(&(b.0, &b.2.oracle, &b.2.key)));
        m.errors.sort();
        harness_errors.extend(m.errors);
        agg.runs += m.runs;
        agg.events += m.events;
        agg.sim_seconds += m.sim_ms as f64 / 1000.0;
        agg.oracle_evals += m.oracle_evals;
        agg.nontrivial += m.nontrivial;
        let f_nontrivial = m.nontrivial;
        let f_shapes = m.shapes;
        for sh in &f_shapes {
            agg.shapes.insert(mix(&[fi as u64, *sh]));
        }
        agg.states.extend(m.states);
        for (k, v) in m.faults {
            *agg.faults.entry(k).or_insert(0) += v;
        }
        let f_probes = m.probes;
        for (k, v) in &f_probes {
            *agg.probes.entry(k.clone()).or_insert(0) += *v;
        }
        for (k, v) in m.sut_panics {
            *agg.sut_panics.entry(k).or_insert(0) += v;
        }
        for (k, v) in m.other {
            *agg.other_property_violations.entry(k).or_insert(0) += v;
        }
        for (i, seed, sm) in m.samples {
            agg.samples.push(json!({"family": fam.family(), "run_index": i, "seed": seed, "case": sm}));
        }
        for (i, seed, v) in m.found {
            found.push(Found { family_idx: fi, index: i, seed, v });
        }
        for v in fam.batch_oracle(&f_probes, n) {
            if v.property == property {
                batch_found.push((fi, n, v));
            }
        }
        per_family.push(json!({
            "family": fam.family(),
            "runs": n,
            "nontrivial": f_nontrivial,
            "distinct_shapes": f_shapes.len(),
            "wall_s": ft0.elapsed().as_secs_f64(),
        }));
    }

    // classify violations
    let mut known_hits: BTreeMap<String, (u64, String)> = BTreeMap::new();
    let mut classes: BTreeMap<(String, String), Vec<&Found>> = BTreeMap::new();
    for f in &found {
        if let Some(k) = match_known(&known, &f.v) {
            let id = format!("{} {}", k.oracle, k.key_contains.join(","));
            let e = known_hits.entry(id).or_insert((0, k.what.clone()));
            e.0 += 1;
        } else {
            classes.entry((f.v.oracle.clone(), class_key(&f.v.key))).or_default().push(f);
        }
    }

    let mut violation_lines = Vec::new();
    let mut n_classes = 0usize;
    std::fs::create_dir_all(Path::new(&out_root()).join("replays")).ok();
    for ((oracle, _ck), list) in &classes {
        n_classes += 1;
        let first = list.iter().min_by_key(|f| (f.family_idx, f.index)).unwrap();
        let fam = families[first.family_idx];
        let do_min = n_classes <= opts.max_minimise;
        let path = make_replay(fam, tier, first.seed, first.index, &first.v, do_min, &known);
        println!(
            "violation: oracle={} key={} runs_hit={} first_family={} first_index={} seed={}\n  {}",
            oracle,
            first.v.key,
            list.len(),
            fam.family(),
            first.index,
            first.seed,
            first.v.message
        );
        violation_lines.push(format!("VIOLATION property={} replay={}", property, path.display()));
    }

    for (fi, n, v) in &batch_found {
        if let Some(k) = match_known(&known, v) {
            let id = format!("{} {}", k.oracle, k.key_contains.join(","));
            known_hits.entry(id).or_insert((0, k.what.clone())).0 += 1;
            continue;
        }
        n_classes += 1;
        let fam = families[*fi];
        let rf = ReplayFile {
            property: v.property.clone(),
            family: fam.family().to_string(),
            tier,
            seed: opts.base_seed,
            run_index: u64::MAX,
            oracle: v.oracle.clone(),
            key: v.key.clone(),
            message: v.message.clone(),
            digest: 0,
            minimised: false,
            tape_len_before: 0,
            tape: Tape::default(),
            batch_runs: Some(*n),
            batch_seed: Some(opts.base_seed),
        };
        let h = crate::hash_str(&format!("{}{}", rf.oracle, rf.key));
        let path = Path::new(&out_root()).join("replays").join(format!("{}-batch{}-{:08x}.json", v.property, opts.base_seed, h as u32));
        std::fs::write(&path, serde_json::to_string(&rf).unwrap()).ok();
        println!("violation (batch oracle): oracle={} key={} family={}\n  {}", v.oracle, v.key, fam.family(), v.message);
        violation_lines.push(format!("VIOLATION property={} replay={}", property, path.display()));
    }
    for (id, (n, what)) in &known_hits {
        println!("KNOWN-FINDING: property={} {} ({} runs) {}", property, id, n, what);
    }
    for l in &violation_lines {
        println!("{l}");
    }
    for e in harness_errors.iter().take(10) {
        eprintln!("HARNESS-ERROR: {e}");
    }

    let wall = t0.elapsed().as_secs_f64();
    let distinct = agg.shapes.len() as u64;
    let evidence = json!({
        "property_id": property,
        "tier": tier.name(),
        "seed": opts.base_seed,
        "level": if extras.level.is_empty() { "exploration" } else { extras.level.as_str() },
        "coverage": {
            "evaluations": agg.runs,
            "distinct_nontrivial": distinct,
            "rule": extras.rule,
            "samples": agg.samples,
            "exhaustive": extras.exhaustive,
            "nontrivial_runs": agg.nontrivial,
            "events": agg.events,
            "oracle_evaluations": agg.oracle_evals,
            "simulated_seconds": agg.sim_seconds,
            "runs_per_hour": if wall > 0.0 { (agg.runs as f64 / wall * 3600.0) as u64 } else { 0 },
            "seeds_per_hour": if wall > 0.0 { (agg.runs as f64 / wall * 3600.0) as u64 } else { 0 },
            "simulated_seconds_per_wall_second": if wall > 0.0 { agg.sim_seconds / wall } else { 0.0 },
            "distinct_states": agg.states.len(),
            "faults_fired": agg.faults,
            "probes": agg.probes,
            "families": per_family,
            "components": {"real": extras.components_real, "stub": extras.components_stub},
            "sut_panics": capped_panics(&agg.sut_panics),
            "violations_of_other_properties_seen": agg.other_property_violations,
            "known_findings_matched": known_hits.iter().map(|(k,(n,_))| json!({"finding": k, "runs": n})).collect::<Vec<_>>(),
            "unlisted_violation_classes": n_classes,
            "threads": opts.threads,
            "notes": extras.notes,
        },
        "assumptions": extras.assumptions,
        "wall_s": wall,
        "violations": n_classes,
    });
    let evdir = Path::new(&out_root()).join("evidence");
    std::fs::create_dir_all(&evdir).ok();
    let mut evidence = evidence;
    let part_name = std::env::var("VERIF_EVIDENCE_PART").ok();
    if part_name.is_none() {
        merge_parts(&evdir, property, &mut evidence);
    }
    let evpath = match &part_name {
        Some(n) => evdir.join(format!("{property}.{n}.part.json")),
        None => evdir.join(format!("{property}.json")),
    };
    if let Err(e) = std::fs::write(&evpath, serde_json::to_string_pretty(&evidence).unwrap()) {
        eprintln!("HARNESS-ERROR: cannot write {}: {e}", evpath.display());
        return 2;
    }
    println!(
        "{} {}: runs={} nontrivial={} distinct={} states={} sim_s={:.0} wall_s={:.1} violations={} known={}",
        property,
        tier.name(),
        agg.runs,
        agg.nontrivial,
        distinct,
        agg.states.len(),
        agg.sim_seconds,
        wall,
        n_classes,
        known_hits.len()
    );
    if !harness_errors.is_empty() {
        return 2;
    }
    if n_classes > 0 {
        1
    } else {
        0
    }
}

/// Panic signatures for the evidence file: numbers are folded (`N`) so that one call site is one
/// entry, and at most 40 entries are written (the rest as a count) - a mutant that panics with a
/// different index in every run must not produce a multi-megabyte evidence file.
fn capped_panics(m: &BTreeMap<String, u64>) -> serde_json::Value {
    let mut folded: BTreeMap<String, u64> = BTreeMap::new();
    for (k, v) in m {
        // signature = "<message> @ <location>": fold the numbers of the message only
        let (msg, loc) = match k.rsplit_once(" @ ") {
            Some((m, l)) => (m, Some(l)),
            None => (k.as_str(), None),
        };
        let mut f = String::with_capacity(k.len());
        let mut in_num = false;
        for c in msg.chars() {
            if c.is_ascii_digit() {
                if !in_num {
                    f.push('N');
                }
                in_num = true;
            } else {
                in_num = false;
                f.push(c);
            }
        }
        if let Some(l) = loc {
            f.push_str(" @ ");
            f.push_str(l);
        }
        *folded.entry(f).or_insert(0) += *v;
    }
    let mut v: Vec<(String, u64)> = folded.into_iter().collect();
    v.sort_by(|a, b| b.1.cmp(&a.1).then(a.0.cmp(&b.0)));
    let rest: u64 = v.iter().skip(40).map(|x| x.1).sum();
    let mut out = serde_json::Map::new();
    for (k, n) in v.into_iter().take(40) {
        out.insert(k, json!(n));
    }
    if rest > 0 {
        out.insert("(further signatures)".into(), json!(rest));
    }
    serde_json::Value::Object(out)
}

/// Merge evidence written by other processes of the same check (another build profile, the
/// shuttle part of C17) into the main evidence file: counts are added, samples appended, the
/// part is kept verbatim under coverage.parts.<name>. Part files are consumed.
fn merge_parts(evdir: &Path, property: &str, evidence: &mut serde_json::Value) {
    let Ok(rd) = std::fs::read_dir(evdir) else { return };
    let mut names: Vec<PathBuf> = rd.filter_map(|e| e.ok().map(|e| e.path())).collect();
    names.sort();
    for p in names {
        let fname = p.file_name().and_then(|f| f.to_str()).unwrap_or("").to_string();
        let prefix = format!("{property}.");
        if !fname.starts_with(&prefix) || !(fname.ends_with(".part.json") || fname.ends_with(".part2.json")) {
            continue;
        }
        let Ok(txt) = std::fs::read_to_string(&p) else { continue };
        let Ok(part) = serde_json::from_str::<serde_json::Value>(&txt) else { continue };
        let cov = if part.get("coverage").is_some() { part["coverage"].clone() } else { part.clone() };
        let add = |v: &serde_json::Value, keys: &[&str]| -> u64 { keys.iter().filter_map(|k| v.get(*k).and_then(|x| x.as_u64())).next().unwrap_or(0) };
        let ev = add(&cov, &["evaluations", "schedules"]);
        let di = add(&cov, &["distinct_nontrivial", "distinct_schedules"]);
        let c = &mut evidence["coverage"];
        c["evaluations"] = json!(c["evaluations"].as_u64().unwrap_or(0) + ev);
        c["distinct_nontrivial"] = json!(c["distinct_nontrivial"].as_u64().unwrap_or(0) + di);
        if let (Some(dst), Some(src)) = (c["samples"].as_array().cloned(), cov.get("samples").and_then(|s| s.as_array())) {
            let mut d = dst;
            for s in src.iter().take(3) {
                d.push(s.clone());
            }
            c["samples"] = json!(d);
        }
        if let Some(f) = cov.get("families").and_then(|f| f.as_array()) {
            let mut d = c["families"].as_array().cloned().unwrap_or_default();
            d.extend(f.iter().cloned());
            c["families"] = json!(d);
        }
        for k in ["faults_fired", "probes"] {
            if let Some(m) = cov.get(k).and_then(|m| m.as_object()) {
                for (kk, vv) in m {
                    let cur = c[k].get(kk).and_then(|x| x.as_u64()).unwrap_or(0);
                    c[k][kk] = json!(cur + vv.as_u64().unwrap_or(0));
                }
            }
        }
        let name = fname.trim_start_matches(&prefix).trim_end_matches(".json").to_string();
        let mut kept = cov.clone();
        if let Some(o) = kept.as_object_mut() {
            o.remove("samples");
        }
        c["parts"][name] = kept;
        let pv = part.get("violations").and_then(|v| v.as_u64()).unwrap_or(0);
        evidence["violations"] = json!(evidence["violations"].as_u64().unwrap_or(0) + pv);
        evidence["wall_s"] = json!(evidence["wall_s"].as_f64().unwrap_or(0.0) + part.get("wall_s").and_then(|v| v.as_f64()).unwrap_or(0.0));
        std::fs::remove_file(&p).ok();
    }
}

/// Coarse class of a key: digits removed, so that "seq=17" and "seq=18" are one class.
fn class_key(k: &str) -> String {
    k.chars().filter(|c| !c.is_ascii_digit()).collect()
}

fn same_violation(o: &RunOutcome, oracle: &str, key_class: &str, known: &[KnownFinding]) -> Option<Violation> {
    o.violations
        .iter()
        .find(|v| v.oracle == oracle && class_key(&v.key) == key_class && match_known(known, v).is_none())
        .cloned()
}

fn make_replay(
    fam: &dyn Check,
    tier: Tier,
    seed: u64,
    index: u64,
    v: &Violation,
    minimise: bool,
    known: &[KnownFinding],
) -> PathBuf {
    // regenerate the tape
    let mut ch = Chooser::generate(seed);
    let out = run_once(fam, &mut ch, tier);
    let mut tape = ch.into_tape();
    let before = tape.len();
    let mut best_v = v.clone();
    let mut digest = out.as_ref().map(|o| o.digest).unwrap_or(0);
    let mut minimised = false;
    if minimise {
        let t0 = Instant::now();
        let (t, bv, d) = minimise_tape(fam, tier, seed, tape.clone(), &v.oracle, &class_key(&v.key), known, 25.0);
        if let Some(bv) = bv {
            tape = t;
            best_v = bv;
            digest = d;
            minimised = true;
        }
        let _ = t0;
    }
    let rf = ReplayFile {
        property: v.property.clone(),
        family: fam.family().to_string(),
        tier,
        seed,
        run_index: index,
        oracle: best_v.oracle.clone(),
        key: best_v.key.clone(),
        message: best_v.message.clone(),
        digest,
        minimised,
        tape_len_before: before,
        tape,
        batch_runs: None,
        batch_seed: None,
    };
    let h = crate::hash_str(&format!("{}{}", rf.oracle, rf.key));
    let path = Path::new(&out_root())
        .join("replays")
        .join(format!("{}-{}-{:08x}.json", v.property, seed, h as u32));
    std::fs::write(&path, serde_json::to_string(&rf).unwrap()).ok();
    // replay in a fresh process: must reproduce the same oracle and digest
    if let Ok(exe) = std::env::current_exe() {
        match std::process::Command::new(exe).arg("replay").arg(&path).arg("--quiet").output() {
            Ok(o) => {
                let so = String::from_utf8_lossy(&o.stdout);
                if !so.contains("REPRODUCED") {
                    println!("warning: replay of {} in a fresh process did not reproduce: {}", path.display(), so.trim());
                }
            }
            Err(e) => println!("warning: could not spawn replay process: {e}"),
        }
    }
    path
}

/// Delta-debugging over the tape: truncate, delete chunks, zero chunks, halve
/// values - keeping a candidate only if the same oracle still fires.
pub fn minimise_tape(
    fam: &dyn Check,
    tier: Tier,
    seed: u64,
    tape: Tape,
    oracle: &str,
    key_class: &str,
    known: &[KnownFinding],
    wall_budget_s: f64,
) -> (Tape, Option<Violation>, u64) {
    let t0 = Instant::now();
    let mut best = tape;
    let mut best_v: Option<Violation> = None;
    let mut best_digest = 0u64;
    let mut tries = 0u64;
    let test = |cand: &Tape, best_v: &mut Option<Violation>, best_digest: &mut u64| -> Option<Tape> {
        let mut ch = Chooser::replay(seed, cand.clone());
        let out = run_once(fam, &mut ch, tier).ok()?;
        let v = same_violation(&out, oracle, key_class, known)?;
        *best_v = Some(v);
        *best_digest = out.digest;
        Some(ch.into_tape())
    };
    // confirm it reproduces under replay at all
    match test(&best.clone(), &mut best_v, &mut best_digest) {
        Some(t) => best = t,
        None => return (best, None, 0),
    }
    let mut progress = true;
    while progress && t0.elapsed().as_secs_f64() < wall_budget_s {
        progress = false;
        for si in 0..best.streams.len() {
            // pass 1: delete chunks
            let mut chunk = (best.streams[si].len() / 2).max(1);
            while chunk >= 1 && t0.elapsed().as_secs_f64() < wall_budget_s {
                let mut start = 0usize;
                while start < best.streams[si].len() {
                    if t0.elapsed().as_secs_f64() >= wall_budget_s {
                        break;
                    }
                    let end = (start + chunk).min(best.streams[si].len());
                    let mut cand = best.clone();
                    cand.streams[si].drain(start..end);
                    tries += 1;
                    if let Some(t) = test(&cand, &mut best_v, &mut best_digest) {
                        if t.len() < best.len() {
                            best = t;
                            progress = true;
                            continue;
                        }
                    }
                    // pass 2: zero the chunk
                    if best.streams[si][start..end].iter().any(|v| *v != 0) {
                        let mut cand = best.clone();
                        for v in &mut cand.streams[si][start..end] {
                            *v = 0;
                        }
                        tries += 1;
                        if let Some(t) = test(&cand, &mut best_v, &mut best_digest) {
                            if t.len() <= best.len() {
                                best = t;
                                progress = true;
                            }
                        }
                    }
                    start += chunk;
                }
                if chunk == 1 {
                    break;
                }
                chunk /= 2;
            }
        }
        if tries > 4000 {
            break;
        }
    }
    (best, best_v, best_digest)
}

/// `verif replay <file>`: re-run one recorded tape; prints REPRODUCED and the
/// VIOLATION line when the same oracle fires again. Exit 1 when reproduced.
pub fn replay_file(path: &str, families: &[&dyn Check], quiet: bool) -> i32 {
    install_panic_hook();
    let s = match std::fs::read_to_string(path) {
        Ok(s) => s,
        Err(e) => {
            eprintln!("HARNESS-ERROR: cannot read {path}: {e}");
            return 2;
        }
    };
    let rf: ReplayFile = match serde_json::from_str(&s) {
        Ok(r) => r,
        Err(e) => {
            eprintln!("HARNESS-ERROR: cannot parse {path}: {e}");
            return 2;
        }
    };
    let fam = match families.iter().find(|f| f.family() == rf.family && f.property() == rf.property) {
        Some(f) => *f,
        None => {
            eprintln!("HARNESS-ERROR: unknown family {} for property {}", rf.family, rf.property);
            return 2;
        }
    };
    if let (Some(n), Some(bs)) = (rf.batch_runs, rf.batch_seed) {
        // batch-level oracle: re-run the whole family batch and recompute the statistic
        let threads = BatchOptions::from_env().threads;
        let next = AtomicU64::new(0);
        let probes: Mutex<BTreeMap<String, u64>> = Mutex::new(BTreeMap::new());
        std::thread::scope(|s| {
            for _ in 0..threads {
                s.spawn(|| {
                    let mut local: BTreeMap<String, u64> = BTreeMap::new();
                    loop {
                        let i = next.fetch_add(1, Ordering::Relaxed);
                        if i >= n {
                            break;
                        }
                        let mut ch = Chooser::generate(run_seed(bs, fam.family(), i));
                        if let Ok(o) = run_once(fam, &mut ch, rf.tier) {
                            for (k, v) in o.probes {
                                *local.entry(k).or_insert(0) += v;
                            }
                        }
                    }
                    let mut g = probes.lock().unwrap();
                    for (k, v) in local {
                        *g.entry(k).or_insert(0) += v;
                    }
                });
            }
        });
        let probes = probes.into_inner().unwrap();
        let vs = fam.batch_oracle(&probes, n);
        return if let Some(v) = vs.iter().find(|v| v.oracle == rf.oracle) {
            println!("REPRODUCED oracle={} digest_match=true key={}", v.oracle, v.key);
            if !quiet {
                println!("  {}", v.message);
                println!("VIOLATION property={} replay={}", rf.property, path);
            }
            1
        } else {
            println!("NOT-REPRODUCED oracle={}", rf.oracle);
            0
        };
    }
    let mut ch = Chooser::replay(rf.seed, rf.tape.clone());
    match run_once(fam, &mut ch, rf.tier) {
        Err(e) => {
            eprintln!("HARNESS-ERROR: {e}");
            2
        }
        Ok(o) => {
            if let Some(v) = o.violations.iter().find(|v| v.oracle == rf.oracle && class_key(&v.key) == class_key(&rf.key)).or_else(|| o.violations.iter().find(|v| v.oracle == rf.oracle)) {
                let same_digest = o.digest == rf.digest;
                println!(
                    "REPRODUCED oracle={} digest_match={} key={}",
                    v.oracle, same_digest, v.key
                );
                if !quiet {
                    if let Some(sm) = &o.sample {
                        println!("case: {}", serde_json::to_string_pretty(sm).unwrap_or_default());
                    }
                    println!("  {}", v.message);
                    println!("VIOLATION property={} replay={}", rf.property, path);
                }
                1
            } else {
                println!("NOT-REPRODUCED oracle={} (violations seen: {:?})", rf.oracle, o.violations.iter().map(|v| &v.oracle).collect::<Vec<_>>());
                0
            }
        }
    }
}

/// Determinism self-test: every family, `n` seeds, run twice in this process
/// with different thread counts; digests must agree. Returns mismatches.
pub fn digests(fam: &dyn Check, tier: Tier, base_seed: u64, n: u64, threads: usize) -> Vec<(u64, u64, usize)> {
    install_panic_hook();
    let next = AtomicU64::new(0);
    let results: Mutex<Vec<(u64, u64, usize)>> = Mutex::new(Vec::new());
    std::thread::scope(|s| {
        for _ in 0..threads {
            s.spawn(|| loop {
                let i = next.fetch_add(1, Ordering::Relaxed);
                if i >= n {
                    break;
                }
                let seed = run_seed(base_seed, fam.family(), i);
                let mut ch = Chooser::generate(seed);
                let d = match run_once(fam, &mut ch, tier) {
                    Ok(o) => (i, mix(&[o.digest, o.shape, o.events, o.violations.len() as u64]), ch.consumed()),
                    Err(_) => (i, u64::MAX, 0),
                };
                results.lock().unwrap().push(d);
            });
        }
    });
    let mut r = results.into_inner().unwrap();
    r.sort();
    r
}
