//! xoshiro256** seeded through SplitMix64. Written here so that no `rand`
//! version bump can ever change what a seed means.

#[derive(Clone, Debug)]
pub struct Rng64 {
    s: [u64; 4],
}

#[inline]
pub fn splitmix(x: &mut u64) -> u64 {
    *x = x.wrapping_add(0x9E3779B97F4A7C15);
    let mut z = *x;
    z = (z ^ (z >> 30)).wrapping_mul(0xBF58476D1CE4E5B9);
    z = (z ^ (z >> 27)).wrapping_mul(0x94D049BB133111EB);
    z ^ (z >> 31)
}

/// Mix several integers into one seed.
pub fn mix(parts: &[u64]) -> u64 {
    let mut x = 0x243F6A8885A308D3u64;
    let mut out = 0u64;
    for p in parts {
        x ^= *p;
        out = out.rotate_left(17) ^ splitmix(&mut x);
    }
    splitmix(&mut out.clone()) ^ out
}

impl Rng64 {
    pub fn new(seed: u64) -> Self {
        let mut x = seed;
        let s = [splitmix(&mut x), splitmix(&mut x), splitmix(&mut x), splitmix(&mut x)];
        Rng64 { s }
    }
    #[inline]
    pub fn next_u64(&mut self) -> u64 {
        let result = self.s[1].wrapping_mul(5).rotate_left(7).wrapping_mul(9);
        let t = self.s[1] << 17;
        self.s[2] ^= self.s[0];
        self.s[3] ^= self.s[1];
        self.s[1] ^= self.s[2];
        self.s[0] ^= self.s[3];
        self.s[2] ^= t;
        self.s[3] = self.s[3].rotate_left(45);
        result
    }
    /// uniform in 0..n (n > 0), unbiased enough for simulation (128-bit multiply)
    #[inline]
    pub fn below(&mut self, n: u64) -> u64 {
        debug_assert!(n > 0);
        ((self.next_u64() as u128 * n as u128) >> 64) as u64
    }
}
