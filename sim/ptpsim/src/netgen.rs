//! Generated networks of real statime instances (used by C01 and, through the
//! always-on monitors, by C08 / C12 / C13 / C17).

use crate::clock::*;
use crate::host::*;
use crate::model::{self, Cmp};
use crate::wire::Pid;
use serde_json::json;
use vcommon::tape::*;
use vcommon::Chooser;

#[derive(Clone, Debug)]
pub struct NetPlan {
    pub nodes: Vec<NodeSpec>,
    pub n_segments: usize,
    pub seg_delay: Vec<(Tt, Tt)>,
    pub announce_log: i8,
    pub receipt_timeout: u8,
    pub skew_mode: u8,
    pub has_ring: bool,
    pub has_dual: bool,
}

pub struct NetOpts {
    pub max_nodes: u64,
    pub allow_rings: bool,
    pub allow_dual: bool,
    pub allow_skew: bool,
    pub kalman: bool,
}

const P1S: [u8; 3] = [128, 100, 200];
const CLASSES: [u8; 4] = [248, 128, 127, 6];

pub fn own_cmp(s: &NodeSpec) -> Cmp {
    Cmp::own(s.id, s.priority1, s.class, s.accuracy, s.variance, s.priority2)
}

pub fn generate(ch: &mut Chooser, o: &NetOpts) -> NetPlan {
    let n = ch.range(S_CFG, 2, o.max_nodes) as usize;
    let announce_log = *ch.pick(S_CFG, &[0i8, -1, -2, 1]);
    let receipt_timeout = ch.range(S_CFG, 2, 5) as u8;
    let sync_log = *ch.pick(S_CFG, &[announce_log, announce_log - 1, announce_log - 2, announce_log + 1]);
    let delay_log = *ch.pick(S_CFG, &[announce_log, announce_log - 1, announce_log + 1]);
    let skew_mode = if o.allow_skew { ch.weighted(S_CFG, &[5, 2, 2]) as u8 } else { 0 };
    let rings = o.allow_rings && ch.chance(S_CFG, 1, 3);
    let duals = o.allow_dual && ch.chance(S_CFG, 1, 4);
    let mut nodes: Vec<NodeSpec> = Vec::new();
    let mut seg_members: Vec<usize> = Vec::new(); // member count per segment
    let mut has_ring = false;
    let mut has_dual = false;
    // distinct identities: random permutation of small ranks spread over bytes
    let mut ranks: Vec<u8> = (1..=n as u8).collect();
    ch.shuffle(S_CFG, &mut ranks);
    for i in 0..n {
        let nports = 1 + ch.weighted(S_CFG, &[5, 3, 2]);
        let mut spec = NodeSpec::default();
        spec.id = [0x10, 0, 0, 0xff, 0xfe, 0, ch.choose(S_CFG, 3) as u8, ranks[i]];
        spec.priority1 = *ch.pick(S_CFG, &P1S);
        spec.class = *ch.pick(S_CFG, &CLASSES);
        spec.accuracy = *ch.pick(S_CFG, &[0xfeu8, 0x21, 0x23]);
        spec.variance = *ch.pick(S_CFG, &[0xffffu16, 0x4e5d, 0x8000]);
        spec.priority2 = *ch.pick(S_CFG, &[128u8, 127, 129]);
        spec.slave_only = nports == 1 && ch.chance(S_CFG, 1, 6);
        if spec.slave_only {
            spec.class = 255;
            spec.priority1 = 255;
        }
        spec.clock_start += ch.irange(S_CFG, -2_000_000, 2_000_000) as i128 * NS as i128;
        spec.drift_ppt = ch.irange(S_CFG, -50_000_000, 50_000_000);
        spec.bmca_phase_pm = ch.range(S_CFG, 1, 999);
        match skew_mode {
            1 => spec.timer_skew_ppt = ch.irange(S_CFG, -100_000_000, 100_000_000),
            2 => spec.bmca_period_delta = ch.irange(S_CFG, -3, 3) as i128 * MS as i128,
            _ => {}
        }
        let mut ports = Vec::new();
        for pi in 0..nports {
            let mut ps = PortSpec::default();
            ps.announce_log = announce_log;
            ps.sync_log = sync_log;
            ps.delay_log = delay_log;
            ps.receipt_timeout = receipt_timeout;
            ps.filter = if o.kalman { FilterKind::Kalman } else { FilterKind::Basic(0.25) };
            // segment choice
            let seg = if i == 0 || (pi > 0 && !rings && !duals) {
                seg_members.push(0);
                seg_members.len() - 1
            } else if pi == 0 {
                // connect to the existing network
                let cands: Vec<usize> = (0..seg_members.len()).filter(|s| seg_members[*s] < 4).collect();
                if cands.is_empty() {
                    seg_members.push(0);
                    seg_members.len() - 1
                } else {
                    *ch.pick(S_CFG, &cands)
                }
            } else {
                let own: Vec<usize> = ports.iter().filter_map(|p: &PortSpec| p.segment).collect();
                let k = ch.weighted(S_CFG, &[5, if rings { 3 } else { 0 }, if duals { 2 } else { 0 }]);
                match k {
                    1 => {
                        let cands: Vec<usize> = (0..seg_members.len()).filter(|s| seg_members[*s] < 4 && !own.contains(s)).collect();
                        if cands.is_empty() {
                            seg_members.push(0);
                            seg_members.len() - 1
                        } else {
                            has_ring = true;
                            *ch.pick(S_CFG, &cands)
                        }
                    }
                    2 if seg_members[own[0]] < 4 => {
                        has_dual = true;
                        own[0]
                    }
                    _ => {
                        seg_members.push(0);
                        seg_members.len() - 1
                    }
                }
            };
            seg_members[seg] += 1;
            ps.segment = Some(seg);
            ports.push(ps);
        }
        spec.ports = ports;
        nodes.push(spec);
    }
    // exclude configurations where IEEE 1588 itself yields several timing islands:
    // a clockClass < 128 boundary clock that is not the best clock
    let best = best_node(&nodes, &(0..n).collect::<Vec<_>>());
    for (i, s) in nodes.iter_mut().enumerate() {
        if s.ports.len() > 1 && s.class < 128 && Some(i) != best {
            s.class = 248;
        }
    }
    // point-to-point links (exactly two ports on the segment) may use the peer delay mechanism;
    // on shared segments it would see several responders and disable the ports
    for seg in 0..seg_members.len() {
        if seg_members[seg] == 2 && ch.chance(S_CFG, 1, 4) {
            for nd in nodes.iter_mut() {
                for ps in nd.ports.iter_mut() {
                    if ps.segment == Some(seg) {
                        ps.p2p = true;
                    }
                }
            }
        }
    }
    // the path trace option: off everywhere, on everywhere, or per node
    match ch.weighted(S_CFG, &[2, 1, 1]) {
        1 => {
            for nd in nodes.iter_mut() {
                nd.path_trace = true;
            }
        }
        2 => {
            for nd in nodes.iter_mut() {
                nd.path_trace = ch.boolean(S_CFG);
            }
        }
        _ => {}
    }
    // BMCA phases: independent per node, or all nodes in lock-step (their BMCA runs coincide and the
    // tape orders them), or at the extremes of the interval
    match ch.weighted(S_CFG, &[4, 1, 1]) {
        1 => {
            let shared = ch.range(S_CFG, 1, 999);
            for nd in nodes.iter_mut() {
                nd.bmca_phase_pm = shared;
            }
        }
        2 => {
            for nd in nodes.iter_mut() {
                nd.bmca_phase_pm = *ch.pick(S_CFG, &[1u64, 999, 500]);
            }
        }
        _ => {}
    }
    // the announce interval is a per-port setting: in a quarter of the networks segments differ
    // (all ports of one segment agree, ports of one boundary clock need not)
    let mut max_log = announce_log;
    if ch.chance(S_CFG, 1, 4) {
        for seg in 0..seg_members.len() {
            let off = *ch.pick(S_CFG, &[0i8, 0, 1, 2]);
            for nd in nodes.iter_mut() {
                for ps in nd.ports.iter_mut() {
                    if ps.segment == Some(seg) {
                        ps.announce_log = announce_log + off;
                    }
                }
            }
            max_log = max_log.max(announce_log + off);
        }
    }
    let announce_log = max_log;
    // re-evaluate (class change cannot make a node better than the previous best)
    let seg_delay = (0..seg_members.len())
        .map(|_| (ch.range(S_CFG, 1, 400) as u128 * US, ch.range(S_CFG, 0, 20) as u128 * US))
        .collect();
    NetPlan { nodes, n_segments: seg_members.len(), seg_delay, announce_log, receipt_timeout, skew_mode, has_ring, has_dual }
}

/// index (into `nodes`) of the best master-capable node among `members`
pub fn best_node(nodes: &[NodeSpec], members: &[usize]) -> Option<usize> {
    let mut best: Option<usize> = None;
    for &i in members {
        if nodes[i].slave_only {
            continue;
        }
        best = match best {
            None => Some(i),
            Some(b) => {
                if model::compare(&own_cmp(&nodes[i]), &own_cmp(&nodes[b]), true).a_wins() {
                    Some(i)
                } else {
                    Some(b)
                }
            }
        };
    }
    best
}

pub fn build(plan: &NetPlan, w: &mut World, ch: &mut Chooser) {
    for (d, j) in &plan.seg_delay {
        w.add_segment(*d, *j);
    }
    for s in &plan.nodes {
        w.add_node(s.clone(), ch);
    }
}

pub fn describe(plan: &NetPlan) -> serde_json::Value {
    json!({
        "announce_log": plan.announce_log,
        "receipt_timeout": plan.receipt_timeout,
        "skew_mode": plan.skew_mode,
        "segments": plan.seg_delay.iter().map(|(d,j)| json!({"delay_us": (*d / US) as u64, "jitter_us": (*j / US) as u64})).collect::<Vec<_>>(),
        "nodes": plan.nodes.iter().map(|n| json!({
            "id": Pid::new(n.id,0).short(), "p1": n.priority1, "class": n.class, "acc": n.accuracy, "var": n.variance, "p2": n.priority2,
            "slave_only": n.slave_only, "path_trace": n.path_trace, "ports": n.ports.iter().map(|p| p.segment).collect::<Vec<_>>(), "p2p_ports": n.ports.iter().map(|p| p.p2p).collect::<Vec<_>>(), "announce_logs": n.ports.iter().map(|p| p.announce_log).collect::<Vec<_>>(),
            "drift_ppm": n.drift_ppt as f64 / 1e6, "timer_skew_ppm": n.timer_skew_ppt as f64 / 1e6,
            "bmca_period_delta_ms": (n.bmca_period_delta / MS as i128) as i64, "bmca_phase_pm": n.bmca_phase_pm,
        })).collect::<Vec<_>>(),
    })
}
