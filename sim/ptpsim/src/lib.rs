//! Deterministic simulation of statime: simulated world, reference codec and
//! models, and the per-property checks.
pub mod checks;
pub mod clock;
pub mod driver;
pub mod script;
pub mod host;
pub mod model;
pub mod netgen;
pub mod support;
pub mod wire;
