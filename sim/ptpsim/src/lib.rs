//! Deterministic simulation of statime: simulated world, reference codec and
//! models, and the per-property checks.
pub mod clock;
pub mod host;
pub mod support;
pub mod wire;
