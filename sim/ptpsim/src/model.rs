//! Executable reference model of the IEEE 1588-2019 best master clock
//! algorithm: data set comparison (Figures 34 / 35) and state decision
//! (Figure 33), written from the standard - not from statime's code.

use crate::wire::{AnnounceBody, Pid};

/// The data set used by the comparison (Table 31/32 of the standard)
#[derive(Clone, Copy, Debug, PartialEq, Eq)]
pub struct Cmp {
    pub gm_priority1: u8,
    pub gm_identity: [u8; 8],
    pub gm_class: u8,
    pub gm_accuracy: u8,
    pub gm_variance: u16,
    pub gm_priority2: u8,
    pub steps_removed: u16,
    /// identity of the sender (sourcePortIdentity of the Announce / own clock for D0)
    pub sender: Pid,
    /// identity of the receiver (receiving port / own clock port 0 for D0)
    pub receiver: Pid,
}

#[derive(Clone, Copy, Debug, PartialEq, Eq)]
pub enum Rel {
    ABetter,
    ABetterByTopology,
    BBetter,
    BBetterByTopology,
    Error1,
    Error2,
}

impl Rel {
    pub fn a_wins(self) -> bool {
        matches!(self, Rel::ABetter | Rel::ABetterByTopology)
    }
    pub fn b_wins(self) -> bool {
        matches!(self, Rel::BBetter | Rel::BBetterByTopology)
    }
}

impl Cmp {
    pub fn from_announce(a: &AnnounceBody, sender: Pid, receiver: Pid) -> Self {
        Cmp {
            gm_priority1: a.gm_priority1,
            gm_identity: a.gm_identity,
            gm_class: a.gm_class,
            gm_accuracy: a.gm_accuracy,
            gm_variance: a.gm_variance,
            gm_priority2: a.gm_priority2,
            steps_removed: a.steps_removed,
            sender,
            receiver,
        }
    }
    pub fn own(id: [u8; 8], p1: u8, class: u8, acc: u8, var: u16, p2: u8) -> Self {
        Cmp {
            gm_priority1: p1,
            gm_identity: id,
            gm_class: class,
            gm_accuracy: acc,
            gm_variance: var,
            gm_priority2: p2,
            steps_removed: 0,
            sender: Pid::new(id, 0),
            receiver: Pid::new(id, 0),
        }
    }
    fn quality_key(&self) -> (u8, u8, u8, u16, u8, [u8; 8]) {
        (self.gm_priority1, self.gm_class, self.gm_accuracy, self.gm_variance, self.gm_priority2, self.gm_identity)
    }
}

/// Figure 34 + Figure 35. `strict_sender_port`: compare the full sender
/// portIdentity (clockIdentity, then portNumber) when stepsRemoved are equal,
/// as the standard's text defines the identity of the sender; statime compares
/// the sender's clockIdentity only.
pub fn compare(a: &Cmp, b: &Cmp, strict_sender_port: bool) -> Rel {
    if a.gm_identity != b.gm_identity {
        // Figure 34: lower is better, field by field
        return if a.quality_key() < b.quality_key() { Rel::ABetter } else { Rel::BBetter };
    }
    // Figure 35
    let (sa, sb) = (a.steps_removed as i32, b.steps_removed as i32);
    if sa > sb + 1 {
        return Rel::BBetter;
    }
    if sa + 1 < sb {
        return Rel::ABetter;
    }
    if sa > sb {
        // A = B + 1: compare receiver of A with sender of A
        return match a.receiver.clock.cmp(&a.sender.clock) {
            std::cmp::Ordering::Less => Rel::BBetter,
            std::cmp::Ordering::Greater => Rel::BBetterByTopology,
            std::cmp::Ordering::Equal => Rel::Error1,
        };
    }
    if sa < sb {
        return match b.receiver.clock.cmp(&b.sender.clock) {
            std::cmp::Ordering::Less => Rel::ABetter,
            std::cmp::Ordering::Greater => Rel::ABetterByTopology,
            std::cmp::Ordering::Equal => Rel::Error1,
        };
    }
    // equal stepsRemoved: identities of senders
    let s = if strict_sender_port {
        (a.sender.clock, a.sender.port).cmp(&(b.sender.clock, b.sender.port))
    } else {
        a.sender.clock.cmp(&b.sender.clock)
    };
    match s {
        std::cmp::Ordering::Less => Rel::ABetterByTopology,
        std::cmp::Ordering::Greater => Rel::BBetterByTopology,
        std::cmp::Ordering::Equal => match a.receiver.port.cmp(&b.receiver.port) {
            std::cmp::Ordering::Less => Rel::ABetterByTopology,
            std::cmp::Ordering::Greater => Rel::BBetterByTopology,
            std::cmp::Ordering::Equal => Rel::Error2,
        },
    }
}

#[derive(Clone, Copy, Debug, PartialEq, Eq)]
pub enum Decision {
    /// stay as is (Listening without a qualified master)
    Keep,
    M1,
    M2,
    M3,
    P1,
    P2,
    S1,
}

impl Decision {
    pub fn is_master(self) -> bool {
        matches!(self, Decision::M1 | Decision::M2 | Decision::M3)
    }
    pub fn is_passive(self) -> bool {
        matches!(self, Decision::P1 | Decision::P2)
    }
}

/// Figure 33 for one port. `erbest`: best qualified Announce of this port;
/// `ebest`: best over all (non-excluded) ports, with the index of the port it
/// was received on.
pub fn state_decision(
    d0: &Cmp,
    own_class: u8,
    listening: bool,
    erbest: Option<&Cmp>,
    ebest: Option<(&Cmp, usize)>,
    this_port: usize,
    strict: bool,
) -> Decision {
    if listening && erbest.is_none() {
        return Decision::Keep;
    }
    if (1..=127).contains(&own_class) {
        return match erbest {
            None => Decision::M1,
            Some(e) => {
                let r = compare(d0, e, strict);
                if r.b_wins() {
                    Decision::P1
                } else {
                    Decision::M1
                }
            }
        };
    }
    match ebest {
        None => Decision::M2,
        Some((eb, port)) => {
            let r = compare(d0, eb, strict);
            if !r.b_wins() {
                return Decision::M2;
            }
            if port == this_port {
                return Decision::S1;
            }
            match erbest {
                None => Decision::M3,
                Some(er) => {
                    if compare(eb, er, strict) == Rel::ABetterByTopology {
                        Decision::P2
                    } else {
                        Decision::M3
                    }
                }
            }
        }
    }
}

/// Pick the best of a list under the comparison; returns the index. Ties
/// (Error1/Error2) keep the earlier candidate, and `tie` reports whether one
/// occurred among the best.
pub fn best_of(cands: &[Cmp], strict: bool) -> Option<(usize, bool)> {
    if cands.is_empty() {
        return None;
    }
    let mut best = 0usize;
    let mut tie = false;
    for i in 1..cands.len() {
        let r = compare(&cands[i], &cands[best], strict);
        if r.a_wins() {
            best = i;
            tie = false;
        } else if !r.b_wins() {
            tie = true;
        }
    }
    Some((best, tie))
}
