use ptpsim::clock::*;
use ptpsim::host::*;
use vcommon::Chooser;

pub fn run() {
    let mut ch = Chooser::generate(1);
    let mut w = World::new();
    let seg = w.add_segment(50 * US, 5 * US);
    for i in 0..3u8 {
        let mut spec = NodeSpec::default();
        spec.id = [0, 0, 0, 0, 0, 0, 0, i + 1];
        spec.priority1 = 128 - i;
        spec.ports[0].segment = Some(seg);
        spec.clock_start += (i as i128) * 1_000_000 * NS as i128;
        spec.drift_ppt = (i as i64) * 20_000_000;
        w.add_node(spec, &mut ch);
    }
    let t0 = std::time::Instant::now();
    for k in 1..=12 {
        w.run_until(&mut ch, k * 10 * SEC);
        let st: Vec<_> = w.nodes.iter().map(|n| n.states()).collect();
        let off: Vec<f64> = w.nodes.iter().map(|n| (n.clock.borrow().local_at(w.now()) - w.nodes[2].clock.borrow().local_at(w.now())) as f64 / NS as f64).collect();
        println!("t={} states={:?} off_ns={:?}", k * 10, st, off);
    }
    let ev = w.events;
    let out = w.finish();
    println!("events={} wall={:?} violations={:?} probes={:?}", ev, t0.elapsed(), out.violations, out.probes);
}
