//! The simulated world: event queue, simulated time, host model of
//! `statime-linux/src/main.rs` (HostNode/HostPort), segments, and the safety
//! monitors (C08 role invariants, C13 command bounds, C17 lock depth) that
//! run after every host call of every scenario.

use crate::clock::*;
use crate::support::*;
use crate::wire::{self, Frame, MsgType, Pid};
use statime::config::{
    ClockAccuracy, ClockIdentity, ClockQuality, DelayMechanism, InstanceConfig, LeapIndicator, PortConfig,
    PtpMinorVersion, SdoId, TimePropertiesDS, TimeSource,
};
use statime::filters::KalmanConfiguration;
use statime::observability::port::PortState as ObsState;
use statime::port::{ForwardedTLV, ForwardedTLVProvider, InBmca, Port, PortAction, Running, TimestampContext};
use statime::time::Interval;
use statime::PtpInstance;
#[cfg(feature = "linuxfwd")]
use statime_linux::tlvforwarder::TlvForwarder;
#[cfg(not(feature = "linuxfwd"))]
pub use nofwd::TlvForwarder;

#[cfg(not(feature = "linuxfwd"))]
mod nofwd {
    //! stand-in used only when the crate is built without the daemon's forwarder
    use statime::port::{ForwardedTLV, ForwardedTLVProvider};
    pub struct TlvForwarder;
    impl TlvForwarder {
        pub fn new() -> Self {
            TlvForwarder
        }
        pub fn duplicate(&self) -> Self {
            TlvForwarder
        }
        pub fn forward(&self, _t: ForwardedTLV<'static>) {}
    }
    impl ForwardedTLVProvider for TlvForwarder {
        fn next_if_smaller(&mut self, _m: usize) -> Option<ForwardedTLV<'_>> {
            None
        }
    }
}
use std::cell::{Cell, RefCell};
use std::cmp::Reverse;
use std::collections::{BTreeSet, BinaryHeap};
use std::rc::Rc;
use vcommon::tape::*;
use vcommon::{Chooser, Fnv, RunOutcome};

pub type Aml = Option<Vec<ClockIdentity>>;
pub type SPort<L> = Port<'static, L, Aml, SimRng, SimClockHandle, AnyFilter, DetectLock>;
pub type Inst = PtpInstance<AnyFilter, DetectLock>;

#[derive(Clone, Copy, Debug, PartialEq, Eq, Hash, PartialOrd, Ord)]
pub enum PState {
    Faulty,
    Listening,
    Master,
    Passive,
    Slave,
    Other,
}

impl PState {
    pub fn from_obs(s: ObsState) -> Self {
        match s {
            ObsState::Faulty => PState::Faulty,
            ObsState::Listening => PState::Listening,
            ObsState::Master => PState::Master,
            ObsState::Passive => PState::Passive,
            ObsState::Slave => PState::Slave,
            _ => PState::Other,
        }
    }
    pub fn code(self) -> u8 {
        self as u8
    }
}

pub fn accuracy_from_u8(v: u8) -> ClockAccuracy {
    use ClockAccuracy::*;
    const TABLE: [ClockAccuracy; 27] = [
        PS1, PS2_5, PS10, PS25, PS100, PS250, NS1, NS2_5, NS10, NS25, NS100, NS250, US1, US2_5, US10, US25, US100,
        US250, MS1, MS2_5, MS10, MS25, MS100, MS250, S1, S10, SGT10,
    ];
    match v {
        0x17..=0x31 => TABLE[(v - 0x17) as usize],
        0x80..=0xfd => ProfileSpecific(v - 0x80),
        0xfe => Unknown,
        _ => Reserved,
    }
}

pub fn time_source_from_u8(v: u8) -> TimeSource {
    match v {
        0x10 => TimeSource::AtomicClock,
        0x20 => TimeSource::Gnss,
        0x30 => TimeSource::TerrestrialRadio,
        0x39 => TimeSource::SerialTimeCode,
        0x40 => TimeSource::Ptp,
        0x50 => TimeSource::Ntp,
        0x60 => TimeSource::HandSet,
        0x90 => TimeSource::Other,
        0xa0 => TimeSource::InternalOscillator,
        0xf0..=0xfe => TimeSource::ProfileSpecific(v - 0xf0),
        0xff => TimeSource::Reserved,
        v => TimeSource::Unknown(v),
    }
}

// ------------------------------------------------------------------ specs

#[derive(Clone, Debug)]
pub struct TimePropsSpec {
    pub utc_offset: Option<i16>,
    pub leap: u8, // 0 none, 1 leap61, 2 leap59
    pub time_traceable: bool,
    pub freq_traceable: bool,
    pub ptp_timescale: bool,
    pub time_source: u8,
}

impl Default for TimePropsSpec {
    fn default() -> Self {
        TimePropsSpec { utc_offset: None, leap: 0, time_traceable: false, freq_traceable: false, ptp_timescale: false, time_source: 0xa0 }
    }
}

impl TimePropsSpec {
    pub fn to_ds(&self) -> TimePropertiesDS {
        let leap = match self.leap {
            1 => LeapIndicator::Leap61,
            2 => LeapIndicator::Leap59,
            _ => LeapIndicator::NoLeap,
        };
        let mut ds = if self.ptp_timescale {
            TimePropertiesDS::new_ptp_time(self.utc_offset, leap, self.time_traceable, self.freq_traceable, time_source_from_u8(self.time_source))
        } else {
            let mut d = TimePropertiesDS::new_arbitrary_time(self.time_traceable, self.freq_traceable, time_source_from_u8(self.time_source));
            d.current_utc_offset = self.utc_offset;
            d.leap_indicator = leap;
            d
        };
        ds.ptp_timescale = self.ptp_timescale;
        ds
    }
}

#[derive(Clone, Debug)]
pub enum FilterKind {
    Kalman,
    Basic(f64),
    Recording { mean_delay_units: Option<i128> },
}

#[derive(Clone, Debug)]
pub struct PortSpec {
    pub announce_log: i8,
    pub sync_log: i8,
    pub delay_log: i8,
    pub receipt_timeout: u8,
    pub p2p: bool,
    pub master_only: bool,
    pub asym_units: i128,
    pub minor: u8,
    pub acceptable: Option<Vec<[u8; 8]>>,
    pub filter: FilterKind,
    /// index of the segment this port is attached to (None: not attached)
    pub segment: Option<usize>,
    /// use the real TlvForwarder of the daemon (shared per node)
    pub forward_tlvs: bool,
}

impl Default for PortSpec {
    fn default() -> Self {
        PortSpec {
            announce_log: 0,
            sync_log: 0,
            delay_log: 0,
            receipt_timeout: 3,
            p2p: false,
            master_only: false,
            asym_units: 0,
            minor: 1,
            acceptable: None,
            filter: FilterKind::Kalman,
            segment: None,
            forward_tlvs: true,
        }
    }
}

#[derive(Clone, Debug)]
pub struct NodeSpec {
    pub id: [u8; 8],
    pub priority1: u8,
    pub priority2: u8,
    pub class: u8,
    pub accuracy: u8,
    pub variance: u16,
    pub domain: u8,
    pub sdo: u16,
    pub slave_only: bool,
    pub path_trace: bool,
    pub time_props: TimePropsSpec,
    pub ports: Vec<PortSpec>,
    /// local clock reading at true time 0, units of 2^-32 ns
    pub clock_start: i128,
    pub drift_ppt: i64,
    pub quantum_ns: u64,
    /// host timers run on an oscillator with this error (parts per 10^12)
    pub timer_skew_ppt: i64,
    /// phase of the first BMCA tick as a fraction (0..1000 per mille) of the bmca interval
    pub bmca_phase_pm: u64,
    /// extra BMCA period (units) added to bmca_interval, can be negative
    pub bmca_period_delta: i128,
    pub kalman: KalmanConfiguration,
}

impl Default for NodeSpec {
    fn default() -> Self {
        NodeSpec {
            id: [0, 0, 0, 0, 0, 0, 0, 1],
            priority1: 128,
            priority2: 128,
            class: 248,
            accuracy: 0xfe,
            variance: 0xffff,
            domain: 0,
            sdo: 0,
            slave_only: false,
            path_trace: false,
            time_props: TimePropsSpec::default(),
            ports: vec![PortSpec::default()],
            clock_start: 1_700_000_000i128 * SEC as i128,
            drift_ppt: 0,
            quantum_ns: 0,
            timer_skew_ppt: 0,
            bmca_phase_pm: 500,
            bmca_period_delta: 0,
            kalman: KalmanConfiguration::default(),
        }
    }
}

impl NodeSpec {
    pub fn quality(&self) -> ClockQuality {
        ClockQuality {
            clock_class: self.class,
            clock_accuracy: accuracy_from_u8(self.accuracy),
            offset_scaled_log_variance: self.variance,
        }
    }
}

// ------------------------------------------------------------------ host port

pub const T_ANNOUNCE: usize = 0;
pub const T_SYNC: usize = 1;
pub const T_DELAY: usize = 2;
pub const T_RECEIPT: usize = 3;
pub const T_FILTER: usize = 4;
pub const TIMER_NAMES: [&str; 5] = ["announce", "sync", "delay_req", "announce_receipt", "filter_update"];

#[derive(Clone, Copy, Debug, Default)]
pub struct TimerState {
    pub gen: u64,
    pub deadline: Option<Tt>,
    pub armed_count: u64,
    pub fired_count: u64,
}

pub enum Slot {
    Running(Box<SPort<Running>>),
    InBmca(Box<SPort<InBmca>>),
    Empty,
}

pub enum TlvSource {
    Real(TlvForwarder),
    None,
}

struct NoTlvs;
impl ForwardedTLVProvider for NoTlvs {
    fn next_if_smaller(&mut self, _max: usize) -> Option<ForwardedTLV<'_>> {
        None
    }
}

pub struct HostPort {
    pub slot: Slot,
    pub timers: [TimerState; 5],
    pub pending_ctx: Vec<(u64, TimestampContext)>,
    pub fwd: TlvSource,
    pub stamp_clock: SharedClock,
    pub segment: Option<usize>,
    pub pid: Pid,
    pub spec: PortSpec,
    pub tag: u32,
    pub rec_log: Option<Rc<RefCell<RecLog>>>,
    /// with `keep_snapshots`: the last mean delay the port's filter(s) handed back to the port
    pub live_mean_delay: Option<Rc<Cell<Option<i128>>>>,
    pub tx_count: u64,
    pub rx_count: u64,
    /// last emitted sequence id of the message types with a counter of their own
    /// (Announce, Sync, Delay_Req, Pdelay_Req)
    pub last_seq: [Option<u16>; 4],
}

impl HostPort {
    pub fn state(&self) -> PState {
        match &self.slot {
            Slot::Running(p) => PState::from_obs(p.port_ds().port_state),
            Slot::InBmca(p) => PState::from_obs(p.port_ds().port_state),
            Slot::Empty => PState::Other,
        }
    }
    pub fn is_steering(&self) -> bool {
        match &self.slot {
            Slot::Running(p) => p.is_steering(),
            Slot::InBmca(p) => p.is_steering(),
            Slot::Empty => false,
        }
    }
    pub fn is_master(&self) -> bool {
        match &self.slot {
            Slot::Running(p) => p.is_master(),
            Slot::InBmca(p) => p.is_master(),
            Slot::Empty => false,
        }
    }
    pub fn debug_dump(&self) -> String {
        match &self.slot {
            Slot::Running(p) => format!("{:?}", p),
            Slot::InBmca(p) => format!("{:?}", p),
            Slot::Empty => "Empty".into(),
        }
    }
    pub fn armed(&self, t: usize) -> bool {
        self.timers[t].deadline.is_some()
    }
    pub fn interval_units(log: i8) -> Tt {
        if log >= 0 {
            SEC << (log as u32)
        } else {
            SEC >> ((-log) as u32)
        }
    }
    pub fn announce_interval(&self) -> Tt {
        Self::interval_units(self.spec.announce_log)
    }
    pub fn sync_interval(&self) -> Tt {
        Self::interval_units(self.spec.sync_log)
    }
    pub fn delay_interval(&self) -> Tt {
        Self::interval_units(self.spec.delay_log)
    }
}

// ------------------------------------------------------------------ host node

pub struct HostNode {
    inst_ptr: *mut Inst,
    pub inst: &'static Inst,
    pub ports: Vec<HostPort>,
    pub clock: SharedClock,
    pub spec: NodeSpec,
    pub epoch: u32,
    pub silenced: bool,
    pub bmca_count: u64,
    pub fwd_root: Option<TlvForwarder>,
}

impl Drop for HostNode {
    fn drop(&mut self) {
        // ports borrow the instance: drop them first, then reclaim the allocation
        self.ports.clear();
        self.fwd_root = None;
        unsafe {
            drop(Box::from_raw(self.inst_ptr));
        }
    }
}

impl HostNode {
    pub fn steering_ports(&self) -> usize {
        self.ports.iter().filter(|p| p.is_steering()).count()
    }
    pub fn states(&self) -> Vec<PState> {
        self.ports.iter().map(|p| p.state()).collect()
    }
    pub fn slave_port(&self) -> Option<usize> {
        self.ports.iter().position(|p| p.state() == PState::Slave)
    }
}

// ------------------------------------------------------------------ events

#[derive(Clone, Debug)]
pub enum Ev {
    Timer { node: usize, port: usize, which: usize, gen: u64, epoch: u32 },
    Rx { node: usize, port: usize, event: bool, frame: Rc<Vec<u8>>, epoch: u32, from_seq: u64 },
    TxTs { node: usize, port: usize, ctx: u64, stamp: u128, epoch: u32 },
    Bmca { node: usize, epoch: u32 },
    /// returned to the scenario driver
    Script { tag: u64, a: u64, b: u64 },
    /// frame arriving at a scripted (non-statime) endpoint
    ScriptRx { endpoint: usize, event: bool, frame: Rc<Vec<u8>>, tx_stamp: Option<u128>, from_seq: u64 },
}

struct QEntry {
    at: Tt,
    tie: u64,
    seq: u64,
    ev: Ev,
}
impl PartialEq for QEntry {
    fn eq(&self, o: &Self) -> bool {
        (self.at, self.tie, self.seq) == (o.at, o.tie, o.seq)
    }
}
impl Eq for QEntry {}
impl PartialOrd for QEntry {
    fn partial_cmp(&self, o: &Self) -> Option<std::cmp::Ordering> {
        Some(self.cmp(o))
    }
}
impl Ord for QEntry {
    fn cmp(&self, o: &Self) -> std::cmp::Ordering {
        (self.at, self.tie, self.seq).cmp(&(o.at, o.tie, o.seq))
    }
}

#[derive(Clone, Debug)]
pub enum Endpoint {
    Host { node: usize, port: usize },
    Script { id: usize },
}

#[derive(Clone, Debug)]
pub struct Segment {
    pub members: Vec<Endpoint>,
    pub cut: bool,
    pub base_delay: Tt,
    pub jitter: Tt,
}

#[derive(Clone, Debug, Default)]
pub struct NetFaults {
    /// per-million probabilities
    pub drop_ppm: u64,
    pub dup_ppm: u64,
    pub reorder_ppm: u64,
    pub reorder_extra: Tt,
    pub corrupt_ppm: u64,
}

#[derive(Clone, Debug, Default)]
pub struct HostFaults {
    pub tx_ts_late_ppm: u64,
    pub tx_ts_late_max: Tt,
    pub tx_ts_lost_ppm: u64,
    /// constant latency of the transmit-timestamp path (a property of the host, not a fault:
    /// applies whether or not fault injection is on)
    pub tx_ts_latency: Tt,
    pub timer_late_ppm: u64,
    pub timer_late_max: Tt,
    /// draw a random tie-break for same-instant events
    pub random_ties: bool,
}

#[derive(Clone, Debug)]
pub struct Emitted {
    pub seq: u64,
    pub at: Tt,
    pub node: usize,
    pub port: usize,
    pub event: bool,
    pub link_local: bool,
    pub bytes: Rc<Vec<u8>>,
    pub state: PState,
    /// TX timestamp (sender clock, quantised) for event messages
    pub tx_stamp: Option<u128>,
    /// host call that produced the frame
    pub cause: &'static str,
}

#[derive(Debug)]
pub enum OwnedAction {
    SendEvent { ctx: TimestampContext, data: Vec<u8>, link_local: bool },
    SendGeneral { data: Vec<u8>, link_local: bool },
    Timer { which: usize, dur: core::time::Duration },
    ForwardTlv(ForwardedTLV<'static>),
}

#[derive(Clone, Debug)]
pub enum HostCall {
    Timer(usize),
    RxEvent(Rc<Vec<u8>>, u128),
    RxGeneral(Rc<Vec<u8>>),
    TxTimestamp(u64, u128),
}

impl HostCall {
    pub fn name(&self) -> &'static str {
        match self {
            HostCall::Timer(T_ANNOUNCE) => "handle_announce_timer",
            HostCall::Timer(T_SYNC) => "handle_sync_timer",
            HostCall::Timer(T_DELAY) => "handle_delay_request_timer",
            HostCall::Timer(T_RECEIPT) => "handle_announce_receipt_timer",
            HostCall::Timer(_) => "handle_filter_update_timer",
            HostCall::RxEvent(..) => "handle_event_receive",
            HostCall::RxGeneral(..) => "handle_general_receive",
            HostCall::TxTimestamp(..) => "handle_send_timestamp",
        }
    }
}

/// What `step` hands back to the scenario driver.
#[derive(Debug)]
pub enum Stepped {
    /// a host event was processed
    Host,
    Script { tag: u64, a: u64, b: u64 },
    ScriptRx { endpoint: usize, event: bool, frame: Rc<Vec<u8>>, tx_stamp: Option<u128>, from_seq: u64 },
    /// stale event (cancelled timer, restarted node)
    Stale,
}

/// Summary of the actions returned by one host call (for oracles).
#[derive(Clone, Debug, Default)]
pub struct CallSummary {
    pub event_sends: u32,
    pub general_sends: u32,
    pub timers: [bool; 5],
    pub tlvs_forwarded: u32,
    pub n_actions: u32,
}

/// What the daemon publishes for observation right after each BMCA run
/// (`statime-linux/src/main.rs: run`), taken with the same getter calls.
#[derive(Clone, Debug)]
pub struct SnapshotParts {
    pub node: usize,
    pub at: Tt,
    pub default_ds: statime::observability::default::DefaultDS,
    pub current_ds: statime::observability::current::CurrentDS,
    pub parent_ds: statime::observability::parent::ParentDS,
    pub time_properties_ds: TimePropertiesDS,
    pub path_trace_ds: statime::observability::PathTraceDS,
    pub port_ds: Vec<statime::observability::port::PortDS>,
    /// per port: the mean delay its filters last handed back to it (units of 2^-32 ns), i.e. the
    /// value the port itself works with; `None` before the first one
    pub live_mean_delay: Vec<Option<i128>>,
}

thread_local! {
    /// scenario families written for another property can be re-run with the timer-cover monitor on
    pub static TIMER_COVER_DEFAULT: Cell<bool> = const { Cell::new(false) };
}

#[derive(Clone, Debug)]
pub struct RxRec {
    pub seq: u64,
    pub at: Tt,
    pub node: usize,
    pub port: usize,
    pub event: bool,
    pub bytes: Rc<Vec<u8>>,
    /// state of the receiving port before the frame was handled
    pub state_before: PState,
    pub summary: CallSummary,
}

/// A planned near-miss frame: when the trigger is seen on `port` for the `countdown`-th time, a
/// frame that mimics the matching reply (same sequence id, domain and sdoId) but comes from a
/// sender that is not the selected parent - or answers another requester - is delivered to the
/// port immediately afterwards, i.e. while the genuine exchange is still in flight.
#[derive(Clone, Debug)]
pub struct Mimic {
    pub port: usize,
    /// 0: Sync received -> Follow_Up from a non-parent; 1: Sync received -> Sync from a non-parent;
    /// 2: Delay_Req sent -> Delay_Resp from a non-parent; 3: Delay_Req sent -> Delay_Resp for another requester
    pub kind: u8,
    pub countdown: u32,
    pub src_variant: u8,
    pub fired: bool,
}

pub struct World {
    pub mimics: Vec<Mimic>,
    pub keep_rx: bool,
    pub rx_log: Vec<RxRec>,
    pub keep_snapshots: bool,
    pub snapshots: Vec<SnapshotParts>,
    pub time: Rc<SimTime>,
    queue: BinaryHeap<Reverse<QEntry>>,
    pub nodes: Vec<HostNode>,
    pub segments: Vec<Segment>,
    pub net: NetFaults,
    pub hostf: HostFaults,
    pub faults_on: bool,
    pub emitted: Vec<Emitted>,
    pub keep_emitted: bool,
    pub out: RunOutcome,
    pub digest: Fnv,
    pub shape: Fnv,
    pub states: BTreeSet<u64>,
    pub next_ctx: u64,
    pub events: u64,
    pub monitors: bool,
    /// the scenario delivers TX timestamps itself (contexts stay in `pending_ctx`)
    pub manual_tx_ts: bool,
    /// check after every call that the armed timers cover what each port state waits for
    /// (valid only while the host arms and fires timers exactly as requested)
    pub timer_cover: bool,
    /// property whose scenario is running (for attribution of panics etc.)
    pub max_freq_ppm: f64,
    pub step_threshold_units: i128,
    pub last_call: Option<(usize, usize, &'static str, CallSummary)>,
    /// name of the host call in progress (read after a caught panic)
    pub current_call: &'static str,
    clock_log_seen: Vec<usize>,
    next_tag: Cell<u32>,
    /// per-port last state, to detect transitions (node, port) -> state
    pub transitions: u64,
    pub max_events: u64,
    storm_at: Tt,
    storm_count: u64,
    storm_reported: bool,
    /// corrupt hook output
    pub corrupted: u64,
}

impl World {
    pub fn new() -> Self {
        lock_stats_reset();
        let _ = log_counts_take();
        World {
            mimics: Vec::new(),
            keep_rx: false,
            rx_log: Vec::new(),
            keep_snapshots: false,
            snapshots: Vec::new(),
            time: Rc::new(SimTime { now: Cell::new(0), seq: Cell::new(0) }),
            queue: BinaryHeap::new(),
            nodes: Vec::new(),
            segments: Vec::new(),
            net: NetFaults::default(),
            hostf: HostFaults::default(),
            faults_on: true,
            emitted: Vec::new(),
            keep_emitted: true,
            out: RunOutcome::default(),
            digest: Fnv::new(),
            shape: Fnv::new(),
            states: BTreeSet::new(),
            next_ctx: 1,
            events: 0,
            monitors: true,
            manual_tx_ts: false,
            timer_cover: TIMER_COVER_DEFAULT.with(|c| c.get()),
            max_freq_ppm: 400.0,
            // the configured threshold as the library holds it (Duration::from_seconds(1e-3) is 999999.93 ns, not 1 ms)
            step_threshold_units: duration_to_units(KalmanConfiguration::default().step_threshold),
            last_call: None,
            current_call: "",
            clock_log_seen: Vec::new(),
            next_tag: Cell::new(1),
            transitions: 0,
            max_events: 5_000_000,
            storm_at: Tt::MAX,
            storm_count: 0,
            storm_reported: false,
            corrupted: 0,
        }
    }

    pub fn now(&self) -> Tt {
        self.time.now.get()
    }
    pub fn seq(&self) -> u64 {
        self.time.seq.get()
    }

    pub fn add_segment(&mut self, base_delay: Tt, jitter: Tt) -> usize {
        self.segments.push(Segment { members: Vec::new(), cut: false, base_delay, jitter });
        self.segments.len() - 1
    }
    pub fn attach_script(&mut self, seg: usize, id: usize) {
        self.segments[seg].members.push(Endpoint::Script { id });
    }

    fn build_node(&self, spec: &NodeSpec, ch: &mut Chooser, node_index: usize) -> HostNode {
        let cfg = InstanceConfig {
            clock_identity: ClockIdentity(spec.id),
            priority_1: spec.priority1,
            priority_2: spec.priority2,
            domain_number: spec.domain,
            sdo_id: SdoId::try_from(spec.sdo & 0xfff).unwrap(),
            slave_only: spec.slave_only,
            path_trace: spec.path_trace,
            clock_quality: spec.quality(),
        };
        let inst_ptr = Box::into_raw(Box::new(Inst::new(cfg, spec.time_props.to_ds())));
        let inst: &'static Inst = unsafe { &*inst_ptr };
        let mut model = ClockModel::new(spec.clock_start, spec.drift_ppt);
        model.anchor_true = self.now();
        model.quantum_ns = spec.quantum_ns;
        let clock: SharedClock = Rc::new(RefCell::new(model));
        let any_fwd = spec.ports.iter().any(|p| p.forward_tlvs);
        let fwd_root = if any_fwd { Some(TlvForwarder::new()) } else { None };
        let mut ports = Vec::new();
        for (pi, ps) in spec.ports.iter().enumerate() {
            let tag = self.next_tag.get();
            self.next_tag.set(tag + 1);
            let interval = |l: i8| Interval::from_log_2(l);
            let pc = PortConfig {
                acceptable_master_list: ps.acceptable.as_ref().map(|v| v.iter().map(|c| ClockIdentity(*c)).collect::<Vec<_>>()),
                delay_mechanism: if ps.p2p {
                    DelayMechanism::P2P { interval: interval(ps.delay_log) }
                } else {
                    DelayMechanism::E2E { interval: interval(ps.delay_log) }
                },
                announce_interval: interval(ps.announce_log),
                announce_receipt_timeout: ps.receipt_timeout,
                sync_interval: interval(ps.sync_log),
                master_only: ps.master_only,
                delay_asymmetry: units_to_duration(ps.asym_units),
                minor_ptp_version: if ps.minor == 0 { PtpMinorVersion::Zero } else { PtpMinorVersion::One },
            };
            let mut rec_log = None;
            let fcfg = match &ps.filter {
                FilterKind::Kalman => FilterCfg::Kalman(spec.kalman),
                FilterKind::Basic(g) => FilterCfg::Basic(*g),
                FilterKind::Recording { mean_delay_units } => {
                    let log = Rc::new(RefCell::new(RecLog::default()));
                    rec_log = Some(log.clone());
                    FilterCfg::Recording { log, mean_delay_units: *mean_delay_units, seq: self.time.clone() }
                }
            };
            let live_mean_delay = if self.keep_snapshots { Some(Rc::new(Cell::new(None))) } else { None };
            let fcfg = match &live_mean_delay {
                Some(live) => FilterCfg::Tracked { inner: Box::new(fcfg), live: live.clone() },
                None => fcfg,
            };
            let handle = SimClockHandle::new(clock.clone(), self.time.clone(), tag);
            let rng = SimRng::new(ch.bits(S_CFG));
            let port = inst.add_port(pc, fcfg, handle, rng);
            let fwd = match (&fwd_root, ps.forward_tlvs) {
                (Some(root), true) => TlvSource::Real(root.duplicate()),
                _ => TlvSource::None,
            };
            ports.push(HostPort {
                slot: Slot::InBmca(Box::new(port)),
                timers: [TimerState::default(); 5],
                pending_ctx: Vec::new(),
                fwd,
                stamp_clock: clock.clone(),
                segment: ps.segment,
                pid: Pid::new(spec.id, (pi + 1) as u16),
                spec: ps.clone(),
                tag,
                rec_log,
                live_mean_delay,
                tx_count: 0,
                rx_count: 0,
                last_seq: [None; 4],
            });
        }
        let _ = node_index;
        HostNode {
            inst_ptr,
            inst,
            ports,
            clock,
            spec: spec.clone(),
            epoch: 0,
            silenced: false,
            bmca_count: 0,
            // the daemon drops its root forwarder once all ports have a duplicate
            fwd_root: None,
        }
    }

    /// Create a node, attach its ports to their segments, move the ports to
    /// Running (as the daemon does) and schedule its first BMCA tick.
    pub fn add_node(&mut self, spec: NodeSpec, ch: &mut Chooser) -> usize {
        let ni = self.nodes.len();
        let node = self.build_node(&spec, ch, ni);
        for (pi, p) in node.ports.iter().enumerate() {
            if let Some(s) = p.segment {
                self.segments[s].members.push(Endpoint::Host { node: ni, port: pi });
            }
        }
        self.nodes.push(node);
        self.clock_log_seen.push(0);
        self.start_node(ni, ch);
        ni
    }

    fn start_node(&mut self, ni: usize, ch: &mut Chooser) {
        let nports = self.nodes[ni].ports.len();
        for pi in 0..nports {
            self.end_bmca_port(ni, pi, ch);
        }
        let interval = self.bmca_interval(ni);
        let phase = interval * self.nodes[ni].spec.bmca_phase_pm as u128 / 1000;
        let epoch = self.nodes[ni].epoch;
        self.schedule(self.now() + phase.max(1), Ev::Bmca { node: ni, epoch }, None);
    }

    /// Restart a node: fresh PtpInstance (statime has no durable state).
    pub fn restart_node(&mut self, ni: usize, ch: &mut Chooser) {
        let spec = self.nodes[ni].spec.clone();
        let epoch = self.nodes[ni].epoch + 1;
        let mut node = self.build_node(&spec, ch, ni);
        node.epoch = epoch;
        // keep the oscillator (the clock hardware survives a daemon restart)
        let old_clock = self.nodes[ni].clock.clone();
        {
            let oc = old_clock.borrow();
            let mut nc = node.clock.borrow_mut();
            nc.anchor_true = oc.anchor_true;
            nc.anchor_local = oc.anchor_local;
            nc.adj_ppt = oc.adj_ppt;
            nc.drift_ppt = oc.drift_ppt;
        }
        self.nodes[ni] = node;
        self.clock_log_seen[ni] = 0;
        self.start_node(ni, ch);
    }

    pub fn bmca_interval(&self, ni: usize) -> Tt {
        let base = core_to_units(self.nodes[ni].inst.bmca_interval());
        let d = self.nodes[ni].spec.bmca_period_delta;
        let skew = self.nodes[ni].spec.timer_skew_ppt as i128;
        let v = base as i128 + d;
        let v = v + v * skew / 1_000_000_000_000i128;
        v.max(US as i128) as u128
    }

    pub fn schedule(&mut self, at: Tt, ev: Ev, ch: Option<&mut Chooser>) {
        let tie = match ch {
            Some(c) if self.hostf.random_ties => c.choose(S_HOST, 1 << 16),
            _ => 0,
        };
        let seq = self.time.seq.get() + 1;
        self.time.seq.set(seq);
        self.queue.push(Reverse(QEntry { at, tie, seq, ev }));
    }
    pub fn schedule_script(&mut self, at: Tt, tag: u64, a: u64, b: u64) {
        self.schedule(at, Ev::Script { tag, a, b }, None);
    }
    pub fn next_event_time(&self) -> Option<Tt> {
        self.queue.peek().map(|e| e.0.at)
    }
    pub fn queue_len(&self) -> usize {
        self.queue.len()
    }

    fn log_ev(&mut self, kind: u8, a: u64, b: u64) {
        self.digest.byte(kind);
        self.digest.u128(self.now());
        self.digest.u64(a);
        self.digest.u64(b);
        self.events += 1;
    }

    /// Pop and process one event. Returns None when the queue is empty or the
    /// next event lies beyond `until`.
    pub fn step(&mut self, ch: &mut Chooser, until: Tt) -> Option<Stepped> {
        let at = self.queue.peek()?.0.at;
        if at > until {
            return None;
        }
        // every run is bounded: a host that obeys timer actions must not be driven into an
        // endless burst of zero-duration timers
        if at == self.storm_at {
            self.storm_count += 1;
        } else {
            self.storm_at = at;
            self.storm_count = 0;
        }
        if self.storm_count > 20_000 || self.events > self.max_events {
            if !self.storm_reported {
                self.storm_reported = true;
                let call = self.last_call.as_ref().map(|c| c.2).unwrap_or("?");
                if self.storm_count > 20_000 {
                    self.out.violate(
                        "C12",
                        "C12.timer_storm",
                        format!("last_call={call}"),
                        format!("more than 20000 events at one simulated instant t={:.6}s (last host call {call}): the port keeps re-arming a zero-duration timer", tt_to_secs(at)),
                    );
                } else {
                    self.out.probe("run_stopped_at_event_cap");
                }
            }
            self.queue.clear();
            return None;
        }
        let Reverse(e) = self.queue.pop().unwrap();
        if e.at > self.now() {
            self.time.now.set(e.at);
        }
        Some(match e.ev {
            Ev::Timer { node, port, which, gen, epoch } => {
                if self.nodes[node].epoch != epoch || self.nodes[node].ports[port].timers[which].gen != gen {
                    return Some(Stepped::Stale);
                }
                self.nodes[node].ports[port].timers[which].deadline = None;
                self.nodes[node].ports[port].timers[which].fired_count += 1;
                self.log_ev(1, (node * 16 + port) as u64, which as u64);
                self.host_call(node, port, HostCall::Timer(which), ch);
                Stepped::Host
            }
            Ev::Rx { node, port, event, frame, epoch, from_seq } => {
                if self.nodes[node].epoch != epoch {
                    return Some(Stepped::Stale);
                }
                if self.nodes[node].silenced {
                    self.out.fault("node_silenced_rx_dropped");
                    return Some(Stepped::Stale);
                }
                self.log_ev(2, (node * 16 + port) as u64, from_seq);
                self.nodes[node].ports[port].rx_count += 1;
                let state_before = self.nodes[node].ports[port].state();
                let summary = if event {
                    let stamp = self.nodes[node].ports[port].stamp_clock.borrow().stamp_at(self.now());
                    self.host_call(node, port, HostCall::RxEvent(frame.clone(), stamp), ch)
                } else {
                    self.host_call(node, port, HostCall::RxGeneral(frame.clone()), ch)
                };
                if !self.mimics.is_empty() && frame.len() >= 34 && frame[0] & 0x0f == 0 {
                    self.fire_mimics(node, port, &frame, false);
                }
                if self.keep_rx {
                    self.rx_log.push(RxRec { seq: self.seq(), at: self.now(), node, port, event, bytes: frame, state_before, summary });
                }
                Stepped::Host
            }
            Ev::TxTs { node, port, ctx, stamp, epoch } => {
                if self.nodes[node].epoch != epoch {
                    return Some(Stepped::Stale);
                }
                self.log_ev(3, (node * 16 + port) as u64, ctx);
                self.host_call(node, port, HostCall::TxTimestamp(ctx, stamp), ch);
                Stepped::Host
            }
            Ev::Bmca { node, epoch } => {
                if self.nodes[node].epoch != epoch {
                    return Some(Stepped::Stale);
                }
                self.log_ev(4, node as u64, 0);
                self.run_bmca(node, ch);
                let next = self.now() + self.bmca_interval(node);
                self.schedule(next, Ev::Bmca { node, epoch }, Some(ch));
                Stepped::Host
            }
            Ev::Script { tag, a, b } => {
                self.log_ev(5, tag, a);
                Stepped::Script { tag, a, b }
            }
            Ev::ScriptRx { endpoint, event, frame, tx_stamp, from_seq } => {
                self.log_ev(6, endpoint as u64, from_seq);
                Stepped::ScriptRx { endpoint, event, frame, tx_stamp, from_seq }
            }
        })
    }

    /// Run until `until` handling only host events; script events are dropped.
    pub fn run_until(&mut self, ch: &mut Chooser, until: Tt) {
        while let Some(_s) = self.step(ch, until) {}
        if self.now() < until {
            self.time.now.set(until);
        }
    }

    // -------------------------------------------------------------- host calls

    fn collect(actions: statime::port::PortActionIterator<'_>) -> Vec<OwnedAction> {
        let mut v = Vec::new();
        for a in actions {
            v.push(match a {
                PortAction::SendEvent { context, data, link_local } => OwnedAction::SendEvent { ctx: context, data: data.to_vec(), link_local },
                PortAction::SendGeneral { data, link_local } => OwnedAction::SendGeneral { data: data.to_vec(), link_local },
                PortAction::ResetAnnounceTimer { duration } => OwnedAction::Timer { which: T_ANNOUNCE, dur: duration },
                PortAction::ResetSyncTimer { duration } => OwnedAction::Timer { which: T_SYNC, dur: duration },
                PortAction::ResetDelayRequestTimer { duration } => OwnedAction::Timer { which: T_DELAY, dur: duration },
                PortAction::ResetAnnounceReceiptTimer { duration } => OwnedAction::Timer { which: T_RECEIPT, dur: duration },
                PortAction::ResetFilterUpdateTimer { duration } => OwnedAction::Timer { which: T_FILTER, dur: duration },
                PortAction::ForwardTLV { tlv } => OwnedAction::ForwardTlv(tlv.into_owned()),
            });
        }
        v
    }

    /// Perform one call on a running port and execute the returned actions the
    /// way the daemon's `handle_actions` does.
    pub fn host_call(&mut self, ni: usize, pi: usize, call: HostCall, ch: &mut Chooser) -> CallSummary {
        let name = call.name();
        self.current_call = name;
        let before: Vec<PState> = if self.monitors { self.nodes[ni].states() } else { Vec::new() };
        let actions = {
            let hp = &mut self.nodes[ni].ports[pi];
            let Slot::Running(port) = &mut hp.slot else {
                return CallSummary::default();
            };
            match &call {
                HostCall::Timer(T_ANNOUNCE) => match &mut hp.fwd {
                    TlvSource::Real(f) => Self::collect(port.handle_announce_timer(f)),
                    TlvSource::None => Self::collect(port.handle_announce_timer(&mut NoTlvs)),
                },
                HostCall::Timer(T_SYNC) => Self::collect(port.handle_sync_timer()),
                HostCall::Timer(T_DELAY) => Self::collect(port.handle_delay_request_timer()),
                HostCall::Timer(T_RECEIPT) => Self::collect(port.handle_announce_receipt_timer()),
                HostCall::Timer(_) => Self::collect(port.handle_filter_update_timer()),
                HostCall::RxEvent(f, stamp) => Self::collect(port.handle_event_receive(f, units_to_time(*stamp))),
                HostCall::RxGeneral(f) => Self::collect(port.handle_general_receive(f)),
                HostCall::TxTimestamp(ctx, stamp) => {
                    match hp.pending_ctx.iter().position(|(id, _)| id == ctx) {
                        Some(i) => {
                            let (_, c) = hp.pending_ctx.swap_remove(i);
                            Self::collect(port.handle_send_timestamp(c, units_to_time(*stamp)))
                        }
                        None => Vec::new(),
                    }
                }
            }
        };
        let summary = self.execute_actions(ni, pi, actions, name, ch);
        if self.monitors {
            self.monitor_after(ni, &before, name);
        }
        if self.timer_cover {
            self.monitor_timers(ni, name);
        }
        self.last_call = Some((ni, pi, name, summary.clone()));
        summary
    }

    pub fn arm_timer(&mut self, ni: usize, pi: usize, which: usize, dur_units: Tt, ch: &mut Chooser) {
        let epoch = self.nodes[ni].epoch;
        let skew = self.nodes[ni].spec.timer_skew_ppt as i128;
        let mut d = dur_units as i128;
        d += d * skew / 1_000_000_000_000i128;
        let mut d = d.max(0) as u128;
        if self.faults_on && self.hostf.timer_late_ppm > 0 && ch.chance(S_HOST, self.hostf.timer_late_ppm, 1_000_000) {
            d += ch.range(S_HOST, 1, (self.hostf.timer_late_max / US).max(1) as u64) as u128 * US;
            self.out.fault("timer_fired_late");
        }
        let at = self.now() + d;
        let t = &mut self.nodes[ni].ports[pi].timers[which];
        t.gen += 1;
        t.deadline = Some(at);
        t.armed_count += 1;
        let gen = t.gen;
        self.schedule(at, Ev::Timer { node: ni, port: pi, which, gen, epoch }, Some(ch));
    }

    fn execute_actions(&mut self, ni: usize, pi: usize, actions: Vec<OwnedAction>, cause: &'static str, ch: &mut Chooser) -> CallSummary {
        let mut sum = CallSummary::default();
        let mut pending: Option<(u64, u128)> = None;
        for a in actions {
            sum.n_actions += 1;
            match a {
                OwnedAction::SendEvent { ctx, data, link_local } => {
                    sum.event_sends += 1;
                    let stamp = self.nodes[ni].ports[pi].stamp_clock.borrow().stamp_at(self.now());
                    let id = self.next_ctx;
                    self.next_ctx += 1;
                    self.nodes[ni].ports[pi].pending_ctx.push((id, ctx));
                    self.transmit(ni, pi, true, link_local, data, Some(stamp), cause, ch);
                    pending = Some((id, stamp));
                }
                OwnedAction::SendGeneral { data, link_local } => {
                    sum.general_sends += 1;
                    self.transmit(ni, pi, false, link_local, data, None, cause, ch);
                }
                OwnedAction::Timer { which, dur } => {
                    sum.timers[which] = true;
                    self.digest.u64(dur.as_nanos() as u64);
                    self.arm_timer(ni, pi, which, core_to_units(dur), ch);
                }
                OwnedAction::ForwardTlv(tlv) => {
                    sum.tlvs_forwarded += 1;
                    // the daemon forwards into the shared broadcast channel
                    let node = &self.nodes[ni];
                    if let Some(TlvSource::Real(f)) = node.ports.iter().map(|p| &p.fwd).find(|f| matches!(f, TlvSource::Real(_))) {
                        f.forward(tlv);
                    }
                }
            }
        }
        if sum.event_sends > 1 {
            self.out.violate(
                "C10",
                "C10.more_than_one_event_send",
                format!("call={cause}"),
                format!("action set of {cause} on node {ni} port {pi} holds {} SendEvent actions", sum.event_sends),
            );
        }
        if self.manual_tx_ts {
            pending = None;
        }
        if let Some((id, stamp)) = pending {
            let epoch = self.nodes[ni].epoch;
            if self.faults_on && self.hostf.tx_ts_lost_ppm > 0 && ch.chance(S_HOST, self.hostf.tx_ts_lost_ppm, 1_000_000) {
                self.out.fault("tx_timestamp_lost");
                // context dropped, as the daemon does on a missing timestamp
                let hp = &mut self.nodes[ni].ports[pi];
                hp.pending_ctx.retain(|(i, _)| *i != id);
            } else if self.faults_on && self.hostf.tx_ts_late_ppm > 0 && ch.chance(S_HOST, self.hostf.tx_ts_late_ppm, 1_000_000) {
                self.out.fault("tx_timestamp_late");
                let d = ch.range(S_HOST, 1, (self.hostf.tx_ts_late_max / US).max(1) as u64) as u128 * US;
                self.schedule(self.now() + d, Ev::TxTs { node: ni, port: pi, ctx: id, stamp, epoch }, Some(ch));
            } else if self.hostf.tx_ts_latency > 0 {
                self.out.probe("tx_timestamp_delivered_after_constant_latency");
                let d = self.hostf.tx_ts_latency;
                self.schedule(self.now() + d, Ev::TxTs { node: ni, port: pi, ctx: id, stamp, epoch }, Some(ch));
            } else {
                // "send, then immediately report the TX timestamp"
                self.log_ev(3, (ni * 16 + pi) as u64, id);
                let s2 = self.host_call(ni, pi, HostCall::TxTimestamp(id, stamp), ch);
                sum.general_sends += s2.general_sends;
            }
        }
        sum
    }

    fn fire_mimics(&mut self, ni: usize, pi: usize, trigger: &[u8], sent: bool) {
        let Ok(tf) = Frame::decode(trigger) else { return };
        let pd = self.nodes[ni].inst.parent_ds();
        let parent = Pid::new(pd.parent_port_identity.clock_identity.0, pd.parent_port_identity.port_number);
        let own = self.nodes[ni].ports[pi].pid;
        for k in 0..self.mimics.len() {
            let m = self.mimics[k].clone();
            if m.fired || m.port != pi || (m.kind >= 2) != sent {
                continue;
            }
            if m.countdown > 0 {
                self.mimics[k].countdown -= 1;
                continue;
            }
            self.mimics[k].fired = true;
            let cands = [Pid::new([0x77; 8], 3), Pid::new(parent.clock, parent.port.wrapping_add(1)), Pid::new(tf.hdr.source.clock, tf.hdr.source.port.wrapping_add(7)), Pid::new([0xee; 8], 1)];
            let mut src = cands[m.src_variant as usize % cands.len()];
            if src == parent {
                src = cands[0];
            }
            let ts = wire::Ts { secs: 1_700_000_000, nanos: 77 };
            let (event, mut f) = match m.kind {
                0 => (false, Frame::new(MsgType::FollowUp, src, tf.hdr.seq, wire::Body::FollowUp { precise_origin: ts })),
                1 => {
                    let mut f = Frame::new(MsgType::Sync, src, tf.hdr.seq, wire::Body::Sync { origin: ts });
                    f.hdr.flags = tf.hdr.flags;
                    (true, f)
                }
                2 => (false, Frame::new(MsgType::DelayResp, src, tf.hdr.seq, wire::Body::DelayResp { receive: ts, requesting: own })),
                _ => (false, Frame::new(MsgType::DelayResp, parent, tf.hdr.seq, wire::Body::DelayResp { receive: ts, requesting: Pid::new(own.clock, own.port.wrapping_add(40)) })),
            };
            f.hdr.domain = tf.hdr.domain;
            f.hdr.sdo_id = tf.hdr.sdo_id;
            self.out.fault(["noise.mimic_follow_up_from_non_parent", "noise.mimic_sync_from_non_parent", "noise.mimic_delay_resp_from_non_parent", "noise.mimic_delay_resp_for_other_requester"][m.kind.min(3) as usize]);
            self.inject(ni, pi, event, f.encode(), 1, None);
        }
    }

    fn transmit(&mut self, ni: usize, pi: usize, event: bool, link_local: bool, data: Vec<u8>, stamp: Option<u128>, cause: &'static str, ch: &mut Chooser) {
        let seq = self.seq();
        let state = self.nodes[ni].ports[pi].state();
        let bytes = Rc::new(data);
        self.digest.bytes(&bytes);
        self.nodes[ni].ports[pi].tx_count += 1;
        if self.keep_emitted {
            self.emitted.push(Emitted { seq, at: self.now(), node: ni, port: pi, event, link_local, bytes: bytes.clone(), state, tx_stamp: stamp, cause });
        }
        if self.monitors {
            self.monitor_emission(ni, pi, &bytes, state, event, cause);
        }
        if !self.mimics.is_empty() && bytes.len() >= 34 && bytes[0] & 0x0f == 1 {
            self.fire_mimics(ni, pi, &bytes, true);
        }
        if self.nodes[ni].silenced {
            self.out.fault("node_silenced_tx_dropped");
            return;
        }
        let Some(seg) = self.nodes[ni].ports[pi].segment else { return };
        if self.segments[seg].cut {
            self.out.fault("segment_cut_frame_lost");
            return;
        }
        let members = self.segments[seg].members.clone();
        let (base, jitter) = (self.segments[seg].base_delay, self.segments[seg].jitter);
        for m in members {
            if let Endpoint::Host { node, port } = m {
                if node == ni && port == pi {
                    continue;
                }
            }
            let mut delay = base;
            if jitter > 0 {
                delay += ch.range(S_NET, 0, (jitter / NS) as u64) as u128 * NS;
            }
            let mut copies = 1;
            let mut frame = bytes.clone();
            if self.faults_on {
                let nf = self.net.clone();
                if nf.drop_ppm > 0 && ch.chance(S_NET, nf.drop_ppm, 1_000_000) {
                    self.out.fault("net_drop");
                    continue;
                }
                if nf.dup_ppm > 0 && ch.chance(S_NET, nf.dup_ppm, 1_000_000) {
                    self.out.fault("net_duplicate");
                    copies = 2;
                }
                if nf.reorder_ppm > 0 && ch.chance(S_NET, nf.reorder_ppm, 1_000_000) {
                    self.out.fault("net_extra_delay");
                    delay += ch.range(S_NET, 1, (nf.reorder_extra / US).max(1) as u64) as u128 * US;
                }
                if nf.corrupt_ppm > 0 && ch.chance(S_NET, nf.corrupt_ppm, 1_000_000) {
                    self.out.fault("net_corrupt");
                    frame = Rc::new(corrupt(&bytes, ch));
                    self.corrupted += 1;
                }
            }
            for c in 0..copies {
                let at = self.now() + delay + (c as u128) * delay.max(US);
                match m {
                    Endpoint::Host { node, port } => {
                        let epoch = self.nodes[node].epoch;
                        self.schedule(at, Ev::Rx { node, port, event, frame: frame.clone(), epoch, from_seq: seq }, Some(ch));
                    }
                    Endpoint::Script { id } => {
                        self.schedule(at, Ev::ScriptRx { endpoint: id, event, frame: frame.clone(), tx_stamp: stamp, from_seq: seq }, Some(ch));
                    }
                }
            }
        }
    }

    /// Inject a frame from a scripted endpoint into one host port after `delay`.
    pub fn inject(&mut self, ni: usize, pi: usize, event: bool, bytes: Vec<u8>, delay: Tt, ch: Option<&mut Chooser>) {
        let epoch = self.nodes[ni].epoch;
        let seq = self.seq();
        self.schedule(self.now() + delay, Ev::Rx { node: ni, port: pi, event, frame: Rc::new(bytes), epoch, from_seq: seq }, ch);
    }

    /// A scripted endpoint sends on a segment: delivered to every host member
    /// with the segment's delay/jitter and the world's network faults.
    pub fn script_send(&mut self, seg: usize, from_endpoint: usize, event: bool, bytes: Vec<u8>, ch: &mut Chooser) {
        if self.segments[seg].cut {
            return;
        }
        let members = self.segments[seg].members.clone();
        let (base, jitter) = (self.segments[seg].base_delay, self.segments[seg].jitter);
        let frame = Rc::new(bytes);
        let seq = self.seq();
        for m in members {
            match m {
                Endpoint::Script { id } if id == from_endpoint => continue,
                Endpoint::Script { id } => {
                    let at = self.now() + base;
                    self.schedule(at, Ev::ScriptRx { endpoint: id, event, frame: frame.clone(), tx_stamp: None, from_seq: seq }, Some(ch));
                }
                Endpoint::Host { node, port } => {
                    let mut delay = base;
                    if jitter > 0 {
                        delay += ch.range(S_NET, 0, (jitter / NS) as u64) as u128 * NS;
                    }
                    if self.faults_on {
                        let nf = self.net.clone();
                        if nf.drop_ppm > 0 && ch.chance(S_NET, nf.drop_ppm, 1_000_000) {
                            self.out.fault("net_drop");
                            continue;
                        }
                        if nf.reorder_ppm > 0 && ch.chance(S_NET, nf.reorder_ppm, 1_000_000) {
                            self.out.fault("net_extra_delay");
                            delay += ch.range(S_NET, 1, (nf.reorder_extra / US).max(1) as u64) as u128 * US;
                        }
                        if nf.dup_ppm > 0 && ch.chance(S_NET, nf.dup_ppm, 1_000_000) {
                            self.out.fault("net_duplicate");
                            let epoch = self.nodes[node].epoch;
                            self.schedule(self.now() + 2 * delay, Ev::Rx { node, port, event, frame: frame.clone(), epoch, from_seq: seq }, Some(ch));
                        }
                    }
                    let epoch = self.nodes[node].epoch;
                    self.schedule(self.now() + delay, Ev::Rx { node, port, event, frame: frame.clone(), epoch, from_seq: seq }, Some(ch));
                }
            }
        }
    }

    // -------------------------------------------------------------- BMCA

    fn end_bmca_port(&mut self, ni: usize, pi: usize, ch: &mut Chooser) {
        let hp = &mut self.nodes[ni].ports[pi];
        let slot = std::mem::replace(&mut hp.slot, Slot::Empty);
        if let Slot::InBmca(p) = slot {
            let (running, actions) = (*p).end_bmca();
            let owned = Self::collect(actions);
            hp.slot = Slot::Running(Box::new(running));
            self.execute_actions(ni, pi, owned, "end_bmca", ch);
        } else {
            hp.slot = slot;
        }
    }

    /// Stop-the-world BMCA of one node, as `run()` in the daemon does.
    pub fn run_bmca(&mut self, ni: usize, ch: &mut Chooser) {
        let before: Vec<PState> = self.nodes[ni].states();
        self.current_call = "PtpInstance::bmca";
        let node = &mut self.nodes[ni];
        node.bmca_count += 1;
        let mut in_bmca: Vec<Box<SPort<InBmca>>> = Vec::new();
        let mut live_cells: Vec<Option<Rc<Cell<Option<i128>>>>> = Vec::new();
        for hp in node.ports.iter_mut() {
            match std::mem::replace(&mut hp.slot, Slot::Empty) {
                Slot::Running(p) => in_bmca.push(Box::new((*p).start_bmca())),
                Slot::InBmca(p) => in_bmca.push(p),
                Slot::Empty => continue,
            }
            live_cells.push(hp.live_mean_delay.clone());
        }
        {
            let mut refs: Vec<&mut SPort<InBmca>> = in_bmca.iter_mut().map(|b| &mut **b).collect();
            node.inst.bmca(&mut refs);
        }
        let snap = if self.keep_snapshots {
            Some(SnapshotParts {
                node: ni,
                at: self.time.now.get(),
                default_ds: node.inst.default_ds(),
                current_ds: node.inst.current_ds(in_bmca.iter().filter_map(|v| v.port_current_ds_contribution()).next()),
                parent_ds: node.inst.parent_ds(),
                time_properties_ds: node.inst.time_properties_ds(),
                path_trace_ds: node.inst.path_trace_ds(),
                port_ds: in_bmca.iter().map(|v| v.port_ds()).collect(),
                live_mean_delay: live_cells.iter().map(|c| c.as_ref().and_then(|c| c.get())).collect(),
            })
        } else {
            None
        };
        for (hp, p) in node.ports.iter_mut().zip(in_bmca.into_iter()) {
            hp.slot = Slot::InBmca(p);
        }
        if let Some(s) = snap {
            self.snapshots.push(s);
        }
        let n = node.ports.len();
        if self.monitors {
            self.monitor_after(ni, &before, "bmca");
            self.monitor_bmca(ni);
        }
        for pi in 0..n {
            self.end_bmca_port(ni, pi, ch);
        }
        if self.timer_cover {
            self.monitor_timers(ni, "bmca");
        }
        self.record_state(ni);
    }

    pub fn record_state(&mut self, ni: usize) {
        let node = &self.nodes[ni];
        let mut f = Fnv::new();
        for p in &node.ports {
            f.byte(p.state().code());
            for t in 0..5 {
                f.byte(p.armed(t) as u8);
            }
        }
        let pd = node.inst.parent_ds();
        f.bytes(&pd.grandmaster_identity.0);
        f.bytes(&pd.parent_port_identity.clock_identity.0);
        f.u64(pd.parent_port_identity.port_number as u64);
        f.u64(node.inst.current_ds(None).steps_removed as u64);
        f.byte(node.inst.default_ds().slave_only as u8);
        self.states.insert(f.finish());
    }

    // -------------------------------------------------------------- monitors

    fn monitor_emission(&mut self, ni: usize, pi: usize, bytes: &[u8], state: PState, event: bool, cause: &'static str) {
        let Ok(f) = Frame::decode(bytes) else {
            self.out.violate(
                "C10",
                "C10.emitted_frame_undecodable_by_reference",
                format!("call={cause}"),
                format!("node {ni} port {pi} emitted a frame the reference codec cannot decode ({} bytes)", bytes.len()),
            );
            return;
        };
        let t = f.hdr.msg_type;
        if t.is_event() != event {
            self.out.violate("C10", "C10.wrong_channel", format!("type={}", t.name()), format!("{} sent on the wrong channel", t.name()));
        }
        // C10: the sequence id of each originating message type advances by exactly one per emission,
        // whatever happened to the port (role changes, faults, idle timers) in between
        let slot = match t {
            MsgType::Announce => Some(0),
            MsgType::Sync => Some(1),
            MsgType::DelayReq => Some(2),
            MsgType::PdelayReq => Some(3),
            _ => None,
        };
        if let Some(k) = slot {
            if let Some(prev) = self.nodes[ni].ports[pi].last_seq[k] {
                if f.hdr.seq != prev.wrapping_add(1) {
                    self.out.violate(
                        "C10",
                        "C10.sequence_id_not_previous_plus_one",
                        format!("type={}", t.name()),
                        format!("node {ni} port {pi} emitted {} with sequenceId {} after {} (call {cause}, state {:?})", t.name(), f.hdr.seq, prev, state),
                    );
                }
            }
            self.nodes[ni].ports[pi].last_seq[k] = Some(f.hdr.seq);
        }
        let master_only_types = matches!(t, MsgType::Announce | MsgType::Sync | MsgType::FollowUp | MsgType::DelayResp);
        if master_only_types && state != PState::Master {
            self.out.violate(
                "C08",
                "C08.master_message_from_non_master",
                format!("type={} state={:?} call={}", t.name(), state, cause),
                format!("node {ni} port {pi} emitted {} while in state {:?} (call {cause}) at seq {}", t.name(), state, self.seq()),
            );
        }
        if t == MsgType::DelayReq && state != PState::Slave {
            self.out.violate(
                "C08",
                "C08.delay_req_from_non_slave",
                format!("state={:?} call={}", state, cause),
                format!("node {ni} port {pi} emitted Delay_Req while in state {:?}", state),
            );
        }
        if state == PState::Faulty && master_only_types {
            self.out.violate(
                "C14",
                "C14.faulty_port_acts_as_master",
                format!("type={}", t.name()),
                format!("node {ni} port {pi} emitted {} while Faulty", t.name()),
            );
        }
    }

    fn monitor_after(&mut self, ni: usize, before: &[PState], call: &'static str) {
        let after = self.nodes[ni].states();
        for (i, (b, a)) in before.iter().zip(after.iter()).enumerate() {
            if b != a {
                self.transitions += 1;
                self.shape.byte(0x40 | a.code());
                self.digest.byte(0x40 | a.code());
                self.digest.u64(i as u64);
                let k = format!("transition.{:?}->{:?}", b, a);
                self.out.probe(&k);
            }
        }
        // C08 (1): at most one steering port
        let steering = self.nodes[ni].steering_ports();
        if steering > 1 {
            self.out.violate(
                "C08",
                "C08.more_than_one_steering_port",
                format!("call={call}"),
                format!("node {ni} has {steering} ports in the slave state after {call}; states {:?}", after),
            );
        }
        // C08 (3)(4)
        let slave_only_cfg = self.nodes[ni].spec.slave_only;
        for (i, hp) in self.nodes[ni].ports.iter().enumerate() {
            if hp.spec.master_only && after[i] == PState::Slave {
                self.out.violate("C08", "C08.master_only_port_is_slave", format!("call={call}"), format!("node {ni} port {i} is master-only but Slave after {call}"));
            }
            if slave_only_cfg && after[i] == PState::Master {
                self.out.violate(
                    "C08",
                    "C08.slave_only_instance_has_master_port",
                    format!("call={call}"),
                    format!("node {ni} (slave-only from construction) has port {i} in Master after {call}"),
                );
            }
        }
        // clock commands issued during this call
        let (new_cmds, tags): (Vec<ClockLogEntry>, Vec<u32>) = {
            let m = self.nodes[ni].clock.borrow();
            let seen = self.clock_log_seen[ni];
            (m.log[seen..].to_vec(), self.nodes[ni].ports.iter().map(|p| p.tag).collect())
        };
        self.clock_log_seen[ni] += new_cmds.len();
        let mut per_port_cmds = vec![0u32; tags.len()];
        let kalman_ports: Vec<bool> = self.nodes[ni].ports.iter().map(|p| matches!(p.spec.filter, FilterKind::Kalman)).collect();
        for c in &new_cmds {
            let Some(pi) = tags.iter().position(|t| *t == c.by) else { continue };
            match &c.cmd {
                ClockCmd::SetProperties => continue,
                ClockCmd::SetFrequency { ppm, .. } => {
                    self.out.probe("clock.set_frequency");
                    if !ppm.is_finite() {
                        self.out.violate("C13", "C13.non_finite_frequency", format!("call={call} kalman={}", kalman_ports[pi]), format!("set_frequency({ppm}) issued by node {ni} port {pi} in {call}"));
                    } else if kalman_ports[pi] && ppm.abs() > self.max_freq_ppm * (1.0 + 1e-9) {
                        self.out.violate("C13", "C13.frequency_out_of_bounds", format!("call={call}"), format!("set_frequency({ppm}) exceeds max_freq_offset {} (node {ni} port {pi}, {call})", self.max_freq_ppm));
                    }
                }
                ClockCmd::Step { offset_units, .. } => {
                    self.out.probe("clock.step");
                    if kalman_ports[pi] && offset_units.abs() < self.step_threshold_units {
                        self.out.violate("C13", "C13.step_below_threshold", format!("call={call}"), format!("step_clock of {} units (< threshold) by node {ni} port {pi} in {call}", offset_units));
                    }
                }
            }
            per_port_cmds[pi] += 1;
            let was = before.get(pi).copied() == Some(PState::Slave);
            let is = after.get(pi).copied() == Some(PState::Slave);
            if !was && !is {
                self.out.violate(
                    "C08",
                    "C08.clock_command_from_non_slave_port",
                    format!("call={call} state={:?}", after[pi]),
                    format!("node {ni} port {pi} issued {:?} during {call} while {:?} -> {:?}", c.cmd, before[pi], after[pi]),
                );
                self.out.violate(
                    "C13",
                    "C13.clock_command_after_leaving_slave",
                    format!("call={call} state={:?}", after[pi]),
                    format!("node {ni} port {pi} issued {:?} during {call} although it is not slave ({:?} -> {:?}): a servo keeps commanding the clock after its port stopped being slave", c.cmd, before[pi], after[pi]),
                );
                if after[pi] == PState::Faulty || before[pi] == PState::Faulty {
                    self.out.violate("C14", "C14.faulty_port_steers_clock", format!("call={call}"), format!("node {ni} port {pi} issued {:?} while Faulty", c.cmd));
                }
            }
        }
        for (pi, n) in per_port_cmds.iter().enumerate() {
            let was = before.get(pi).copied() == Some(PState::Slave);
            let is = after.get(pi).copied() == Some(PState::Slave);
            if was && !is {
                if *n > 1 {
                    self.out.violate("C13", "C13.more_than_one_command_after_leaving_slave", format!("call={call}"), format!("node {ni} port {pi} issued {n} clock commands in the call that ended its slave state ({call})"));
                }
                if *n == 1 {
                    self.out.probe("clock.final_command_on_leaving_slave");
                }
            }
        }
        // C17 part 1
        if lock_nested() > 0 {
            self.out.violate("C17", "C17.nested_lock_acquisition", format!("call={call}"), format!("instance-state lock acquired while already held during {call} on node {ni} (nested count {})", lock_nested()));
        }
    }

    /// C12 structural companion: the armed timers must cover what the state waits for.
    pub fn monitor_timers(&mut self, ni: usize, call: &'static str) {
        for pi in 0..self.nodes[ni].ports.len() {
            let hp = &self.nodes[ni].ports[pi];
            if !matches!(hp.slot, Slot::Running(_)) {
                continue;
            }
            let st = hp.state();
            let mut need: Vec<usize> = Vec::new();
            // Only states whose *only* way forward is the timer: a Listening port without a
            // qualified master is left alone by the BMCA, a Master port emits only from its timers,
            // a Slave port requests delay only from its timer. Passive and Slave ports also leave
            // their state through the BMCA once the foreign-master records age out, so a missing
            // receipt timer there is not a stuck state.
            match st {
                PState::Listening => need.push(T_RECEIPT),
                PState::Slave => need.push(T_DELAY),
                PState::Master => {
                    need.push(T_ANNOUNCE);
                    need.push(T_SYNC);
                }
                _ => {}
            }
            for t in need {
                if !hp.armed(t) {
                    let p2p = hp.spec.p2p;
                    self.out.violate(
                        "C12",
                        "C12.state_waits_on_unarmed_timer",
                        format!("state={:?} timer={} p2p={}", st, TIMER_NAMES[t], p2p),
                        format!("node {ni} port {pi} is {:?} after {call} but its {} timer is not armed (seq {}, t={:.3}s)", st, TIMER_NAMES[t], self.seq(), tt_to_secs(self.now())),
                    );
                }
            }
        }
    }

    fn monitor_bmca(&mut self, ni: usize) {
        // C08 (5): after slave-only switched on at run time: no Master once bmca returned
        let so = self.nodes[ni].inst.default_ds().slave_only;
        if so {
            for (i, hp) in self.nodes[ni].ports.iter().enumerate() {
                if hp.state() == PState::Master {
                    self.out.violate("C08", "C08.master_port_after_bmca_with_slave_only", String::new(), format!("node {ni} port {i} still Master after a BMCA run with slave_only set"));
                }
            }
        }
    }

    /// Finish the run: harvest probes from the logger and lock statistics.
    pub fn finish(mut self) -> RunOutcome {
        for (k, v) in log_counts_take() {
            self.out.probe_n(k, v);
        }
        self.out.probe_n("lock.acquisitions", lock_acquisitions());
        self.out.events = self.events;
        self.out.sim_seconds = tt_to_secs(self.now());
        self.out.digest = self.digest.finish();
        self.out.shape = self.shape.finish();
        self.out.states = self.states.iter().copied().collect();
        std::mem::take(&mut self.out)
    }
}

/// Mutate a frame: bit flip, truncate, pad, rewrite messageLength.
pub fn corrupt(bytes: &[u8], ch: &mut Chooser) -> Vec<u8> {
    let mut v = bytes.to_vec();
    match ch.choose(S_NET, 4) {
        0 => {
            if !v.is_empty() {
                let i = ch.choose(S_NET, v.len() as u64) as usize;
                v[i] ^= 1 << ch.choose(S_NET, 8);
            }
        }
        1 => {
            let n = ch.choose(S_NET, v.len() as u64 + 1) as usize;
            v.truncate(n);
        }
        2 => {
            let n = ch.range(S_NET, 1, 64) as usize;
            v.extend(std::iter::repeat(0).take(n));
        }
        _ => {
            if v.len() >= 4 {
                let l = ch.choose(S_NET, 2100) as u16;
                v[2..4].copy_from_slice(&l.to_be_bytes());
            }
        }
    }
    v
}

pub fn pid_of(p: &statime::observability::port::PortDS) -> Pid {
    Pid::new(p.port_identity.clock_identity.0, p.port_identity.port_number)
}

pub fn pid_from_json(v: &serde_json::Value) -> Pid {
    let mut clock = [0u8; 8];
    if let Some(arr) = v["clock_identity"].as_array() {
        for (i, b) in arr.iter().enumerate().take(8) {
            clock[i] = b.as_u64().unwrap_or(0) as u8;
        }
    }
    Pid { clock, port: v["port_number"].as_u64().unwrap_or(0) as u16 }
}

pub fn wire_announce_of(bytes: &[u8]) -> Option<(wire::Hdr, wire::AnnounceBody, Vec<wire::Tlv>)> {
    let f = Frame::decode(bytes).ok()?;
    let a = *f.announce()?;
    Some((f.hdr, a, f.tlvs))
}
