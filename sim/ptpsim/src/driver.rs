//! Random-history driver: one real instance with 1-3 ports, each port on its
//! own segment with scripted masters / peer-delay responders, driven through a
//! generated history over the host-call alphabet (C08, C12 phase 1, C07 world A).

use crate::clock::*;
use crate::host::*;
use crate::script::*;
use crate::wire::*;
use serde_json::json;
use vcommon::tape::*;
use vcommon::Chooser;

#[derive(Clone, Debug)]
pub struct DriverCfg {
    /// fire timers that are not armed / in any order (C08 alphabet); false = faithful host (C12)
    pub wild_timers: bool,
    pub runtime_changes: bool,
    pub depth: u64,
    pub host_faults: bool,
    pub recording_filter: bool,
    pub max_ports: u64,
    /// ports of the instance may share a segment (redundant attachment) and use announce intervals
    /// that differ from port to port
    pub shared_segments: bool,
}

pub struct Driver {
    pub w: World,
    pub masters: Vec<RefMaster>,
    pub cfg: DriverCfg,
    pub ops: Vec<String>,
    pub i_units: Tt,
    pub node_desc: serde_json::Value,
}

pub const BETTER_ID: [u8; 8] = [0x02, 0, 0, 0, 0, 0, 0, 0xa0];
pub const WORSE_ID: [u8; 8] = [0xf0, 0, 0, 0, 0, 0, 0, 0xb0];
pub const PEER_ID: [u8; 8] = [0x80, 0, 0, 0, 0, 0, 0, 0xc0];
pub const OWN_ID: [u8; 8] = [0x40, 0, 0, 0, 0, 0, 0, 0x01];

impl Driver {
    pub fn new(ch: &mut Chooser, cfg: DriverCfg) -> Self {
        let mut w = World::new();
        w.hostf.random_ties = ch.boolean(S_CFG);
        if cfg.host_faults {
            w.hostf.tx_ts_late_ppm = 100_000;
            w.hostf.tx_ts_late_max = 50 * MS;
            w.hostf.tx_ts_lost_ppm = 60_000;
        }
        let nports = ch.range(S_CFG, 1, cfg.max_ports) as usize;
        let announce_log = *ch.pick(S_CFG, &[0i8, -1, -2, 1]);
        let i_units = HostPort::interval_units(announce_log);
        let mut spec = NodeSpec::default();
        spec.id = OWN_ID;
        spec.priority1 = *ch.pick(S_CFG, &[128u8, 100, 250]);
        spec.class = *ch.pick(S_CFG, &[248u8, 248, 127, 6, 187]);
        spec.slave_only = ch.chance(S_CFG, 1, 5);
        spec.path_trace = ch.chance(S_CFG, 1, 4);
        spec.bmca_phase_pm = ch.range(S_CFG, 1, 999);
        spec.ports.clear();
        let mut masters = Vec::new();
        let mut prev_seg: Option<usize> = None;
        for p in 0..nports {
            let share = cfg.shared_segments && p > 0 && ch.chance(S_CFG, 1, 4);
            let seg = match (share, prev_seg) {
                (true, Some(sg)) => sg,
                _ => w.add_segment(ch.range(S_CFG, 1, 400) as u128 * US, ch.range(S_CFG, 0, 20) as u128 * US),
            };
            prev_seg = Some(seg);
            let mut ps = PortSpec::default();
            // (ports on one segment agree on the announce interval, as every node on a segment must)
            ps.announce_log = match (cfg.shared_segments, share, spec.ports.last()) {
                (true, true, Some(prev)) => prev.announce_log,
                (true, _, _) => announce_log + *ch.pick(S_CFG, &[0i8, 0, 0, 1, 2]),
                _ => announce_log,
            };
            ps.sync_log = *ch.pick(S_CFG, &[announce_log, announce_log - 1, announce_log - 2, announce_log + 1]);
            ps.delay_log = *ch.pick(S_CFG, &[announce_log, announce_log - 1, announce_log + 1]);
            ps.receipt_timeout = ch.range(S_CFG, 2, 5) as u8;
            ps.p2p = ch.chance(S_CFG, 1, 3);
            if share {
                // the peer delay mechanism needs a point-to-point link: both ports end-to-end
                ps.p2p = false;
                if let Some(prev) = spec.ports.last_mut() {
                    prev.p2p = false;
                }
            }
            ps.master_only = !spec.slave_only && ch.chance(S_CFG, 1, 5);
            ps.segment = Some(seg);
            ps.acceptable = match ch.choose(S_CFG, 8) {
                1 => Some(vec![BETTER_ID, OWN_ID]),
                2 => Some(vec![BETTER_ID]),
                _ => None,
            };
            ps.filter = if cfg.recording_filter {
                FilterKind::Recording { mean_delay_units: Some(100 * US as i128) }
            } else if ch.chance(S_CFG, 1, 4) {
                FilterKind::Basic(0.25)
            } else {
                FilterKind::Kalman
            };
            let log = ps.announce_log;
            spec.ports.push(ps);
            // scripted peers of this port
            let mut a = RefMaster::new(3 * p, seg, Pid::new(BETTER_ID, (p + 1) as u16), GmData::simple(BETTER_ID, 10), log);
            a.two_step = ch.boolean(S_CFG);
            a.active = false;
            // the second master is either an unrelated (worse) clock or a second port of A's clock
            // on this segment, announcing the same grandmaster
            let sibling = ch.chance(S_CFG, 1, 4);
            let mut b = if sibling {
                let mut m = RefMaster::new(3 * p + 1, seg, Pid::new(BETTER_ID, (40 + p) as u16), GmData::simple(BETTER_ID, 10), log);
                m.two_step = a.two_step;
                m
            } else {
                RefMaster::new(3 * p + 1, seg, Pid::new(WORSE_ID, (p + 1) as u16), GmData::simple(WORSE_ID, 254), log)
            };
            b.active = false;
            let mut c = RefMaster::new(3 * p + 2, seg, Pid::new(PEER_ID, (p + 1) as u16), GmData::simple(PEER_ID, 255), log);
            c.active = false;
            c.announce_on = false;
            c.sync_on = false;
            c.answer_delay = false;
            for m in [&a, &b, &c] {
                w.attach_script(seg, m.endpoint);
            }
            masters.push(a);
            masters.push(b);
            masters.push(c);
        }
        let node_desc = json!({
            "ports": spec.ports.iter().map(|p| json!({"announce_log": p.announce_log, "sync_log": p.sync_log, "delay_log": p.delay_log, "timeout": p.receipt_timeout,
                "p2p": p.p2p, "master_only": p.master_only, "acceptable_list": p.acceptable.is_some(), "filter": format!("{:?}", p.filter)})).collect::<Vec<_>>(),
            "slave_only": spec.slave_only, "class": spec.class, "priority1": spec.priority1, "path_trace": spec.path_trace,
        });
        w.add_node(spec, ch);
        for m in &masters {
            let ph = ch.range(S_CFG, 1, 1000) as u128 * i_units / 1000;
            m.start(&mut w, ph);
        }
        Driver { w, masters, cfg, ops: Vec::new(), i_units, node_desc }
    }

    pub fn nports(&self) -> usize {
        self.w.nodes[0].ports.len()
    }

    /// run the world until `until`, serving the scripted peers
    pub fn advance(&mut self, ch: &mut Chooser, until: Tt) {
        loop {
            match self.w.step(ch, until) {
                None => break,
                Some(Stepped::Script { tag, a, .. }) => {
                    for m in self.masters.iter_mut() {
                        if m.on_script(&mut self.w, tag, a, ch) {
                            break;
                        }
                    }
                }
                Some(Stepped::ScriptRx { endpoint, event, frame, .. }) => {
                    if let Some(m) = self.masters.iter_mut().find(|m| m.endpoint == endpoint) {
                        m.on_rx(&mut self.w, endpoint, event, &frame, ch);
                    }
                }
                _ => {}
            }
        }
        if self.w.now() < until {
            self.w.time.now.set(until);
        }
    }

    pub fn one_op(&mut self, ch: &mut Chooser) {
        let np = self.nports() as u64;
        let weights = [
            10u64,                                        // 0 advance
            4,                                            // 1 toggle a master
            2,                                            // 2 odd announce
            2,                                            // 3 bmca now
            if self.cfg.wild_timers { 4 } else { 0 },     // 4 wild timer
            if self.cfg.runtime_changes { 1 } else { 0 }, // 5 slave-only toggle
            if self.cfg.runtime_changes { 1 } else { 0 }, // 6 quality change
            2,                                            // 7 second pdelay responder toggle
            1,                                            // 8 change master data
            2,                                            // 9 master A stops/resumes announcing (stays a pdelay responder)
        ];
        let op = ch.weighted(S_WORK, &weights);
        match op {
            0 => {
                let dt = ch.range(S_WORK, 1, 2000) as u128 * self.i_units / 1000;
                let t = self.w.now() + dt;
                self.advance(ch, t);
                self.ops.push(format!("advance {:.3}s", tt_to_secs(dt)));
            }
            1 => {
                let p = ch.choose(S_WORK, np) as usize;
                let which = ch.choose(S_WORK, 2) as usize;
                let m = &mut self.masters[3 * p + which];
                m.active = !m.active;
                if which == 1 && m.active && m.pid.clock == WORSE_ID {
                    // sometimes the worse master is actually better than us
                    m.gm.priority1 = *ch.pick(S_WORK, &[254u8, 50]);
                }
                self.ops.push(format!("master {}{} {}", if which == 0 { "A" } else { "B" }, p, if m.active { "on" } else { "off" }));
                self.w.out.fault(if m.active { "master_appears" } else { "master_disappears" });
            }
            2 => {
                let p = ch.choose(S_WORK, np) as usize;
                let kind = ch.choose(S_WORK, 3);
                let own_port_no = (p + 1) as u16;
                let src = match kind {
                    0 => Pid::new(OWN_ID, own_port_no),                                   // our own port identity
                    1 => Pid::new(OWN_ID, if own_port_no > 1 { own_port_no - 1 } else { 7 }), // sibling port of our clock
                    _ => Pid::new([0xee; 8], 1),                                          // may be outside the acceptable list
                };
                let f = announce_frame(src, ch.choose(S_WORK, 65536) as u16, &GmData::simple(src.clock, 1), 0, 0, 0);
                let seg = self.w.nodes[0].ports[p].segment.unwrap();
                self.w.script_send(seg, 99, false, f.encode(), ch);
                self.ops.push(format!("odd announce kind {kind} to port {p}"));
            }
            3 => {
                self.w.run_bmca(0, ch);
                self.ops.push("bmca".into());
            }
            4 => {
                let p = ch.choose(S_WORK, np) as usize;
                let t = ch.choose(S_WORK, 5) as usize;
                self.w.out.fault("timer_fired_unarmed_or_early");
                self.w.host_call(0, p, HostCall::Timer(t), ch);
                self.ops.push(format!("wild timer {} on port {p}", TIMER_NAMES[t]));
            }
            5 => {
                let cur = self.w.nodes[0].inst.default_ds().slave_only;
                // only switch it ON at run time (and back) on instances not constructed slave-only
                if !self.w.nodes[0].spec.slave_only {
                    self.w.nodes[0].inst.set_slave_only(!cur);
                    self.w.out.fault("runtime_slave_only_toggle");
                    self.ops.push(format!("set_slave_only({})", !cur));
                }
            }
            6 => {
                let class = *ch.pick(S_WORK, &[248u8, 6, 127, 128, 255]);
                let q = statime::config::ClockQuality { clock_class: class, clock_accuracy: accuracy_from_u8(0x21), offset_scaled_log_variance: 0x5000 };
                self.w.nodes[0].inst.set_clock_quality(q);
                self.w.out.fault("runtime_quality_change");
                self.ops.push(format!("set_clock_quality(class {class})"));
            }
            7 => {
                let p = ch.choose(S_WORK, np) as usize;
                let m = &mut self.masters[3 * p + 2];
                m.active = !m.active;
                self.ops.push(format!("second pdelay responder on port {p} {}", if m.active { "on" } else { "off" }));
                if m.active {
                    self.w.out.fault("second_pdelay_responder");
                }
            }
            9 => {
                let p = ch.choose(S_WORK, np) as usize;
                let m = &mut self.masters[3 * p];
                m.announce_on = !m.announce_on;
                m.sync_on = m.announce_on;
                self.ops.push(format!("master A{p} announcing/syncing {}", if m.announce_on { "resumed" } else { "stopped (still answers pdelay)" }));
                self.w.out.fault(if m.announce_on { "master_resumes_announcing" } else { "master_stops_announcing" });
            }
            _ => {
                let p = ch.choose(S_WORK, np) as usize;
                let m = &mut self.masters[3 * p];
                m.gm.steps_removed = *ch.pick(S_WORK, &[0u16, 1, 5, 254]);
                m.gm.class = *ch.pick(S_WORK, &[248u8, 6, 13]);
                self.ops.push(format!("master A{p} data change steps={} class={}", m.gm.steps_removed, m.gm.class));
            }
        }
    }

    pub fn run_history(&mut self, ch: &mut Chooser) {
        let depth = ch.range(S_WORK, self.cfg.depth / 4, self.cfg.depth);
        for _ in 0..depth {
            self.one_op(ch);
        }
    }

    pub fn silence_all(&mut self) {
        for m in self.masters.iter_mut() {
            m.active = false;
            m.announce_on = m.endpoint % 3 != 2;
            m.sync_on = m.announce_on;
        }
    }
}
