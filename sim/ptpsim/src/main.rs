mod smoke;

fn main() {
    ptpsim::support::install_logger();
    vcommon::install_panic_hook();
    smoke::run();
}
