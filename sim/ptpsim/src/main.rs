mod smoke;

use vcommon::{BatchOptions, Check, Tier};

fn usage() -> ! {
    eprintln!("usage: verif check <ID> <quick|thorough> | replay <file> [--quiet] | selftest [n] | digests <family> <n> <threads> | list | smoke");
    std::process::exit(2);
}

fn main() {
    ptpsim::support::install_logger();
    vcommon::install_panic_hook();
    let args: Vec<String> = std::env::args().collect();
    if args.len() < 2 {
        usage();
    }
    let all = ptpsim::checks::all();
    match args[1].as_str() {
        "smoke" => smoke::run(),
        "list" => {
            for c in &all {
                println!("{} {} quick={} thorough={}", c.property(), c.family(), c.budget(Tier::Quick), c.budget(Tier::Thorough));
            }
        }
        "check" => {
            if args.len() < 4 {
                usage();
            }
            let prop = args[2].as_str();
            let tier = match args[3].as_str() {
                "quick" => Tier::Quick,
                "thorough" => Tier::Thorough,
                _ => usage(),
            };
            let fams: Vec<&dyn Check> = all.iter().filter(|c| c.property() == prop).map(|c| c.as_ref()).collect();
            if fams.is_empty() {
                eprintln!("HARNESS-ERROR: no check registered for {prop}");
                std::process::exit(2);
            }
            let opts = BatchOptions::from_env();
            let code = vcommon::run_property(prop, &fams, tier, &opts, &ptpsim::checks::extras(prop));
            std::process::exit(code);
        }
        "replay" => {
            if args.len() < 3 {
                usage();
            }
            let quiet = args.iter().any(|a| a == "--quiet");
            let fams: Vec<&dyn Check> = all.iter().map(|c| c.as_ref()).collect();
            std::process::exit(vcommon::replay_file(&args[2], &fams, quiet));
        }
        "digests" => {
            // verif digests <family> <n> <threads>: print per-seed digests (for the determinism proof)
            let fam = all.iter().find(|c| c.family() == args[2]).unwrap_or_else(|| usage());
            let n: u64 = args[3].parse().unwrap();
            let th: usize = args[4].parse().unwrap();
            let tier = if args.get(5).map(|s| s.as_str()) == Some("thorough") { Tier::Thorough } else { Tier::Quick };
            let seed = BatchOptions::from_env().base_seed;
            for (i, d, c) in vcommon::digests(fam.as_ref(), tier, seed, n, th) {
                println!("{i} {d:016x} {c}");
            }
        }
        "selftest" => {
            // every family: n seeds, in separate processes at 1, 4 and 16 threads; all digest lists must agree
            let n: u64 = args.get(2).and_then(|s| s.parse().ok()).unwrap_or(200);
            let exe = std::env::current_exe().unwrap();
            let mut bad = 0;
            for c in &all {
                let mut outs = Vec::new();
                for th in [1usize, 4, 16] {
                    let o = std::process::Command::new(&exe).args(["digests", c.family(), &n.to_string(), &th.to_string()]).output().expect("spawn");
                    outs.push(String::from_utf8_lossy(&o.stdout).to_string());
                }
                let ok = outs[0] == outs[1] && outs[1] == outs[2] && outs[0].lines().count() as u64 == n;
                println!("selftest {} {}: {} seeds x 3 processes (1/4/16 threads): {}", c.property(), c.family(), n, if ok { "identical" } else { "MISMATCH" });
                if !ok {
                    bad += 1;
                }
            }
            std::process::exit(if bad == 0 { 0 } else { 2 });
        }
        _ => usage(),
    }
}
