mod clock;
mod host;
mod support;
mod wire;
mod smoke;

fn main() {
    support::install_logger();
    vcommon::install_panic_hook();
    smoke::run();
}
