//! Independent reference codec for IEEE 1588-2019 messages (Clause 13 / 14),
//! written from the tables of the standard without reading statime's codec.
//! It is the oracle for every frame a simulated port emits and the generator
//! of every frame injected by scripted peers.

#[derive(Clone, Copy, Debug, PartialEq, Eq, PartialOrd, Ord, Hash, Default)]
pub struct Pid {
    pub clock: [u8; 8],
    pub port: u16,
}

impl Pid {
    pub fn new(clock: [u8; 8], port: u16) -> Self {
        Pid { clock, port }
    }
    pub fn short(&self) -> String {
        format!("{:02x}{:02x}.{}", self.clock[6], self.clock[7], self.port)
    }
}

#[derive(Clone, Copy, Debug, PartialEq, Eq, Hash)]
#[repr(u8)]
pub enum MsgType {
    Sync = 0x0,
    DelayReq = 0x1,
    PdelayReq = 0x2,
    PdelayResp = 0x3,
    FollowUp = 0x8,
    DelayResp = 0x9,
    PdelayRespFollowUp = 0xa,
    Announce = 0xb,
    Signaling = 0xc,
    Management = 0xd,
}

impl MsgType {
    pub fn from_nibble(n: u8) -> Option<Self> {
        Some(match n {
            0x0 => MsgType::Sync,
            0x1 => MsgType::DelayReq,
            0x2 => MsgType::PdelayReq,
            0x3 => MsgType::PdelayResp,
            0x8 => MsgType::FollowUp,
            0x9 => MsgType::DelayResp,
            0xa => MsgType::PdelayRespFollowUp,
            0xb => MsgType::Announce,
            0xc => MsgType::Signaling,
            0xd => MsgType::Management,
            _ => return None,
        })
    }
    pub fn is_event(self) -> bool {
        (self as u8) < 8
    }
    pub fn control_field(self) -> u8 {
        match self {
            MsgType::Sync => 0,
            MsgType::DelayReq => 1,
            MsgType::FollowUp => 2,
            MsgType::DelayResp => 3,
            MsgType::Management => 4,
            _ => 5,
        }
    }
    pub fn body_len(self) -> usize {
        match self {
            MsgType::Sync | MsgType::DelayReq | MsgType::FollowUp => 10,
            MsgType::PdelayReq | MsgType::PdelayResp | MsgType::DelayResp | MsgType::PdelayRespFollowUp => 20,
            MsgType::Announce => 30,
            MsgType::Signaling => 10,
            MsgType::Management => 14,
        }
    }
    pub fn name(self) -> &'static str {
        match self {
            MsgType::Sync => "Sync",
            MsgType::DelayReq => "Delay_Req",
            MsgType::PdelayReq => "Pdelay_Req",
            MsgType::PdelayResp => "Pdelay_Resp",
            MsgType::FollowUp => "Follow_Up",
            MsgType::DelayResp => "Delay_Resp",
            MsgType::PdelayRespFollowUp => "Pdelay_Resp_Follow_Up",
            MsgType::Announce => "Announce",
            MsgType::Signaling => "Signaling",
            MsgType::Management => "Management",
        }
    }
}

/// flagField bits, as (octet, bit)
pub mod flag {
    pub const ALTERNATE_MASTER: u16 = 1 << 0;
    pub const TWO_STEP: u16 = 1 << 1;
    pub const UNICAST: u16 = 1 << 2;
    pub const PROFILE1: u16 = 1 << 5;
    pub const PROFILE2: u16 = 1 << 6;
    // second octet shifted by 8
    pub const LEAP61: u16 = 1 << 8;
    pub const LEAP59: u16 = 1 << 9;
    pub const UTC_VALID: u16 = 1 << 10;
    pub const PTP_TIMESCALE: u16 = 1 << 11;
    pub const TIME_TRACEABLE: u16 = 1 << 12;
    pub const FREQ_TRACEABLE: u16 = 1 << 13;
    pub const SYNC_UNCERTAIN: u16 = 1 << 14;
}

/// PTP timestamp: 48-bit seconds + 32-bit nanoseconds
#[derive(Clone, Copy, Debug, PartialEq, Eq, Default, PartialOrd, Ord, Hash)]
pub struct Ts {
    pub secs: u64,
    pub nanos: u32,
}

impl Ts {
    /// total nanoseconds as integer
    pub fn total_ns(&self) -> u128 {
        self.secs as u128 * 1_000_000_000 + self.nanos as u128
    }
    pub fn from_ns(ns: u128) -> Self {
        Ts { secs: (ns / 1_000_000_000) as u64, nanos: (ns % 1_000_000_000) as u32 }
    }
    fn put(&self, b: &mut [u8]) {
        b[0..6].copy_from_slice(&self.secs.to_be_bytes()[2..8]);
        b[6..10].copy_from_slice(&self.nanos.to_be_bytes());
    }
    fn get(b: &[u8]) -> Self {
        let mut s = [0u8; 8];
        s[2..8].copy_from_slice(&b[0..6]);
        Ts { secs: u64::from_be_bytes(s), nanos: u32::from_be_bytes([b[6], b[7], b[8], b[9]]) }
    }
}

#[derive(Clone, Copy, Debug, PartialEq, Eq, Hash)]
pub struct Hdr {
    pub sdo_id: u16, // 12 bit: major nibble << 8 | minor
    pub msg_type: MsgType,
    pub version: u8,
    pub minor_version: u8,
    pub length: u16,
    pub domain: u8,
    pub flags: u16,
    /// scaled nanoseconds (ns * 2^16)
    pub correction: i64,
    pub type_specific: u32,
    pub source: Pid,
    pub seq: u16,
    pub control: u8,
    pub log_interval: i8,
}

impl Hdr {
    pub fn new(t: MsgType, source: Pid, seq: u16) -> Self {
        Hdr {
            sdo_id: 0,
            msg_type: t,
            version: 2,
            minor_version: 1,
            length: 0,
            domain: 0,
            flags: 0,
            correction: 0,
            type_specific: 0,
            source,
            seq,
            control: t.control_field(),
            log_interval: 0x7f,
        }
    }
    pub fn flag(&self, f: u16) -> bool {
        self.flags & f != 0
    }
}

#[derive(Clone, Copy, Debug, PartialEq, Eq, Hash)]
pub struct AnnounceBody {
    pub origin: Ts,
    pub utc_offset: i16,
    pub gm_priority1: u8,
    pub gm_class: u8,
    pub gm_accuracy: u8,
    pub gm_variance: u16,
    pub gm_priority2: u8,
    pub gm_identity: [u8; 8],
    pub steps_removed: u16,
    pub time_source: u8,
}

#[derive(Clone, Debug, PartialEq, Eq, Hash)]
pub enum Body {
    Sync { origin: Ts },
    DelayReq { origin: Ts },
    PdelayReq { origin: Ts },
    PdelayResp { request_receipt: Ts, requesting: Pid },
    FollowUp { precise_origin: Ts },
    DelayResp { receive: Ts, requesting: Pid },
    PdelayRespFollowUp { response_origin: Ts, requesting: Pid },
    Announce(AnnounceBody),
    Signaling { target: Pid },
    Management { raw: [u8; 14] },
}

#[derive(Clone, Debug, PartialEq, Eq, Hash)]
pub struct Tlv {
    pub typ: u16,
    pub value: Vec<u8>,
}

impl Tlv {
    pub fn wire_len(&self) -> usize {
        4 + self.value.len()
    }
    /// Table 52: which tlvType values are propagated through boundary clocks
    /// when attached to an Announce message.
    pub fn propagates(typ: u16) -> bool {
        matches!(typ, 0x0008 | 0x0009) || (0x4000..=0x7fff).contains(&typ)
    }
}

pub const TLV_PATH_TRACE: u16 = 0x0008;
pub const TLV_ALTERNATE_TIME_OFFSET: u16 = 0x0009;
pub const TLV_ORG_EXT: u16 = 0x0003;
pub const TLV_ORG_EXT_PROPAGATE: u16 = 0x4000;
pub const TLV_ORG_EXT_NO_PROPAGATE: u16 = 0x8000;
pub const TLV_PAD: u16 = 0x8008;

#[derive(Clone, Debug, PartialEq, Eq, Hash)]
pub struct Frame {
    pub hdr: Hdr,
    pub body: Body,
    pub tlvs: Vec<Tlv>,
}

#[derive(Clone, Debug, PartialEq, Eq)]
pub enum DecodeError {
    TooShort,
    BadType(u8),
    BadLength,
    BadTlv,
}

fn put_pid(p: &Pid, b: &mut [u8]) {
    b[0..8].copy_from_slice(&p.clock);
    b[8..10].copy_from_slice(&p.port.to_be_bytes());
}
fn get_pid(b: &[u8]) -> Pid {
    let mut c = [0u8; 8];
    c.copy_from_slice(&b[0..8]);
    Pid { clock: c, port: u16::from_be_bytes([b[8], b[9]]) }
}

impl Frame {
    pub fn new(t: MsgType, source: Pid, seq: u16, body: Body) -> Self {
        Frame { hdr: Hdr::new(t, source, seq), body, tlvs: Vec::new() }
    }

    pub fn encode(&self) -> Vec<u8> {
        let t = self.hdr.msg_type;
        let body_len = t.body_len();
        let tlv_len: usize = self.tlvs.iter().map(|t| t.wire_len()).sum();
        let total = 34 + body_len + tlv_len;
        let mut b = vec![0u8; total];
        let h = &self.hdr;
        b[0] = (((h.sdo_id >> 8) as u8 & 0x0f) << 4) | (t as u8 & 0x0f);
        b[1] = ((h.minor_version & 0x0f) << 4) | (h.version & 0x0f);
        let len = if h.length != 0 { h.length } else { total as u16 };
        b[2..4].copy_from_slice(&len.to_be_bytes());
        b[4] = h.domain;
        b[5] = (h.sdo_id & 0xff) as u8;
        b[6] = (h.flags & 0xff) as u8;
        b[7] = (h.flags >> 8) as u8;
        b[8..16].copy_from_slice(&h.correction.to_be_bytes());
        b[16..20].copy_from_slice(&h.type_specific.to_be_bytes());
        put_pid(&h.source, &mut b[20..30]);
        b[30..32].copy_from_slice(&h.seq.to_be_bytes());
        b[32] = h.control;
        b[33] = h.log_interval as u8;
        let p = &mut b[34..34 + body_len];
        match &self.body {
            Body::Sync { origin } | Body::DelayReq { origin } => origin.put(&mut p[0..10]),
            Body::PdelayReq { origin } => origin.put(&mut p[0..10]),
            Body::FollowUp { precise_origin } => precise_origin.put(&mut p[0..10]),
            Body::PdelayResp { request_receipt, requesting } => {
                request_receipt.put(&mut p[0..10]);
                put_pid(requesting, &mut p[10..20]);
            }
            Body::DelayResp { receive, requesting } => {
                receive.put(&mut p[0..10]);
                put_pid(requesting, &mut p[10..20]);
            }
            Body::PdelayRespFollowUp { response_origin, requesting } => {
                response_origin.put(&mut p[0..10]);
                put_pid(requesting, &mut p[10..20]);
            }
            Body::Announce(a) => {
                a.origin.put(&mut p[0..10]);
                p[10..12].copy_from_slice(&a.utc_offset.to_be_bytes());
                p[12] = 0;
                p[13] = a.gm_priority1;
                p[14] = a.gm_class;
                p[15] = a.gm_accuracy;
                p[16..18].copy_from_slice(&a.gm_variance.to_be_bytes());
                p[18] = a.gm_priority2;
                p[19..27].copy_from_slice(&a.gm_identity);
                p[27..29].copy_from_slice(&a.steps_removed.to_be_bytes());
                p[29] = a.time_source;
            }
            Body::Signaling { target } => put_pid(target, &mut p[0..10]),
            Body::Management { raw } => p.copy_from_slice(raw),
        }
        let mut off = 34 + body_len;
        for t in &self.tlvs {
            b[off..off + 2].copy_from_slice(&t.typ.to_be_bytes());
            b[off + 2..off + 4].copy_from_slice(&(t.value.len() as u16).to_be_bytes());
            b[off + 4..off + 4 + t.value.len()].copy_from_slice(&t.value);
            off += t.wire_len();
        }
        b
    }

    pub fn decode(buf: &[u8]) -> Result<Frame, DecodeError> {
        if buf.len() < 34 {
            return Err(DecodeError::TooShort);
        }
        let t = MsgType::from_nibble(buf[0] & 0x0f).ok_or(DecodeError::BadType(buf[0] & 0x0f))?;
        let length = u16::from_be_bytes([buf[2], buf[3]]);
        if (length as usize) < 34 + t.body_len() || (length as usize) > buf.len() {
            return Err(DecodeError::BadLength);
        }
        let hdr = Hdr {
            sdo_id: (((buf[0] >> 4) as u16) << 8) | buf[5] as u16,
            msg_type: t,
            version: buf[1] & 0x0f,
            minor_version: buf[1] >> 4,
            length,
            domain: buf[4],
            flags: buf[6] as u16 | ((buf[7] as u16) << 8),
            correction: i64::from_be_bytes(buf[8..16].try_into().unwrap()),
            type_specific: u32::from_be_bytes(buf[16..20].try_into().unwrap()),
            source: get_pid(&buf[20..30]),
            seq: u16::from_be_bytes([buf[30], buf[31]]),
            control: buf[32],
            log_interval: buf[33] as i8,
        };
        let p = &buf[34..length as usize];
        let body = match t {
            MsgType::Sync => Body::Sync { origin: Ts::get(&p[0..10]) },
            MsgType::DelayReq => Body::DelayReq { origin: Ts::get(&p[0..10]) },
            MsgType::PdelayReq => Body::PdelayReq { origin: Ts::get(&p[0..10]) },
            MsgType::FollowUp => Body::FollowUp { precise_origin: Ts::get(&p[0..10]) },
            MsgType::PdelayResp => Body::PdelayResp { request_receipt: Ts::get(&p[0..10]), requesting: get_pid(&p[10..20]) },
            MsgType::DelayResp => Body::DelayResp { receive: Ts::get(&p[0..10]), requesting: get_pid(&p[10..20]) },
            MsgType::PdelayRespFollowUp => {
                Body::PdelayRespFollowUp { response_origin: Ts::get(&p[0..10]), requesting: get_pid(&p[10..20]) }
            }
            MsgType::Announce => Body::Announce(AnnounceBody {
                origin: Ts::get(&p[0..10]),
                utc_offset: i16::from_be_bytes([p[10], p[11]]),
                gm_priority1: p[13],
                gm_class: p[14],
                gm_accuracy: p[15],
                gm_variance: u16::from_be_bytes([p[16], p[17]]),
                gm_priority2: p[18],
                gm_identity: p[19..27].try_into().unwrap(),
                steps_removed: u16::from_be_bytes([p[27], p[28]]),
                time_source: p[29],
            }),
            MsgType::Signaling => Body::Signaling { target: get_pid(&p[0..10]) },
            MsgType::Management => Body::Management { raw: p[0..14].try_into().unwrap() },
        };
        let mut tlvs = Vec::new();
        let mut rest = &p[t.body_len()..];
        while !rest.is_empty() {
            if rest.len() < 4 {
                return Err(DecodeError::BadTlv);
            }
            let typ = u16::from_be_bytes([rest[0], rest[1]]);
            let l = u16::from_be_bytes([rest[2], rest[3]]) as usize;
            if rest.len() < 4 + l {
                return Err(DecodeError::BadTlv);
            }
            tlvs.push(Tlv { typ, value: rest[4..4 + l].to_vec() });
            rest = &rest[4 + l..];
        }
        Ok(Frame { hdr, body, tlvs })
    }

    pub fn announce(&self) -> Option<&AnnounceBody> {
        match &self.body {
            Body::Announce(a) => Some(a),
            _ => None,
        }
    }
}

/// scaled-ns correction field -> units of 2^-32 ns
pub fn corr_to_units(c: i64) -> i128 {
    (c as i128) << 16
}

/// timestamp -> units of 2^-32 ns
pub fn ts_to_units(t: Ts) -> i128 {
    (t.total_ns() as i128) << 32
}

#[cfg(test)]
mod tests {
    use super::*;
    #[test]
    fn roundtrip() {
        let mut f = Frame::new(
            MsgType::Announce,
            Pid::new([1, 2, 3, 4, 5, 6, 7, 8], 3),
            77,
            Body::Announce(AnnounceBody {
                origin: Ts { secs: 5, nanos: 6 },
                utc_offset: 37,
                gm_priority1: 128,
                gm_class: 248,
                gm_accuracy: 0xfe,
                gm_variance: 0xffff,
                gm_priority2: 128,
                gm_identity: [9; 8],
                steps_removed: 2,
                time_source: 0xa0,
            }),
        );
        f.tlvs.push(Tlv { typ: 8, value: vec![1; 16] });
        let b = f.encode();
        let mut g = Frame::decode(&b).unwrap();
        g.hdr.length = 0;
        assert_eq!(f, g);
    }
}
