//! C14 - peer-delay measurement is exact and guarded against multiple responders.

use crate::clock::*;
use crate::host::*;
use crate::script::{announce_frame, GmData};
use crate::wire::*;
use serde_json::json;
use std::rc::Rc;
use vcommon::tape::*;
use vcommon::{Check, Chooser, RunOutcome, Tier};

pub struct C14;

const OWN: [u8; 8] = [0x50, 0, 0, 0, 0, 0, 0, 0x02];
const RESP_A: [u8; 8] = [0x0a, 0, 0, 0, 0, 0, 0, 0xaa];
const RESP_B: [u8; 8] = [0x0b, 0, 0, 0, 0, 0, 0, 0xbb];
const PARENT: [u8; 8] = [0x02, 0, 0, 0, 0, 0, 0, 0x11];
const TOL: i128 = 1 << 16;

fn pick_corr(ch: &mut Chooser) -> i64 {
    let ns: i64 = *ch.pick(S_WORK, &[0i64, 1, -1, 1000, -1000, 1_000_000, -999_999]);
    let frac: i64 = *ch.pick(S_WORK, &[0i64, 1, 0x8000, 0xffff]);
    (ns << 16) + frac
}

#[derive(Clone, Debug)]
struct RespData {
    who: usize, // 0 = A, 1 = B
    two_step: bool,
    t2: Ts,
    t3: Ts,
    t4: u128,
    c_resp: i64,
    c_fu: i64,
}

#[derive(Clone, Debug)]
enum Ev {
    Timer,
    TxTs(u128),
    Resp(usize),
    Fu(usize),
    ReceiptTimer,
    Bmca,
    OtherRequesterResp(usize),
    /// follow-up of the SAME responder and sequence id, but addressed to another requester (two
    /// nodes, or two ports of one node, measuring the same link with coinciding sequence ids)
    OtherRequesterFu(usize),
    /// Announce from a lower-numbered port of our own clock on the same segment
    SiblingAnnounce,
    /// the transmit timestamp of the PREVIOUS request, reported only now (timestamps late, in order)
    StaleTxTs,
}

impl Check for C14 {
    fn property(&self) -> &'static str {
        "C14"
    }
    fn family(&self) -> &'static str {
        "c14_pdelay_interleavings"
    }
    fn budget(&self, tier: Tier) -> u64 {
        match tier {
            Tier::Quick => 300_000,
            Tier::Thorough => 6_000_000,
        }
    }
    fn run(&self, ch: &mut Chooser, _tier: Tier) -> RunOutcome {
        let mut w = World::new();
        w.manual_tx_ts = true;
        let mut spec = NodeSpec::default();
        spec.id = OWN;
        spec.priority1 = 200;
        spec.ports[0].p2p = true;
        spec.ports[0].filter = FilterKind::Recording { mean_delay_units: None };
        spec.ports[0].forward_tlvs = false;
        w.add_node(spec, ch);
        let own = Pid::new(OWN, 1);
        let ids = [Pid::new(RESP_A, 1), Pid::new(RESP_B, 1)];
        // bring the port into one of the states in which the exchange runs
        let start = ch.choose(S_CFG, 3);
        match start {
            1 => {
                w.host_call(0, 0, HostCall::Timer(T_RECEIPT), ch);
            }
            2 => {
                let gm = GmData::simple(PARENT, 10);
                for k in 0..2u16 {
                    let f = announce_frame(Pid::new(PARENT, 1), 100 + k, &gm, 0, 0, 0);
                    w.host_call(0, 0, HostCall::RxGeneral(Rc::new(f.encode())), ch);
                    w.run_bmca(0, ch);
                }
            }
            _ => {}
        }
        let start_state = w.nodes[0].ports[0].state();
        let rec = w.nodes[0].ports[0].rec_log.clone().unwrap();
        let base: u128 = *ch.pick(S_CFG, &[1_700_000_000u128, 7, (1u128 << 47) + 3, 4_294_967_295]);
        let n_req = ch.range(S_WORK, 1, 3) as usize;
        let mut script: Vec<String> = Vec::new();
        let mut viol: Vec<(String, String, String)> = Vec::new();
        let mut n_meas_seen = 0usize;
        let mut faulty_entries = 0u64;
        let mut recoveries = 0u64;
        let mut late_meas = 0u64;
        let mut pending_ctx: Option<u64> = None;
        let mut stale_ctx: Option<(u64, u128)> = None;
        let mut last_t1: u128 = 0;
        // one run in a thousand starts just before the 16-bit sequence id of the requests wraps
        let wrap = ch.chance(S_CFG, 1, 1000);
        if wrap {
            let n = 65536 - ch.range(S_CFG, 1, 2) as usize;
            for k in 0..n {
                w.host_call(0, 0, HostCall::Timer(T_DELAY), ch);
                if k % 512 == 0 {
                    w.emitted.clear();
                    w.nodes[0].ports[0].pending_ctx.clear();
                }
            }
            w.emitted.clear();
            w.nodes[0].ports[0].pending_ctx.clear();
            w.out.probe("pdelay_sequence_id_about_to_wrap");
        }
        for r in 0..n_req {
            // responders for this request
            let n_resp = 1 + ch.weighted(S_WORK, &[3, 2]);
            let t1 = (base + 10 * r as u128) * SEC + ch.choose(S_WORK, 1000) as u128 * US + ch.choose(S_WORK, 3) as u128 * 0x5555_5555;
            let mut resp: Vec<RespData> = Vec::new();
            for k in 0..n_resp {
                let who = if n_resp == 1 { ch.choose(S_WORK, 2) as usize } else { k };
                let d1 = *ch.pick(S_WORK, &[100_000u128, 1, 999_999, 5_000]);
                let t2 = Ts::from_ns(t1 / NS + d1);
                let t3 = Ts::from_ns(t2.total_ns() + *ch.pick(S_WORK, &[1_000u128, 0, 1_000_000_000, 37]));
                let t4 = (t3.total_ns() + d1) * NS + ch.choose(S_WORK, 4) as u128 * 0x4000_0000;
                resp.push(RespData { who, two_step: ch.boolean(S_WORK), t2, t3, t4, c_resp: pick_corr(ch), c_fu: pick_corr(ch) });
            }
            let mut evs: Vec<Ev> = Vec::new();
            if !ch.chance(S_WORK, 1, 8) {
                evs.push(Ev::TxTs(t1));
            }
            for (k, rd) in resp.iter().enumerate() {
                if !ch.chance(S_WORK, 1, 8) {
                    for _ in 0..(1 + ch.weighted(S_WORK, &[6, 2])) {
                        evs.push(Ev::Resp(k));
                    }
                }
                if rd.two_step && !ch.chance(S_WORK, 1, 8) {
                    for _ in 0..(1 + ch.weighted(S_WORK, &[6, 2])) {
                        evs.push(Ev::Fu(k));
                    }
                }
            }
            if ch.chance(S_WORK, 1, 4) {
                evs.push(Ev::ReceiptTimer);
            }
            if ch.chance(S_WORK, 1, 4) {
                evs.push(Ev::Bmca);
            }
            if ch.chance(S_WORK, 1, 4) {
                evs.push(Ev::OtherRequesterResp(0));
            }
            if ch.chance(S_WORK, 1, 4) {
                evs.push(Ev::OtherRequesterFu(0));
            }
            if ch.chance(S_WORK, 1, 6) {
                evs.push(Ev::SiblingAnnounce);
            }
            if r > 0 && ch.chance(S_WORK, 1, 2) {
                evs.push(Ev::StaleTxTs);
            }
            ch.shuffle(S_WORK, &mut evs);
            evs.insert(0, Ev::Timer);

            // model of this request
            let mut req_seq: Option<u16> = None;
            let mut t1_delivered: Option<u128> = None;
            let mut seen: Vec<usize> = Vec::new(); // responder identities seen for this request id
            let mut resp_del: Vec<bool> = vec![false; resp.len()];
            let mut fu_del: Vec<bool> = vec![false; resp.len()];
            for e in evs {
                let before = w.nodes[0].ports[0].state();
                let mut second_responder_now = false;
                let mut was_clean_exchange_event = false;
                match &e {
                    Ev::StaleTxTs => {
                        if let Some((c, t)) = stale_ctx.take() {
                            script.push(format!("late TX timestamp of the previous request (t1={t})"));
                            w.host_call(0, 0, HostCall::TxTimestamp(c, t), ch);
                        }
                    }
                    Ev::Timer => {
                        // a timestamp of the previous request that was never reported may still come
                        if let Some(c) = pending_ctx.take() {
                            stale_ctx = Some((c, last_t1));
                        }
                        last_t1 = t1;
                        let n0 = w.emitted.len();
                        w.host_call(0, 0, HostCall::Timer(T_DELAY), ch);
                        for em in &w.emitted[n0..] {
                            if let Ok(f) = Frame::decode(&em.bytes) {
                                if f.hdr.msg_type == MsgType::PdelayReq {
                                    req_seq = Some(f.hdr.seq);
                                }
                            }
                        }
                        pending_ctx = w.nodes[0].ports[0].pending_ctx.iter().map(|(i, _)| *i).max();
                        script.push(format!("pdelay timer -> Pdelay_Req#{:?}", req_seq));
                    }
                    Ev::TxTs(t) => {
                        if let Some(c) = pending_ctx.take() {
                            t1_delivered = Some(*t);
                            script.push(format!("TX timestamp t1={t}"));
                            w.host_call(0, 0, HostCall::TxTimestamp(c, *t), ch);
                            was_clean_exchange_event = true;
                        }
                    }
                    Ev::Resp(k) => {
                        let Some(seq) = req_seq else { continue };
                        let rd = &resp[*k];
                        let mut f = Frame::new(MsgType::PdelayResp, ids[rd.who], seq, Body::PdelayResp { request_receipt: rd.t2, requesting: own });
                        f.hdr.correction = rd.c_resp;
                        if rd.two_step {
                            f.hdr.flags |= flag::TWO_STEP;
                        }
                        resp_del[*k] = true;
                        if !seen.contains(&rd.who) {
                            seen.push(rd.who);
                            second_responder_now = seen.len() == 2;
                        }
                        script.push(format!("Pdelay_Resp#{seq} from {} ({})", ["A", "B"][rd.who], if rd.two_step { "two-step" } else { "one-step" }));
                        w.host_call(0, 0, HostCall::RxEvent(Rc::new(f.encode()), rd.t4), ch);
                        was_clean_exchange_event = true;
                    }
                    Ev::Fu(k) => {
                        let Some(seq) = req_seq else { continue };
                        let rd = &resp[*k];
                        let mut f = Frame::new(MsgType::PdelayRespFollowUp, ids[rd.who], seq, Body::PdelayRespFollowUp { response_origin: rd.t3, requesting: own });
                        f.hdr.correction = rd.c_fu;
                        fu_del[*k] = true;
                        if !seen.contains(&rd.who) {
                            seen.push(rd.who);
                            second_responder_now = seen.len() == 2;
                        }
                        script.push(format!("Pdelay_Resp_Follow_Up#{seq} from {}", ["A", "B"][rd.who]));
                        w.host_call(0, 0, HostCall::RxGeneral(Rc::new(f.encode())), ch);
                        was_clean_exchange_event = true;
                    }
                    Ev::ReceiptTimer => {
                        script.push("announce receipt timer".into());
                        w.host_call(0, 0, HostCall::Timer(T_RECEIPT), ch);
                    }
                    Ev::Bmca => {
                        script.push("bmca".into());
                        w.run_bmca(0, ch);
                    }
                    Ev::SiblingAnnounce => {
                        // our own clock, port number 0 < ours: the "two ports on one segment" rule
                        let f = announce_frame(Pid::new(OWN, 0), 7 + script.len() as u16, &GmData::simple(OWN, 200), 0, 0, 0);
                        script.push("Announce from a lower-numbered port of our own clock".into());
                        w.host_call(0, 0, HostCall::RxGeneral(Rc::new(f.encode())), ch);
                    }
                    Ev::OtherRequesterFu(k) => {
                        let Some(seq) = req_seq else { continue };
                        let rd = &resp[*k];
                        // another port of our own clock as requester in half of the cases
                        let other = if script.len() % 2 == 0 { Pid::new(OWN, 9) } else { Pid::new([0x66; 8], 1) };
                        let f = Frame::new(MsgType::PdelayRespFollowUp, ids[rd.who], seq, Body::PdelayRespFollowUp { response_origin: Ts::from_ns(rd.t3.total_ns() + 12_345), requesting: other });
                        script.push(format!("Pdelay_Resp_Follow_Up#{seq} of the same responder addressed to another requester"));
                        w.host_call(0, 0, HostCall::RxGeneral(Rc::new(f.encode())), ch);
                    }
                    Ev::OtherRequesterResp(k) => {
                        let Some(seq) = req_seq else { continue };
                        let rd = &resp[*k];
                        let f = Frame::new(MsgType::PdelayResp, ids[1 - rd.who], seq, Body::PdelayResp { request_receipt: rd.t2, requesting: Pid::new(OWN, 9) });
                        script.push(format!("Pdelay_Resp#{seq} addressed to another requester"));
                        w.host_call(0, 0, HostCall::RxEvent(Rc::new(f.encode()), rd.t4), ch);
                    }
                }
                let after = w.nodes[0].ports[0].state();
                if second_responder_now {
                    faulty_entries += 1;
                    if after != PState::Faulty {
                        viol.push((
                            "C14.second_responder_not_faulty".into(),
                            format!("state_before={before:?}"),
                            format!("responses to Pdelay_Req#{:?} arrived from two responders but the port is {after:?}; script: {}", req_seq, script.join(" | ")),
                        ));
                    }
                }
                if before == PState::Faulty && after != PState::Faulty {
                    recoveries += 1;
                    // was this call the completion of an exchange answered by exactly one responder?
                    let clean = was_clean_exchange_event
                        && seen.len() == 1
                        && t1_delivered.is_some()
                        && resp.iter().enumerate().any(|(k, rd)| rd.who == seen[0] && resp_del[k] && (!rd.two_step || fu_del[k]));
                    if !clean {
                        viol.push((
                            "C14.faulty_left_without_clean_exchange".into(),
                            format!("via={}", match e { Ev::ReceiptTimer => "announce_receipt_timer", Ev::Bmca => "bmca", Ev::TxTs(_) => "late_tx_timestamp_of_doubly_answered_request", Ev::SiblingAnnounce => "announce_from_sibling_port", _ => "other" }),
                            format!("port left Faulty ({after:?}) in a call that did not complete an exchange answered by exactly one responder; script: {}", script.join(" | ")),
                        ));
                    }
                }
                // a complete exchange with exactly one responder must leave the port not Faulty
                if was_clean_exchange_event && seen.len() == 1 && t1_delivered.is_some() {
                    let complete = resp.iter().enumerate().any(|(k, rd)| rd.who == seen[0] && resp_del[k] && (!rd.two_step || fu_del[k]));
                    if complete && after == PState::Faulty && before == PState::Faulty {
                        // it may already have been measured earlier in Faulty... it must have recovered at completion
                        viol.push((
                            "C14.still_faulty_after_clean_exchange".into(),
                            String::new(),
                            format!("a Pdelay exchange answered by exactly one responder completed but the port is still Faulty; script: {}", script.join(" | ")),
                        ));
                    }
                }
                // new measurements
                let entries = rec.borrow().entries.clone();
                for m in entries.iter().skip(n_meas_seen) {
                    let m = &m.m;
                    let Some(pd) = m.peer_delay else {
                        continue;
                    };
                    let pd = duration_to_units(pd);
                    let ev_t = m.event_time.nanos().to_bits() as i128;
                    let mut ok = false;
                    if let Some(t1) = t1_delivered {
                        for (k, rd) in resp.iter().enumerate() {
                            if !resp_del[k] || (rd.two_step && !fu_del[k]) {
                                continue;
                            }
                            let t4c = rd.t4 as i128 - corr_to_units(rd.c_resp);
                            let t3c = if rd.two_step { ts_to_units(rd.t3) + corr_to_units(rd.c_fu) } else { ts_to_units(rd.t2) };
                            let want = ((t4c - t1 as i128) - (t3c - ts_to_units(rd.t2))) / 2;
                            if (want - pd).abs() <= TOL && (ev_t - t4c).abs() <= TOL {
                                ok = true;
                            }
                        }
                    }
                    if !ok {
                        viol.push((
                            "C14.peer_delay_not_from_one_exchange".into(),
                            String::new(),
                            format!("filter received peer_delay={pd} event_time={ev_t} which no single request/responder exchange explains; responders {:?}; script: {}", resp, script.join(" | ")),
                        ));
                    }
                    if seen.len() >= 2 {
                        // The statement forbids using the *later* response; a measurement built from
                        // the first responder's data after a second one showed up (late TX timestamp)
                        // is covered by the formula check above. Counted, not flagged.
                        late_meas += 1;
                    }
                }
                n_meas_seen = entries.len();
            }
        }
        for (o, k, m) in viol {
            w.out.violate("C14", &o, k, m);
        }
        w.out.nontrivial = n_meas_seen >= 1 || faulty_entries >= 1;
        w.out.oracle_evals = n_meas_seen as u64 + faulty_entries;
        w.out.probe_n("peer_delay_measurements", n_meas_seen as u64);
        w.out.probe_n("second_responder_seen", faulty_entries);
        w.out.probe_n("faulty_left", recoveries);
        w.out.probe_n("measurement_completed_after_second_responder", late_meas);
        w.out.probe(&format!("start_state.{:?}", start_state));
        for s in &script {
            let cut = s.find('#').or(s.find(" t1")).unwrap_or(s.len());
            w.shape.str(&s[..cut]);
        }
        w.out.sample = Some(json!({"start_state": format!("{:?}", start_state), "script": script, "measurements": n_meas_seen}));
        w.finish()
    }
}
