//! C05 - after each BMCA run the port states and data sets are those of the
//! IEEE 1588-2019 data set comparison / state decision algorithm (reference
//! model in model.rs), with statime's documented deviations; the outcome does
//! not depend on the order in which Announces were presented.

use crate::checks::c11::{view_of_announce, view_of_node, View};
use crate::host::*;
use crate::model::{self, Cmp, Decision};
use crate::script::{announce_frame, GmData};
use crate::wire::*;
use serde_json::json;
use std::rc::Rc;
use vcommon::tape::*;
use vcommon::{Check, Chooser, RunOutcome, Tier};

pub struct C05;

const OWN_IDS: [[u8; 8]; 3] = [[0x40, 0, 0, 0, 0, 0, 0, 0x05], [0x08, 0, 0, 0, 0, 0, 0, 0x05], [0xd0, 0, 0, 0, 0, 0, 0, 0x05]];

#[derive(Clone, Debug)]
struct MasterSpec {
    pid: Pid,
    port: usize, // receiving port
    gm1: GmData, // content in round 1
    gm2: GmData, // content in round 2
    in_round1: bool,
    seq: u16,
}

#[derive(Clone, Debug, PartialEq)]
struct Outcome {
    states: Vec<PState>,
    view: View,
    parent: Pid,
}

/// Attributes of the three possible grandmasters of a run. They are a function of the grandmaster
/// identity: two Announces that describe one grandmaster with different priorities or quality make
/// the data set comparison non-transitive (no best candidate exists), which is outside the statement.
type GmTable = [(u8, u8, u8, u16, u8); 3];

fn gm_table(ch: &mut Chooser) -> GmTable {
    let mut t = [(128u8, 248u8, 0xfeu8, 0xffffu16, 128u8); 3];
    for e in t.iter_mut() {
        *e = (
            *ch.pick(S_WORK, &[128u8, 100, 200]),
            *ch.pick(S_WORK, &[248u8, 6, 127, 128]),
            *ch.pick(S_WORK, &[0xfeu8, 0x21]),
            *ch.pick(S_WORK, &[0xffffu16, 0x4e5d]),
            *ch.pick(S_WORK, &[128u8, 127]),
        );
    }
    t
}

const GM_IDS: [[u8; 8]; 3] = [[0x01, 0, 0, 0, 0, 0, 0, 0x0a], [0x90, 0, 0, 0, 0, 0, 0, 0x0b], [0x30, 0, 0, 0, 0, 0, 0, 0x0c]];

fn gm_from_domains(ch: &mut Chooser, table: &GmTable) -> GmData {
    let k = ch.choose(S_WORK, 3) as usize;
    let (priority1, class, accuracy, variance, priority2) = table[k];
    GmData {
        priority1,
        class,
        accuracy,
        variance,
        priority2,
        identity: GM_IDS[k],
        steps_removed: *ch.pick(S_WORK, &[0u16, 1, 2, 3, 254, 255, 256]),
        utc_offset: 37,
        time_source: *ch.pick(S_WORK, &[0xa0u8, 0x20]),
        flags: *ch.pick(S_WORK, &[0u16, flag::UTC_VALID | flag::PTP_TIMESCALE, flag::LEAP61 | flag::TIME_TRACEABLE]),
    }
}

struct Scenario {
    spec: NodeSpec,
    masters: Vec<MasterSpec>,
    prior: Vec<u8>, // 0 listening, 1 master via timeout, 2 via round 1, 3 faulty (p2p)
    /// P2P ports that turn Faulty only after the round-2 Announces were received (just before the BMCA run)
    late_fault: Vec<bool>,
    /// run the BMCA once before round 2 even if no master spoke in round 1
    warm_bmca: bool,
    /// own clock quality changed at run time (PtpInstance::set_clock_quality) before round 2
    quality2: Option<(u8, u8, u16)>,
}

fn make_faulty(w: &mut World, spec: &NodeSpec, p: usize, ch: &mut Chooser) {
    // two responders answer one Pdelay request
    w.keep_emitted = true;
    w.host_call(0, p, HostCall::Timer(T_DELAY), ch);
    let seq = w.emitted.iter().rev().find_map(|e| Frame::decode(&e.bytes).ok().filter(|f| f.hdr.msg_type == MsgType::PdelayReq).map(|f| f.hdr.seq)).unwrap_or(0);
    w.keep_emitted = false;
    w.emitted.clear();
    let own = Pid::new(spec.id, (p + 1) as u16);
    for r in 0..2u8 {
        let f = Frame::new(MsgType::PdelayResp, Pid::new([0xee, r, 0, 0, 0, 0, 0, 1], 1), seq, Body::PdelayResp { request_receipt: Ts { secs: 1_700_000_000, nanos: 5 }, requesting: own });
        w.host_call(0, p, HostCall::RxEvent(Rc::new(f.encode()), (1_700_000_000u128 * 1_000_000_000 + 1000) << 32), ch);
    }
}

fn execute(sc: &Scenario, order2: &[usize], ch: &mut Chooser) -> (Outcome, Vec<PState>, World) {
    let mut w = World::new();
    w.keep_emitted = false;
    w.add_node(sc.spec.clone(), ch);
    let np = sc.spec.ports.len();
    // prior states
    for p in 0..np {
        match sc.prior[p] {
            1 => {
                w.host_call(0, p, HostCall::Timer(T_RECEIPT), ch);
            }
            3 => make_faulty(&mut w, &sc.spec, p, ch),
            _ => {}
        }
    }
    // round 1
    let mut seqs: Vec<u16> = sc.masters.iter().map(|m| m.seq).collect();
    let mut any_r1 = false;
    for rep in 0..2 {
        for (mi, m) in sc.masters.iter().enumerate() {
            if m.in_round1 {
                any_r1 = true;
                let f = announce_frame(m.pid, seqs[mi], &m.gm1, 0, 0, 0);
                seqs[mi] = seqs[mi].wrapping_add(1);
                w.host_call(0, m.port, HostCall::RxGeneral(Rc::new(f.encode())), ch);
            }
        }
        let _ = rep;
    }
    if any_r1 || sc.warm_bmca {
        w.run_bmca(0, ch);
    }
    if let Some((class, acc, var)) = sc.quality2 {
        w.nodes[0].inst.set_clock_quality(statime::config::ClockQuality {
            clock_class: class,
            clock_accuracy: crate::host::accuracy_from_u8(acc),
            offset_scaled_log_variance: var,
        });
    }
    // round 2: every master delivers two Announces, interleaved as given by `order2`
    // (order2 lists master indices, each exactly twice)
    for &mi in order2 {
        let m = &sc.masters[mi];
        let f = announce_frame(m.pid, seqs[mi], &m.gm2, 0, 0, 0);
        seqs[mi] = seqs[mi].wrapping_add(1);
        w.host_call(0, m.port, HostCall::RxGeneral(Rc::new(f.encode())), ch);
    }
    for p in 0..np {
        if sc.late_fault[p] {
            make_faulty(&mut w, &sc.spec, p, ch);
        }
    }
    // the states the decision has to start from are those right before the BMCA run
    let prior_states = w.nodes[0].states();
    w.run_bmca(0, ch);
    let node = &w.nodes[0];
    let pd = node.inst.parent_ds();
    let out = Outcome { states: node.states(), view: view_of_node(node), parent: Pid::new(pd.parent_port_identity.clock_identity.0, pd.parent_port_identity.port_number) };
    (out, prior_states, w)
}

impl Check for C05 {
    fn property(&self) -> &'static str {
        "C05"
    }
    fn family(&self) -> &'static str {
        "c05_state_decision_vs_reference"
    }
    fn budget(&self, tier: Tier) -> u64 {
        match tier {
            Tier::Quick => 300_000,
            Tier::Thorough => 6_000_000,
        }
    }
    fn run(&self, ch: &mut Chooser, _tier: Tier) -> RunOutcome {
        let np = ch.range(S_CFG, 1, 3) as usize;
        let mut out_probe_quality = false;
        let mut spec = NodeSpec::default();
        spec.id = *ch.pick(S_CFG, &OWN_IDS);
        spec.priority1 = *ch.pick(S_CFG, &[128u8, 100, 200]);
        spec.class = *ch.pick(S_CFG, &[248u8, 6, 127, 128]);
        spec.accuracy = *ch.pick(S_CFG, &[0xfeu8, 0x21]);
        spec.variance = *ch.pick(S_CFG, &[0xffffu16, 0x4e5d]);
        spec.priority2 = *ch.pick(S_CFG, &[128u8, 127]);
        spec.slave_only = ch.chance(S_CFG, 1, 6);
        spec.time_props = TimePropsSpec { utc_offset: Some(37), leap: 0, time_traceable: true, freq_traceable: false, ptp_timescale: true, time_source: 0x20 };
        spec.ports.clear();
        let mut prior = Vec::new();
        let mut late_fault = Vec::new();
        for _ in 0..np {
            let mut ps = PortSpec::default();
            ps.filter = FilterKind::Basic(0.25);
            ps.forward_tlvs = false;
            ps.master_only = !spec.slave_only && ch.chance(S_CFG, 1, 5);
            let pr = ch.weighted(S_CFG, &[4, 2, 3, 1]) as u8;
            ps.p2p = pr == 3 || ch.chance(S_CFG, 1, 5);
            late_fault.push(ps.p2p && pr != 3 && ch.chance(S_CFG, 1, 2));
            prior.push(if pr == 1 && spec.slave_only { 0 } else { pr });
            spec.ports.push(ps);
        }
        let nm = ch.range(S_WORK, 1, 3) as usize;
        let table = gm_table(ch);
        let mut masters = Vec::new();
        for k in 0..nm {
            // sender identity relative to the receiver: below / above / same clock as another master but other port
            let sender_kind = ch.choose(S_WORK, 5);
            let clock = match sender_kind {
                0 => [0x02, 0, 0, 0, 0, 0, 0, 0x20 + k as u8], // below every own id used
                1 => [0xf0, 0, 0, 0, 0, 0, 0, 0x20 + k as u8], // above
                2 => [0x41, 0, 0, 0, 0, 0, 0, 0x20 + k as u8], // between
                3 if k > 0 => masters.get(0).map(|m: &MasterSpec| m.pid.clock).unwrap_or([0x02, 0, 0, 0, 0, 0, 0, 0x20]), // same clock, other port
                _ => [0x03, 0, 0, 0, 0, 0, 0, 0x20 + k as u8],
            };
            let pid = Pid::new(clock, (k + 1) as u16);
            let gm1 = gm_from_domains(ch, &table);
            let gm2 = if ch.chance(S_WORK, 1, 3) { gm_from_domains(ch, &table) } else { gm1.clone() };
            masters.push(MasterSpec { pid, port: ch.choose(S_WORK, np as u64) as usize, gm1, gm2, in_round1: ch.boolean(S_WORK), seq: *ch.pick(S_WORK, &[10u16, 65535, 40000]) });
        }
        for p in 0..np {
            // "prior via round 1" only makes sense if a round-1 master sits on that port
            if prior[p] == 2 && !masters.iter().any(|m| m.port == p && m.in_round1) {
                prior[p] = 0;
            }
        }
        let warm_bmca = ch.chance(S_WORK, 1, 3);
        let quality2 = if ch.chance(S_WORK, 1, 4) {
            Some((*ch.pick(S_WORK, &[6u8, 248, 127, 128, 187]), *ch.pick(S_WORK, &[0x21u8, 0xfe]), *ch.pick(S_WORK, &[0x4e5du16, 0xffff])))
        } else {
            None
        };
        let sc = Scenario { spec: spec.clone(), masters: masters.clone(), prior: prior.clone(), late_fault: late_fault.clone(), warm_bmca, quality2 };
        // the own attributes the final BMCA run has to work with
        if let Some((class, acc, var)) = quality2 {
            spec.class = class;
            spec.accuracy = acc;
            spec.variance = var;
            out_probe_quality = true;
        }
        // two interleavings of the round-2 deliveries
        let mut base: Vec<usize> = (0..nm).flat_map(|i| [i, i]).collect();
        let order_a = base.clone();
        ch.shuffle(S_WORK, &mut base);
        let order_b = base;
        let (out_a, prior_states, w) = execute(&sc, &order_a, ch);
        let (out_b, _, w2) = execute(&sc, &order_b, ch);
        drop(w2);
        let mut out = RunOutcome::default();
        let same_clock_senders = masters.iter().enumerate().any(|(i, a)| masters.iter().enumerate().any(|(j, b)| i != j && a.pid.clock == b.pid.clock));
        if out_a != out_b {
            out.violate(
                "C05",
                "C05.outcome_depends_on_announce_order",
                format!("same_clock_two_sender_ports={same_clock_senders}"),
                format!("delivering the same Announces in order {:?} gives {:?}; in order {:?} gives {:?}", order_a, out_a, order_b, out_b),
            );
        }
        // ---- reference model
        let own_cmp = Cmp::own(spec.id, spec.priority1, spec.class, spec.accuracy, spec.variance, spec.priority2);
        // What a master stands for in the final run: its most recent Announce that is qualified at all
        // (stepsRemoved < 255). An Announce with stepsRemoved >= 255 is not registered, so a master
        // whose round-2 Announces carry 255+ is still represented by its two round-1 Announces (they
        // are inside the four-interval window) - or not at all if it was silent in round 1.
        let eff: Vec<Option<GmData>> = masters
            .iter()
            .map(|m| {
                if m.gm2.steps_removed < 255 {
                    Some(m.gm2.clone())
                } else if m.in_round1 && m.gm1.steps_removed < 255 {
                    Some(m.gm1.clone())
                } else {
                    None
                }
            })
            .collect();
        let mut erbest: Vec<Option<(Cmp, usize)>> = vec![None; np]; // (data, master index)
        let mut tie_somewhere = false;
        for p in 0..np {
            let cands: Vec<(Cmp, usize)> = masters
                .iter()
                .enumerate()
                .filter(|(i, m)| m.port == p && eff[*i].is_some() && m.pid.clock != spec.id)
                .map(|(i, m)| (Cmp::from_announce(&eff[i].as_ref().unwrap().body(), m.pid, Pid::new(spec.id, (p + 1) as u16)), i))
                .collect();
            let cmps: Vec<Cmp> = cands.iter().map(|c| c.0).collect();
            if let Some((bi, tie)) = model::best_of(&cmps, true) {
                tie_somewhere |= tie;
                erbest[p] = Some(cands[bi]);
            }
        }
        // Ebest over ports that are neither master-only nor faulty
        let mut ebest: Option<(Cmp, usize, usize)> = None; // data, port, master
        for p in 0..np {
            if spec.ports[p].master_only || prior_states[p] == PState::Faulty {
                continue;
            }
            if let Some((c, mi)) = erbest[p] {
                ebest = match ebest {
                    None => Some((c, p, mi)),
                    Some((bc, bp, bm)) => {
                        let r = model::compare(&c, &bc, true);
                        if r.a_wins() {
                            Some((c, p, mi))
                        } else {
                            if !r.b_wins() {
                                tie_somewhere = true;
                            }
                            Some((bc, bp, bm))
                        }
                    }
                };
            }
        }
        let mut want_states = prior_states.clone();
        let mut any_m12 = false;
        let mut any_s1: Option<usize> = None;
        let mut decisions = Vec::new();
        for p in 0..np {
            let d = model::state_decision(
                &own_cmp,
                spec.class,
                prior_states[p] == PState::Listening,
                erbest[p].as_ref().map(|e| &e.0),
                ebest.as_ref().map(|e| (&e.0, e.1)),
                p,
                true,
            );
            decisions.push(d);
            let faulty = prior_states[p] == PState::Faulty;
            match d {
                Decision::Keep => {}
                Decision::M1 | Decision::M2 | Decision::M3 => {
                    if matches!(d, Decision::M1 | Decision::M2) {
                        any_m12 = true;
                    }
                    if !faulty {
                        want_states[p] = if spec.slave_only {
                            PState::Listening
                        } else {
                            PState::Master
                        };
                    }
                }
                Decision::P1 | Decision::P2 => {
                    if !faulty {
                        want_states[p] = PState::Passive;
                    }
                }
                Decision::S1 => {
                    if !faulty {
                        want_states[p] = PState::Slave;
                    }
                    any_s1 = ebest.map(|e| e.2);
                }
            }
        }
        let key = format!("np={} slave_only={} class_low={} tie={}", np, spec.slave_only, (1..=127).contains(&spec.class), tie_somewhere || same_clock_senders);
        // Where two candidates are indistinguishable for statime's comparison (two sender ports of one
        // clock at equal stepsRemoved: the standard breaks the tie on the sender's port number, statime
        // treats it as "error-2" and falls back to message age) there is no unique reference outcome;
        // those cases are judged by the order-independence oracle above only.
        // A master that only its round-1 Announces still speak for (its newer ones are unqualified) has
        // effectively fallen silent: whether its older messages still qualify it at this run depends on
        // how many of them earlier BMCA runs consumed, which the statement leaves open ("stops being
        // considered within a bounded number of intervals"). No unique reference outcome then.
        let leftover_only = masters.iter().any(|m| m.gm2.steps_removed >= 255 && m.in_round1 && m.gm1.steps_removed < 255);
        if leftover_only {
            out.probe("candidate_known_only_from_older_announces_reference_comparison_skipped");
        }
        let unique = !(tie_somewhere || same_clock_senders || leftover_only);
        if !unique {
            out.probe("tie_between_candidates_reference_comparison_skipped");
        }
        if out_probe_quality {
            out.probe("own_quality_changed_at_run_time_before_final_bmca");
        }
        if unique && out_a.states != want_states {
            out.violate(
                "C05",
                "C05.port_states_differ_from_reference",
                key.clone(),
                format!("states after BMCA {:?}, reference says {:?} (decisions {:?}, prior {:?}, master-only {:?}); own {:?}; ebest {:?}; masters {:?}", out_a.states, want_states, decisions, prior_states, spec.ports.iter().map(|p| p.master_only).collect::<Vec<_>>(), own_cmp, ebest, masters.iter().map(|m| (m.pid.short(), m.port, m.in_round1, format!("{:?}", m.gm1), format!("{:?}", m.gm2))).collect::<Vec<_>>()),
            );
        }
        // data sets
        if !unique {
        } else if any_m12 {
            let v = &out_a.view;
            if v.gm_identity != spec.id || v.steps_removed != 0 || v.gm_priority1 != spec.priority1 || v.gm_priority2 != spec.priority2 || v.gm_class != spec.class || v.gm_accuracy != spec.accuracy || v.gm_variance != spec.variance || out_a.parent != Pid::new(spec.id, 0) {
                out.violate("C05", "C05.data_sets_after_m1_m2", key.clone(), format!("decision M1/M2 but data sets are {:?} parent {:?}", v, out_a.parent));
            }
            let want_flags = flag::UTC_VALID | flag::PTP_TIMESCALE | flag::TIME_TRACEABLE;
            if v.flags != want_flags || v.time_source != 0x20 || v.utc_offset != 37 {
                out.violate("C05", "C05.time_properties_after_m1_m2", String::new(), format!("decision M1/M2: timePropertiesDS flags {:#06x} timeSource {:#x} utcOffset {}; the instance was configured with flags {:#06x} timeSource 0x20 utcOffset 37", v.flags, v.time_source, v.utc_offset, want_flags));
            }
        } else if let Some(mi) = any_s1 {
            let m = &masters[mi];
            let g = eff[mi].clone().unwrap_or_else(|| m.gm2.clone());
            let mut f = announce_frame(m.pid, 0, &g, 0, 0, 0);
            f.hdr.flags = g.flags;
            let mut want = view_of_announce(&f.hdr, &g.body());
            want.steps_removed += 1;
            if out_a.view != want || out_a.parent != m.pid {
                out.violate(
                    "C05",
                    "C05.data_sets_after_s1",
                    key.clone(),
                    format!("decision S1 from master {} ({:?}) but data sets are {:?} parent {:?}; expected {:?}", mi, m.pid, out_a.view, out_a.parent, want),
                );
            }
        }
        // the selected parent is never worse than any other qualified candidate
        if let (Some(sp), Some((bc, _, _))) = (out_a.states.iter().position(|s| *s == PState::Slave), ebest) {
            if let Some((mi, m)) = masters.iter().enumerate().find(|(_, m)| m.pid == out_a.parent) {
                let g = eff[mi].clone().unwrap_or_else(|| m.gm2.clone());
                let c = Cmp::from_announce(&g.body(), m.pid, Pid::new(spec.id, (sp + 1) as u16));
                if model::compare(&bc, &c, true).a_wins() && unique {
                    out.violate("C05", "C05.selected_parent_worse_than_candidate", key.clone(), format!("parent {:?} compares worse than qualified candidate {:?}", c, bc));
                }
            }
        }
        let w_out = w.finish();
        out.probes = w_out.probes;
        out.events = w_out.events;
        out.digest = w_out.digest;
        out.states = w_out.states;
        for v in w_out.violations {
            out.violations.push(v);
        }
        out.nontrivial = true;
        out.oracle_evals = 2;
        let mut sh = vcommon::Fnv::new();
        for d in &decisions {
            sh.byte(*d as u8);
        }
        for s in &prior_states {
            sh.byte(s.code());
        }
        sh.byte(spec.slave_only as u8);
        for p in &spec.ports {
            sh.byte(p.master_only as u8);
        }
        out.shape = sh.finish();
        for d in &decisions {
            out.probe(&format!("decision.{:?}", d));
        }
        out.sample = Some(json!({"ports": np, "slave_only": spec.slave_only, "own": format!("{:?}", own_cmp), "prior_states": format!("{:?}", prior_states), "decisions": format!("{:?}", decisions),
            "masters": masters.iter().map(|m| json!({"pid": m.pid.short(), "on_port": m.port, "p1": m.gm2.priority1, "class": m.gm2.class, "steps": m.gm2.steps_removed, "gm": m.gm2.identity[7]})).collect::<Vec<_>>(),
            "result_states": format!("{:?}", out_a.states)}));
        out
    }
}
