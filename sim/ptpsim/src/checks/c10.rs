//! C10 - master-side messages carry exact timestamps and consistent
//! identifiers; sequence numbers advance by one modulo 2^16; every frame is
//! decodable by the library's own parser and fits the advertised size.

use crate::clock::*;
use crate::host::*;
use crate::wire::*;
use serde_json::json;
use statime::port::MAX_DATA_LEN;
use std::collections::BTreeMap;
use vcommon::tape::*;
use vcommon::{Check, Chooser, RunOutcome, Tier};

pub struct C10;

const OWN: [u8; 8] = [0x33, 0x44, 0, 0xff, 0xfe, 0, 0, 0x01];
const TOL: i128 = 1 << 16;

#[derive(Clone, Debug)]
struct PendingReq {
    src: Pid,
    seq: u16,
    corr: i64,
    rx: u128,
    pdelay: bool,
}

impl Check for C10 {
    fn property(&self) -> &'static str {
        "C10"
    }
    fn family(&self) -> &'static str {
        "c10_master_port_histories"
    }
    fn budget(&self, tier: Tier) -> u64 {
        match tier {
            Tier::Quick => 5000,
            Tier::Thorough => 100_000,
        }
    }
    fn run(&self, ch: &mut Chooser, _tier: Tier) -> RunOutcome {
        let mut w = World::new();
        w.hostf.random_ties = ch.boolean(S_CFG);
        let long = ch.chance(S_CFG, 1, 40);
        let p2p = ch.chance(S_CFG, 1, 3);
        let domain = *ch.pick(S_CFG, &[0u8, 1, 127, 255]);
        let sdo = *ch.pick(S_CFG, &[0u16, 0x100, 0xfff, 0x2a5]);
        let mut spec = NodeSpec::default();
        spec.id = OWN;
        spec.domain = domain;
        spec.sdo = sdo;
        spec.class = *ch.pick(S_CFG, &[248u8, 6]);
        let log = if long { -3 } else { *ch.pick(S_CFG, &[0i8, -1, -3, 1]) };
        spec.ports[0].announce_log = log;
        spec.ports[0].sync_log = log;
        spec.ports[0].delay_log = *ch.pick(S_CFG, &[0i8, 2, -4, 5]);
        spec.ports[0].receipt_timeout = 2;
        spec.ports[0].p2p = p2p;
        spec.ports[0].minor = ch.choose(S_CFG, 2) as u8;
        spec.ports[0].forward_tlvs = false;
        spec.ports[0].filter = FilterKind::Basic(0.25);
        // clock anywhere in the PTP range, with sub-ns phase and a drift so stamps sweep sub-ns values
        let secs: u128 = *ch.pick(S_CFG, &[1_700_000_000u128, 5, (1u128 << 48) - 100_000, 4_294_967_290, 999_999_999_999]);
        spec.clock_start = (secs * SEC + ch.choose(S_CFG, 1_000_000_000) as u128 * NS + ch.choose(S_CFG, 1 << 32) as u128) as i128;
        spec.drift_ppt = ch.irange(S_CFG, -100_000_000, 100_000_000);
        spec.quantum_ns = *ch.pick(S_CFG, &[0u64, 0, 1, 8]);
        let seg = w.add_segment(10 * US, 0);
        spec.ports[0].segment = Some(seg);
        w.attach_script(seg, 0);
        match ch.choose(S_CFG, 4) {
            1 => {
                w.hostf.tx_ts_late_ppm = 200_000;
                w.hostf.tx_ts_late_max = 3 * MS;
            }
            2 => {
                // a timestamp may be reported after the next Sync has already left
                w.hostf.tx_ts_late_ppm = 150_000;
                w.hostf.tx_ts_late_max = HostPort::interval_units(log) * 5 / 2;
            }
            _ => {}
        }
        w.add_node(spec.clone(), ch);
        let own = Pid::new(OWN, 1);
        let i_units = HostPort::interval_units(log);
        let n_intervals: u128 = if long { 70_000 } else { ch.range(S_WORK, 20, 200) as u128 };
        let t_master = (2 * 2 + 2) as u128 * i_units;
        let end = t_master + n_intervals * i_units;
        // scripted requesters inject requests at tape-chosen instants
        let n_req = if long { 300 } else { ch.range(S_WORK, 0, 30) };
        for k in 0..n_req {
            let at = t_master + ch.choose(S_WORK, (n_intervals * i_units / US) as u64) as u128 * US;
            w.schedule_script(at, 200, k, 0);
        }
        // on a peer-to-peer port, in a third of the runs, one of the port's own Pdelay_Req is answered
        // by two responders: the port turns Faulty - and must go on answering its neighbours' requests
        let make_faulty = p2p && ch.chance(S_WORK, 1, 3);
        if make_faulty {
            let at = t_master + ch.choose(S_WORK, (n_intervals * i_units / US) as u64) as u128 * US;
            w.schedule_script(at, 201, 0, 0);
        }
        let mut last_seq: BTreeMap<u8, u16> = BTreeMap::new();
        let mut counts: BTreeMap<&'static str, u64> = BTreeMap::new();
        let mut pending_fu: Vec<(u16, u128, u64)> = Vec::new(); // sync seq, tx stamp, emitted seq
        let mut pending_pfu: Vec<(Pid, u16, u128)> = Vec::new(); // pdelay resp awaiting follow-up: requester, seq, resp tx stamp
        let mut reqs: Vec<PendingReq> = Vec::new();
        let mut processed = 0usize;
        let mut viol: Vec<(String, String, String)> = Vec::new();
        let mut wrap_seen = false;
        let mut own_buf = [0u8; 2048];
        let mut reser_diff = 0u64;
        loop {
            let st = w.step(ch, end);
            let Some(st) = st else { break };
            if let Stepped::Script { tag: 201, .. } = st {
                // (a port that has never been slave has not started its own peer delay requests yet:
                // let its delay request timer fire once)
                w.host_call(0, 0, HostCall::Timer(T_DELAY), ch);
                let seq = w.emitted.iter().rev().find_map(|e| Frame::decode(&e.bytes).ok().filter(|f| f.hdr.msg_type == MsgType::PdelayReq && f.hdr.source == own).map(|f| f.hdr.seq));
                if let Some(seq) = seq {
                    for r in 0..2u8 {
                        let mut f = Frame::new(MsgType::PdelayResp, Pid::new([0xee, r, 0, 0, 0, 0, 0, 1], 1), seq, Body::PdelayResp { request_receipt: Ts { secs: 1_700_000_000, nanos: 5 }, requesting: own });
                        f.hdr.domain = domain;
                        f.hdr.sdo_id = sdo;
                        let rx = w.nodes[0].ports[0].stamp_clock.borrow().stamp_at(w.now());
                        w.host_call(0, 0, HostCall::RxEvent(std::rc::Rc::new(f.encode()), rx), ch);
                    }
                    if w.nodes[0].ports[0].state() == PState::Faulty {
                        w.out.fault("port_made_faulty_by_two_pdelay_responders");
                    } else {
                        w.out.probe(&format!("two_pdelay_responders_but_state_{:?}", w.nodes[0].ports[0].state()));
                    }
                } else {
                    w.out.probe("two_pdelay_responders_planned_but_no_own_request_found");
                }
            }
            if let Stepped::Script { tag: 200, .. } = st {
                // inject a request with arbitrary header
                let pdelay = if p2p { ch.chance(S_WORK, 2, 3) } else { ch.chance(S_WORK, 1, 6) };
                let src = Pid::new([ch.choose(S_WORK, 256) as u8, 1, 2, 3, 4, 5, 6, ch.choose(S_WORK, 256) as u8], *ch.pick(S_WORK, &[1u16, 0, 65535, 77]));
                let seq = *ch.pick(S_WORK, &[0u16, 1, 65535, 32768, 12345]);
                let corr: i64 = *ch.pick(S_WORK, &[0i64, 1, -1, 0x7fff_0000, -0x1_0000, 1_000_000 << 16, -(5_000 << 16) + 0x8000]);
                let mut f = if pdelay {
                    Frame::new(MsgType::PdelayReq, src, seq, Body::PdelayReq { origin: Ts::default() })
                } else {
                    Frame::new(MsgType::DelayReq, src, seq, Body::DelayReq { origin: Ts { secs: 9, nanos: 9 } })
                };
                f.hdr.correction = corr;
                f.hdr.domain = domain;
                f.hdr.sdo_id = sdo;
                f.hdr.flags = *ch.pick(S_WORK, &[0u16, flag::UNICAST, flag::TWO_STEP, 0x7f7f]);
                f.hdr.minor_version = ch.choose(S_WORK, 2) as u8;
                // deliver now; the receive timestamp is taken from the port's clock by the host
                let rx = w.nodes[0].ports[0].stamp_clock.borrow().stamp_at(w.now());
                reqs.push(PendingReq { src, seq, corr, rx, pdelay });
                w.host_call(0, 0, HostCall::RxEvent(std::rc::Rc::new(f.encode()), rx), ch);
            }
            // examine new emissions
            while processed < w.emitted.len() {
                let e = w.emitted[processed].clone();
                processed += 1;
                let bytes: &[u8] = &e.bytes;
                if bytes.len() > MAX_DATA_LEN {
                    viol.push(("C10.frame_exceeds_max_size".into(), String::new(), format!("{} bytes", bytes.len())));
                }
                // the library's own parser, and re-serialisation
                match statime::fuzz::FuzzMessage::deserialize(bytes) {
                    Ok(m) => {
                        own_buf.fill(0);
                        if let Ok(n) = m.serialize(&mut own_buf) {
                            if &own_buf[..n] != bytes {
                                // reserved octets are outside the statement: reported as a probe only
                                reser_diff += 1;
                            }
                        }
                    }
                    Err(err) => viol.push(("C10.frame_rejected_by_own_parser".into(), String::new(), format!("{err} for frame {:02x?}", &bytes[..bytes.len().min(64)]))),
                }
                let Ok(f) = Frame::decode(bytes) else { continue };
                let t = f.hdr.msg_type;
                *counts.entry(t.name()).or_insert(0) += 1;
                if f.hdr.source != own || f.hdr.domain != domain || f.hdr.sdo_id != sdo || f.hdr.version != 2 || f.hdr.length as usize != bytes.len() {
                    viol.push((
                        "C10.wrong_identity_domain_or_length".into(),
                        format!("type={}", t.name()),
                        format!("{} bears source {:?} domain {} sdoId {:#x} version {} length {} (frame {} bytes); expected {:?}/{}/{:#x}", t.name(), f.hdr.source, f.hdr.domain, f.hdr.sdo_id, f.hdr.version, f.hdr.length, bytes.len(), own, domain, sdo),
                    ));
                }
                if f.hdr.control != t.control_field() {
                    viol.push(("C10.wrong_control_field".into(), format!("type={}", t.name()), format!("{}", f.hdr.control)));
                }
                match (&f.body, t) {
                    (Body::Sync { .. }, _) | (Body::Announce(_), _) => {
                        if let Some(prev) = last_seq.get(&(t as u8)) {
                            if f.hdr.seq != prev.wrapping_add(1) {
                                viol.push(("C10.sequence_id_not_plus_one".into(), format!("type={}", t.name()), format!("{} sequenceId {} follows {}", t.name(), f.hdr.seq, prev)));
                            }
                            if f.hdr.seq == 0 && *prev == 65535 {
                                wrap_seen = true;
                            }
                        }
                        last_seq.insert(t as u8, f.hdr.seq);
                        if t == MsgType::Sync {
                            if !f.hdr.flag(flag::TWO_STEP) {
                                viol.push(("C10.sync_not_two_step".into(), String::new(), "statime's master emitted a Sync without twoStepFlag".into()));
                            }
                            pending_fu.push((f.hdr.seq, e.tx_stamp.unwrap_or(0), e.seq));
                        }
                    }
                    (Body::FollowUp { precise_origin }, _) => {
                        match pending_fu.iter().position(|(s, _, _)| *s == f.hdr.seq) {
                            None => viol.push(("C10.follow_up_without_sync".into(), String::new(), format!("Follow_Up #{} has no outstanding Sync", f.hdr.seq))),
                            Some(i) => {
                                let (_, stamp, _) = pending_fu.remove(i);
                                let got = ts_to_units(*precise_origin) + corr_to_units(f.hdr.correction);
                                if (got - stamp as i128).abs() > TOL {
                                    viol.push((
                                        "C10.follow_up_timestamp_inexact".into(),
                                        String::new(),
                                        format!("Follow_Up #{}: preciseOriginTimestamp {:?} + correction {} = {} but the reported TX time is {} (diff {} x 2^-32 ns)", f.hdr.seq, precise_origin, f.hdr.correction, got, stamp, got - stamp as i128),
                                    ));
                                }
                            }
                        }
                    }
                    (Body::DelayResp { receive, requesting }, _) => {
                        match reqs.iter().position(|r| !r.pdelay && r.src == *requesting && r.seq == f.hdr.seq) {
                            None => viol.push(("C10.delay_resp_echo_mismatch".into(), String::new(), format!("Delay_Resp to {:?} #{} answers no request", requesting, f.hdr.seq))),
                            Some(i) => {
                                let r = reqs.remove(i);
                                let got = ts_to_units(*receive) + corr_to_units(f.hdr.correction);
                                let want = r.rx as i128 + corr_to_units(r.corr);
                                if (got - want).abs() > TOL {
                                    viol.push((
                                        "C10.delay_resp_timestamp_inexact".into(),
                                        String::new(),
                                        format!("Delay_Resp #{}: receiveTimestamp {:?} + correction {} = {}, expected rx {} + request correction {} = {}", f.hdr.seq, receive, f.hdr.correction, got, r.rx, r.corr, want),
                                    ));
                                }
                            }
                        }
                    }
                    (Body::PdelayResp { request_receipt, requesting }, _) => {
                        match reqs.iter().position(|r| r.pdelay && r.src == *requesting && r.seq == f.hdr.seq) {
                            None => viol.push(("C10.pdelay_resp_echo_mismatch".into(), String::new(), format!("Pdelay_Resp to {:?} #{} answers no request", requesting, f.hdr.seq))),
                            Some(i) => {
                                let r = reqs.remove(i);
                                if request_receipt.total_ns() != r.rx / NS {
                                    viol.push(("C10.pdelay_resp_receipt_time".into(), String::new(), format!("requestReceiptTimestamp {:?} but request was received at {} ns", request_receipt, r.rx / NS)));
                                }
                                // the times are split over response and follow-up: a receiver only waits for
                                // the follow-up if the response says so
                                if !f.hdr.flag(flag::TWO_STEP) {
                                    viol.push(("C10.pdelay_resp_not_two_step".into(), String::new(), "Pdelay_Resp that is completed by a Pdelay_Resp_Follow_Up lacks twoStepFlag: a peer takes it for a one-step response".into()));
                                }
                                pending_pfu.push((r.src, r.seq, e.tx_stamp.unwrap_or(0)));
                            }
                        }
                    }
                    (Body::PdelayRespFollowUp { response_origin, requesting }, _) => {
                        match pending_pfu.iter().position(|(s, q, _)| s == requesting && *q == f.hdr.seq) {
                            None => viol.push(("C10.pdelay_follow_up_echo_mismatch".into(), String::new(), format!("Pdelay_Resp_Follow_Up to {:?} #{}", requesting, f.hdr.seq))),
                            Some(i) => {
                                let (_, _, stamp) = pending_pfu.remove(i);
                                if response_origin.total_ns() != stamp / NS {
                                    viol.push(("C10.pdelay_follow_up_origin_time".into(), String::new(), format!("responseOriginTimestamp {:?} but the response left at {} ns", response_origin, stamp / NS)));
                                }
                            }
                        }
                    }
                    _ => {}
                }
            }
            if processed > 4096 {
                w.emitted.clear();
                processed = 0;
            }
        }
        // every Sync whose timestamp was reported while the port was Master got exactly one Follow_Up
        let still_master = w.nodes[0].ports[0].state() == PState::Master;
        let outstanding = pending_fu.iter().filter(|(_, _, s)| *s + 50 < w.seq()).count();
        if still_master && outstanding > 0 {
            viol.push(("C10.sync_without_follow_up".into(), String::new(), format!("{outstanding} Syncs never got their Follow_Up although the port stayed Master: {:?}", pending_fu.iter().take(3).collect::<Vec<_>>())));
        }
        // a Pdelay_Req is answered in the same host call, whatever the state of the port
        let pdelay_unanswered: Vec<_> = reqs.iter().filter(|r| r.pdelay).map(|r| (r.src.short(), r.seq)).collect();
        if !pdelay_unanswered.is_empty() {
            viol.push((
                "C10.pdelay_req_unanswered".into(),
                format!("final_state={:?}", w.nodes[0].ports[0].state()),
                format!("{} Pdelay_Req never got a Pdelay_Resp (first: {:?}); port state at the end {:?}", pdelay_unanswered.len(), pdelay_unanswered.first(), w.nodes[0].ports[0].state()),
            ));
        }
        let unanswered = reqs.iter().filter(|r| r.pdelay || !p2p).count();
        // Delay_Req is only answered in the master state and Pdelay_Req always: requests sent before
        // the port became master may stay unanswered, so this is a probe, not an oracle
        w.out.probe_n("requests_unanswered", unanswered as u64);
        for (o, k, m) in viol {
            w.out.violate("C10", &o, k, m);
        }
        for (k, v) in &counts {
            w.out.probe_n(&format!("emitted.{k}"), *v);
        }
        w.out.probe_n("reserialisation_differs_in_reserved_octets", reser_diff);
        if wrap_seen {
            w.out.probe("sequence_wrap_crossed");
        }
        let total: u64 = counts.values().sum();
        w.out.oracle_evals = total;
        w.out.nontrivial = total > 10;
        w.shape.u64(p2p as u64 + 2 * long as u64);
        w.shape.u64(log as u64);
        w.shape.u64(domain as u64 * 4096 + sdo as u64);
        w.shape.u64(spec.quantum_ns + 16 * spec.ports[0].minor as u64);
        w.shape.u64((secs % 1000) as u64);
        w.shape.u64(counts.get("Delay_Resp").copied().unwrap_or(0).min(8) * 16 + counts.get("Pdelay_Resp").copied().unwrap_or(0).min(8));
        w.shape.u64(counts.len() as u64);
        w.out.sample = Some(json!({"p2p": p2p, "long_history": long, "domain": domain, "sdo": sdo, "clock_start_secs": secs.to_string(), "interval_log": log, "emitted": counts, "requests_injected": n_req}));
        w.finish()
    }
}
