//! C15 - boundary clocks propagate TLVs faithfully (real TlvForwarder of the
//! daemon) and break path-trace loops.

use crate::checks::c11::{view_of_node, BC_ID, PARENT_ID, RIVAL_ID};
use crate::clock::*;
use crate::host::*;
use crate::script::*;
use crate::wire::*;
use serde_json::json;
use std::collections::VecDeque;
use vcommon::tape::*;
use vcommon::{guarded, Check, Chooser, RunOutcome, Tier};

pub struct C15;

const STRANGER_ID: [u8; 8] = [0x07, 0, 0, 0, 0, 0, 0, 0x33];
const MAX: usize = 1024;
const ANNOUNCE_LEN: usize = 64;

#[derive(Clone, Debug)]
struct QItem {
    tlv: Tlv,
    sender: Pid,
    n: u64,
}

fn gen_tlv(ch: &mut Chooser, room_hint: usize, n: u64) -> Tlv {
    let typ = *ch.pick(
        S_WORK,
        &[0x4000u16, 0x0009, 0x4001, 0x7f00, 0x7fff, 0x5abc, // propagate
          0x0003, 0x8000, 0x8008, 0x2004, 0x0001, // do not propagate
          0x000a, 0xffff, 0x3000], // reserved
    );
    let len: usize = match ch.choose(S_WORK, 10) {
        0 => 0,
        1 => 2,
        2 => room_hint.saturating_sub(4),                 // wire size == room
        3 => room_hint.saturating_sub(6),                 // one step below
        4 => room_hint.saturating_sub(2),                 // one step above
        5 => 2 * ch.choose(S_WORK, 551) as usize,         // any even length 0..1100
        6 => 956,                                         // == 1024 - 64 - 4: fills an Announce exactly
        7 => 958,
        _ => 2 * ch.choose(S_WORK, 40) as usize,
    };
    let len = len & !1;
    // unique content so that every forwarded TLV is attributable
    let mut value = vec![0u8; len];
    for (i, b) in value.iter_mut().enumerate() {
        *b = (n as u8).wrapping_mul(31).wrapping_add(i as u8);
    }
    if len >= 8 {
        value[..8].copy_from_slice(&n.to_be_bytes());
    }
    Tlv { typ, value }
}

impl Check for C15 {
    fn property(&self) -> &'static str {
        "C15"
    }
    fn family(&self) -> &'static str {
        "c15_tlv_forwarding_and_path_trace"
    }
    fn budget(&self, tier: Tier) -> u64 {
        match tier {
            Tier::Quick => 30_000,
            Tier::Thorough => 600_000,
        }
    }
    fn run(&self, ch: &mut Chooser, _tier: Tier) -> RunOutcome {
        // the whole run is guarded: a panic of the system under test while forwarding is a C15 violation
        let mut partial: Option<RunOutcome> = None;
        let r = guarded(|| run_inner(ch, &mut partial));
        match r {
            Ok(o) => o,
            Err((msg, loc)) => {
                let mut o = partial.take().unwrap_or_default();
                if loc.contains("/verif/") {
                    panic!("harness panic in c15: {msg} at {loc}");
                }
                o.sut_panics.push(format!("{msg} @ {loc}"));
                let site = loc.rsplit('/').next().unwrap_or(&loc).to_string();
                o.violate(
                    "C15",
                    "C15.panic_while_forwarding",
                    format!("site={} msg={}", site.split(':').next().unwrap_or(""), vcommon::truncate(&msg, 60)),
                    format!("the library panicked while handling TLVs / path trace: {msg} at {loc}"),
                );
                o.nontrivial = true;
                o
            }
        }
    }
}

fn run_inner(ch: &mut Chooser, partial: &mut Option<RunOutcome>) -> RunOutcome {
    let mut w = World::new();
    w.keep_rx = true;
    let n_master = ch.range(S_CFG, 1, 3) as usize;
    let log = *ch.pick(S_CFG, &[0i8, -1, -2]);
    let i_units = HostPort::interval_units(log);
    let path_trace = ch.boolean(S_CFG);
    let burst = ch.chance(S_CFG, 1, 8);
    // in a quarter of the runs the parent falls silent for good at some point: the instance takes
    // over as grandmaster (announce receipt timeout and/or BMCA, in either order)
    let parent_dies = ch.chance(S_CFG, 1, 4);
    let receipt_timeout = if parent_dies { ch.range(S_CFG, 2, 4) as u8 } else { 3 };
    let mut spec = NodeSpec::default();
    spec.id = BC_ID;
    spec.path_trace = path_trace;
    spec.bmca_phase_pm = ch.range(S_CFG, 1, 999);
    spec.ports.clear();
    for p in 0..=n_master {
        let seg = w.add_segment(ch.range(S_CFG, 1, 200) as u128 * US, 0);
        w.attach_script(seg, 10 + p);
        let mut ps = PortSpec::default();
        ps.announce_log = log;
        ps.sync_log = log;
        ps.delay_log = log;
        ps.receipt_timeout = receipt_timeout;
        ps.segment = Some(seg);
        ps.filter = FilterKind::Basic(0.25);
        ps.forward_tlvs = true;
        if p == 0 {
            ps.acceptable = Some(vec![PARENT_ID, RIVAL_ID]);
        }
        spec.ports.push(ps);
    }
    w.add_node(spec, ch);
    let own = BC_ID;
    let parent_pid = Pid::new(PARENT_ID, 1);
    let mut parent = RefMaster::new(10, 0, parent_pid, GmData::simple(PARENT_ID, 10), log);
    parent.sync_on = false;
    let mut rival = RefMaster::new(20, 0, Pid::new(RIVAL_ID, 1), GmData::simple(RIVAL_ID, 100), log);
    rival.sync_on = false;
    rival.active = ch.boolean(S_CFG);
    let mut stranger = RefMaster::new(30, 0, Pid::new(STRANGER_ID, 1), GmData::simple(STRANGER_ID, 1), log);
    stranger.sync_on = false;
    stranger.active = ch.boolean(S_CFG);
    w.attach_script(0, 20);
    w.attach_script(0, 30);
    parent.start(&mut w, ch.range(S_CFG, 1, 999) as u128 * i_units / 1000);
    rival.start(&mut w, ch.range(S_CFG, 1, 999) as u128 * i_units / 1000);
    stranger.start(&mut w, ch.range(S_CFG, 1, 999) as u128 * i_units / 1000);
    // phase 1: converge without TLVs (port 0 slave, others master)
    let t_conv = 12 * i_units;
    let n_intervals = ch.range(S_WORK, 6, 24) as u128;
    let death_at = if parent_dies { t_conv + ch.range(S_WORK, 2, n_intervals as u64) as u128 * i_units + ch.choose(S_WORK, 1000) as u128 * i_units / 1000 } else { u128::MAX };
    let end = if parent_dies { death_at + 16 * i_units } else { t_conv + n_intervals * i_units };
    let mut gm_announces_after_takeover = 0u64;
    let mut tlv_counter: u64 = 1;
    let mut queues: Vec<VecDeque<QItem>> = vec![VecDeque::new(); n_master + 1];
    let mut overflowed = vec![false; n_master + 1];
    let mut hol_sticky = vec![false; n_master + 1];
    let mut ambiguous = vec![false; n_master + 1];
    let mut foreign_block = vec![false; n_master + 1];
    let mut last_parent: Vec<Option<Pid>> = vec![None; n_master + 1];
    let mut seen_from_parent: Vec<(Tlv, Pid)> = Vec::new();
    let mut emitted_seen = 0usize;
    let mut rx_seen = 0usize;
    let mut viol: Vec<(String, String, String)> = Vec::new();
    let mut forwarded_ok = 0u64;
    let mut checked_announces = 0u64;
    let mut loops_sent = 0u64;
    let mut script: Vec<String> = Vec::new();
    let mut current_path: Vec<[u8; 8]> = Vec::new();
    let mut last_bmca = 0u64;
    let mut equals_room = 0u64;
    let mut own_buf = vec![0u8; 4096];
    let mut prev: Option<(crate::checks::c11::View, Vec<[u8; 8]>)> = None;
    loop {
        let Some(st) = w.step(ch, end) else { break };
        match st {
            Stepped::Script { tag, a, .. } => {
                let converged = w.now() >= t_conv;
                if parent.active && w.now() >= death_at {
                    parent.active = false;
                    script.push("parent falls silent".into());
                    w.out.fault("parent_silent_for_good");
                }
                if a == 10 && tag == TAG_ANNOUNCE && converged && !parent.active {
                    w.schedule_script(w.now() + i_units, TAG_ANNOUNCE, 10, 0);
                } else if a == 10 && tag == TAG_ANNOUNCE && converged {
                    // parent: generate this Announce's TLV suffix
                    let pt_len = if path_trace { 4 + 8 * (current_path.len() + 1) } else { 0 };
                    let room = MAX - ANNOUNCE_LEN - if pt_len < MAX - ANNOUNCE_LEN { pt_len } else { 0 };
                    let copies = if burst { ch.range(S_WORK, 1, 40) } else { 1 };
                    for _ in 0..copies {
                        let mut tlvs = Vec::new();
                        let mut total = 0usize;
                        // path trace TLV from the parent
                        let mut looped = false;
                        if ch.chance(S_WORK, 1, 2) {
                            let plen = match ch.choose(S_WORK, 8) {
                                0 => 0usize,
                                1 => 117,
                                2 => 118,
                                3 => 119,
                                4 => 128,
                                5 => 129,
                                6 => 200,
                                _ => ch.range(S_WORK, 1, 6) as usize,
                            };
                            let mut path: Vec<[u8; 8]> = (0..plen).map(|i| [0x77, 0, 0, 0, 0, 0, (i >> 8) as u8, i as u8]).collect();
                            if plen > 0 && ch.chance(S_WORK, 1, 4) {
                                let pos = ch.choose(S_WORK, plen as u64) as usize;
                                path[pos] = own;
                                looped = true;
                            }
                            let mut value = Vec::with_capacity(plen * 8);
                            for c in &path {
                                value.extend_from_slice(c);
                            }
                            total += 4 + value.len();
                            tlvs.push(Tlv { typ: TLV_PATH_TRACE, value });
                            if !looped && path_trace {
                                script.push(format!("parent path length {plen}"));
                            }
                            if looped {
                                // a looping Announce always carries changed contents
                                parent.gm.steps_removed = parent.gm.steps_removed.wrapping_add(7) % 200;
                                parent.gm.priority2 = parent.gm.priority2.wrapping_add(1);
                                loops_sent += 1;
                                script.push(format!("parent Announce with own identity in path (len {plen}), stepsRemoved {}", parent.gm.steps_removed));
                            }
                        }
                        let n_tlv = ch.weighted(S_WORK, &[2, 4, 2, 1, 1]);
                        for _ in 0..n_tlv {
                            let t = gen_tlv(ch, room, tlv_counter);
                            tlv_counter += 1;
                            if ANNOUNCE_LEN + total + t.wire_len() > 2040 {
                                continue;
                            }
                            total += t.wire_len();
                            script.push(format!("parent TLV {:#06x} wire {}", t.typ, t.wire_len()));
                            tlvs.push(t);
                        }
                        parent.tlvs = tlvs;
                        // now and then an Announce overtakes its predecessors, or the parent restarts its
                        // counter: the sequenceId is then not newer than the last one seen - it still is an
                        // Announce received from the current parent
                        if ch.chance(S_WORK, 1, 10) {
                            parent.seq_announce = parent.seq_announce.wrapping_sub(ch.range(S_WORK, 2, 4) as u16);
                            w.out.fault("parent_announce_with_older_sequence_id");
                        }
                        parent.send_announce(&mut w, ch);
                    }
                    parent.tlvs.clear();
                    w.schedule_script(w.now() + i_units, TAG_ANNOUNCE, 10, 0);
                } else if (a == 20 || a == 30) && tag == TAG_ANNOUNCE && converged {
                    let m = if a == 20 { &mut rival } else { &mut stranger };
                    if m.active {
                        let t = gen_tlv(ch, 900, tlv_counter);
                        tlv_counter += 1;
                        m.tlvs = vec![t];
                    }
                    m.on_script(&mut w, tag, a, ch);
                    m.tlvs.clear();
                } else if !parent.on_script(&mut w, tag, a, ch) && !rival.on_script(&mut w, tag, a, ch) {
                    stranger.on_script(&mut w, tag, a, ch);
                }
            }
            Stepped::ScriptRx { .. } => {}
            _ => {}
        }
        let node = &w.nodes[0];
        if node.bmca_count != last_bmca {
            last_bmca = node.bmca_count;
        }
        // ---- deliveries to port 0: model of what is queued for the master ports
        while rx_seen < w.rx_log.len() {
            let r = w.rx_log[rx_seen].clone();
            rx_seen += 1;
            if r.event || r.port != 0 {
                continue;
            }
            let Ok(f) = Frame::decode(&r.bytes) else { continue };
            if f.announce().is_none() {
                continue;
            }
            if std::env::var("VERIF_TRACE").is_ok() {
                eprintln!("t={:.3} RX port0 from {} seq {} tlvs {:?} state_before {:?} summary {:?}", tt_to_secs(r.at), f.hdr.source.short(), f.hdr.seq, f.tlvs.iter().map(|t| (t.typ, t.value.len())).collect::<Vec<_>>(), r.state_before, r.summary);
            }
            let accepted = f.hdr.source.clock == PARENT_ID || f.hdr.source.clock == RIVAL_ID;
            let pt = f.tlvs.iter().find(|t| t.typ == TLV_PATH_TRACE);
            let pdn0 = node.inst.parent_ds();
            let parent_now0 = Pid::new(pdn0.parent_port_identity.clock_identity.0, pdn0.parent_port_identity.port_number);
            let looped = path_trace && f.hdr.source == parent_now0 && pt.map(|t| t.value.chunks_exact(8).any(|c| c == own)).unwrap_or(false);
            if looped && r.state_before == PState::Slave {
                // must be discarded: nothing changes. The view before the delivery is the one implied
                // by the last accepted (non-looping) Announce of the parent.
                let after = view_of_node(node);
                let path_after: Vec<[u8; 8]> = node.inst.path_trace_ds().list.iter().map(|c| c.0).collect();
                let a = f.announce().unwrap();
                if let Some((before, path_before)) = &prev {
                    if after != *before {
                        viol.push((
                            "C15.looping_announce_not_discarded".into(),
                            "adopted=data_sets".into(),
                            format!("an Announce from the parent whose path trace contains the instance's own identity was adopted: data sets went from stepsRemoved {} priority2 {} to stepsRemoved {} priority2 {} (the looping Announce said {} / {})", before.steps_removed, before.gm_priority2, after.steps_removed, after.gm_priority2, a.steps_removed, a.gm_priority2),
                        ));
                    }
                    if path_after != *path_before {
                        viol.push(("C15.looping_announce_not_discarded".into(), "adopted=path".into(), format!("path_trace_ds changed on a looping Announce: {} -> {} entries", path_before.len(), path_after.len())));
                    }
                }
                if r.summary.tlvs_forwarded > 0 || r.summary.timers[T_RECEIPT] {
                    // forwarding the TLVs of a discarded Announce / treating it as a sign of life
                    viol.push(("C15.looping_announce_not_discarded".into(), "adopted=actions".into(), format!("a looping Announce produced {} ForwardTLV actions / receipt timer reset {}", r.summary.tlvs_forwarded, r.summary.timers[T_RECEIPT])));
                }
                continue;
            }
            let ends_empty = f.tlvs.last().map(|t| t.value.is_empty()).unwrap_or(false);
            if accepted && ends_empty && r.summary.n_actions == 0 {
                // statime's TLV parser rejects a suffix whose last TLV has a zero-length value, so the
                // whole Announce is dropped as malformed; its propagating TLVs are never forwarded
                if f.tlvs.iter().any(|t| Tlv::propagates(t.typ)) && f.hdr.source == parent_now0 {
                    viol.push((
                        "C15.announce_ending_in_empty_tlv_dropped".into(),
                        String::new(),
                        format!("an Announce from the parent whose last TLV has an empty value ({:?}) was ignored entirely: no ForwardTLV action, no receipt-timer reset", f.tlvs.iter().map(|t| (t.typ, t.value.len())).collect::<Vec<_>>()),
                    ));
                }
                continue;
            }
            if accepted {
                if f.hdr.source == parent_now0 && r.state_before == PState::Slave && path_trace {
                    if let Some(t) = pt {
                        // the data set holds at most 128 identities (MAX_DATA_LEN / 8); a longer received
                        // path cannot be re-emitted anyway (it no longer fits an Announce)
                        current_path = t.value.chunks_exact(8).take(128).map(|c| <[u8; 8]>::try_from(c).unwrap()).collect();
                        let got: Vec<[u8; 8]> = node.inst.path_trace_ds().list.iter().map(|c| c.0).collect();
                        if got != current_path {
                            viol.push(("C15.path_trace_ds_not_updated".into(), String::new(), format!("path_trace_ds has {} entries after a parent Announce with {} entries", got.len(), current_path.len())));
                        }
                    } else {
                        // the parent reports no path: none is known, in particular not an earlier parent's
                        current_path.clear();
                        let got = node.inst.path_trace_ds().list.len();
                        if got != 0 {
                            viol.push(("C15.path_trace_ds_not_updated".into(), "parent_announce_without_path_trace=true".into(), format!("path_trace_ds still has {got} entries after a parent Announce that carries no PATH_TRACE TLV (emitted Announces would carry a path the parent never reported)")));
                        }
                    }
                }
                let mut n_prop = 0;
                for t in &f.tlvs {
                    if Tlv::propagates(t.typ) {
                        n_prop += 1;
                        seen_from_parent.push((t.clone(), f.hdr.source));
                        for (qi, q) in queues.iter_mut().enumerate() {
                            q.push_back(QItem { tlv: t.clone(), sender: f.hdr.source, n: tlv_counter });
                            // the daemon's broadcast channel holds 128 entries per receiver (+1 peeked)
                            if q.len() > 128 {
                                overflowed[qi] = true;
                            }
                        }
                    }
                }
                if r.summary.tlvs_forwarded as usize != n_prop {
                    viol.push((
                        "C15.forward_actions_mismatch".into(),
                        String::new(),
                        format!("an accepted Announce with {} propagating TLVs (of {}) produced {} ForwardTLV actions", n_prop, f.tlvs.len(), r.summary.tlvs_forwarded),
                    ));
                }
            } else if r.summary.tlvs_forwarded > 0 {
                viol.push(("C15.tlv_forwarded_from_unacceptable_sender".into(), String::new(), format!("{} ForwardTLV actions for an Announce from {:?}", r.summary.tlvs_forwarded, f.hdr.source)));
            }
        }
        // ---- an announce timer on a Master port must yield an Announce
        if let Some((0, p, "handle_announce_timer", sum)) = &w.last_call {
            if node.ports[*p].state() == PState::Master && sum.general_sends == 0 && w.now() >= t_conv {
                viol.push(("C15.announce_not_sent".into(), String::new(), format!("announce timer of master port {p} produced no Announce")));
            }
        }
        w.last_call = None;
        // ---- emissions of the master ports
        while emitted_seen < w.emitted.len() {
            let e = w.emitted[emitted_seen].clone();
            emitted_seen += 1;
            let Ok(f) = Frame::decode(&e.bytes) else { continue };
            if f.announce().is_none() || w.now() < t_conv {
                continue;
            }
            checked_announces += 1;
            let p = e.port;
            if std::env::var("VERIF_TRACE").is_ok() {
                eprintln!("t={:.3} TX port{} announce seq {} tlvs {:?} states {:?}", tt_to_secs(e.at), p, f.hdr.seq, f.tlvs.iter().map(|t| (t.typ, t.value.len())).collect::<Vec<_>>(), node.states());
            }
            if e.bytes.len() > MAX {
                viol.push(("C15.frame_exceeds_max_size".into(), String::new(), format!("Announce of {} bytes", e.bytes.len())));
            }
            own_buf.fill(0);
            if let Err(err) = statime::fuzz::FuzzMessage::deserialize(&e.bytes) {
                let last_empty = f.tlvs.last().map(|t| t.value.is_empty()).unwrap_or(false);
                viol.push((
                    "C15.emitted_announce_rejected_by_own_parser".into(),
                    format!("last_tlv_empty={last_empty}"),
                    format!("statime's own parser rejects an Announce it emitted ({err}); TLVs {:?}", f.tlvs.iter().map(|t| (t.typ, t.value.len())).collect::<Vec<_>>()),
                ));
            }
            let pdn = node.inst.parent_ds();
            let parent_now = Pid::new(pdn.parent_port_identity.clock_identity.0, pdn.parent_port_identity.port_number);
            // expected suffix
            let mut emitted_tlvs: VecDeque<Tlv> = f.tlvs.iter().cloned().collect();
            let mut room = MAX - ANNOUNCE_LEN;
            if path_trace && parent_now.clock == own {
                // the data sets say the instance is grandmaster: there is no parent whose path could be
                // carried, the Announce holds the instance's own identity only
                gm_announces_after_takeover += 1;
                let pt = f.tlvs.iter().find(|t| t.typ == TLV_PATH_TRACE);
                if pt.map(|t| t.value != own.to_vec()).unwrap_or(false) {
                    viol.push((
                        "C15.grandmaster_announce_carries_foreign_path".into(),
                        String::new(),
                        format!("port {p}: the instance is grandmaster (parentDS names itself) but its Announce carries a path of {} identities", pt.map(|t| t.value.len() / 8).unwrap_or(0)),
                    ));
                }
            }
            if path_trace {
                let mut want = Vec::new();
                for c in node.inst.path_trace_ds().list.iter() {
                    want.extend_from_slice(&c.0);
                }
                want.extend_from_slice(&own);
                let size = 4 + want.len();
                if size < room {
                    match emitted_tlvs.pop_front() {
                        Some(t) if t.typ == TLV_PATH_TRACE && t.value == want => {
                            room -= size;
                        }
                        other => {
                            viol.push((
                                "C15.path_trace_tlv_wrong".into(),
                                String::new(),
                                format!("port {p}: first TLV should be PATH_TRACE with {} identities (received path + own), got {:?}", want.len() / 8, other.map(|t| (t.typ, t.value.len()))),
                            ));
                            if let Some(t) = f.tlvs.first() {
                                if t.typ == TLV_PATH_TRACE {
                                    room -= t.wire_len().min(room);
                                }
                            }
                        }
                    }
                }
            }
            // "from the current parent": if the parent changes while TLVs are queued, whether "current"
            // means at reception or at emission is a matter of reading - strict comparison is suspended
            if last_parent[p].map(|lp| lp != parent_now).unwrap_or(false) {
                ambiguous[p] = true;
            }
            last_parent[p] = Some(parent_now);
            // walk the model queue
            let room_after_pt = room;
            let q = &mut queues[p];
            let mut expected: Vec<QItem> = Vec::new();
            let mut hol_oversize = hol_sticky[p];
            let idx = 0;
            while idx < q.len() {
                let it = &q[idx];
                let size = it.tlv.wire_len();
                // "fits in an Announce at all": in an Announce that carries nothing else but the
                // path trace TLV this port emits right now
                let fits_at_all = size <= room_after_pt;
                if !fits_at_all && size <= MAX - ANNOUNCE_LEN {
                    // would fit an Announce without the path trace TLV: whether "fits at all" holds is a
                    // matter of reading; the strict comparison is suspended for this port
                    ambiguous[p] = true;
                }
                if !fits_at_all {
                    // (whoever sent it) nothing is promised for it, but it must not hold up the rest
                    hol_oversize = true;
                    hol_sticky[p] = true;
                    q.remove(idx);
                    continue;
                }
                if it.sender != parent_now || (path_trace && it.tlv.typ == TLV_PATH_TRACE) {
                    if size > room {
                        // a TLV that is not to be forwarded anyway but is larger than the room left
                        foreign_block[p] = true;
                    }
                    q.remove(idx);
                    continue;
                }
                if false {
                    // too large for any Announce: nothing is promised for it, but it must not hold up the rest
                    hol_oversize = true;
                    hol_sticky[p] = true;
                    q.remove(idx);
                    continue;
                }
                if size <= room {
                    if size == room {
                        equals_room += 1;
                    }
                    room -= size;
                    expected.push(q.remove(idx).unwrap());
                    continue;
                }
                break; // keep arrival order: wait for the next Announce
            }
            let _ = idx;
            if std::env::var("VERIF_TRACE").is_ok() {
                eprintln!("      model port{} expected {:?} then queue head {:?} (len {}) overflowed {} ambiguous {} parent_now {}", p, expected.iter().map(|i| (i.tlv.typ, i.tlv.wire_len())).collect::<Vec<_>>(), q.iter().take(4).map(|i| (i.tlv.typ, i.tlv.wire_len(), i.sender.short())).collect::<Vec<_>>(), q.len(), overflowed[p], ambiguous[p], parent_now.short());
            }
            let got: Vec<Tlv> = emitted_tlvs.into_iter().collect();
            let exp_tlvs: Vec<&Tlv> = expected.iter().map(|i| &i.tlv).collect();
            let same = got.len() == exp_tlvs.len() && got.iter().zip(exp_tlvs.iter()).all(|(a, b)| a == *b);
            if same {
                forwarded_ok += got.len() as u64;
            } else if overflowed[p] || ambiguous[p] {
                // forwarder overflow is the only permitted loss, and after a first divergence the model can
                // no longer know what the real queue holds: safety only - every forwarded TLV must be one
                // that was received unmodified from a parent and is of a propagating type
                // (a divergence under overflow leaves the model queue out of step with the real one for
                // good: which entries the daemon's broadcast channel dropped is not observable)
                overflowed[p] = q.len() > 128;
                ambiguous[p] = true;
                for g in &got {
                    if !seen_from_parent.iter().any(|(t, s)| t == g && *s == parent_now) || !Tlv::propagates(g.typ) {
                        viol.push(("C15.forwarded_tlv_not_queued".into(), "lenient=true".into(), format!("port {p} forwarded TLV {:#06x}/{} that was never received from a parent (or is not propagating)", g.typ, g.value.len())));
                        break;
                    }
                }
            } else {
                let missing: Vec<_> = expected.iter().filter(|i| !got.contains(&i.tlv)).map(|i| (i.tlv.typ, i.tlv.wire_len())).collect();
                let extra: Vec<_> = got.iter().filter(|g| !exp_tlvs.contains(g)).map(|g| (g.typ, g.wire_len())).collect();
                let key = if !extra.is_empty() {
                    "kind=unexpected_tlv_forwarded".to_string()
                } else if hol_oversize {
                    "kind=blocked_behind_tlv_too_large_for_any_announce".to_string()
                } else if foreign_block[p] {
                    "kind=held_up_by_discardable_tlv_larger_than_room".to_string()
                } else if !missing.is_empty() {
                    "kind=eligible_tlv_missing".to_string()
                } else {
                    "kind=order".to_string()
                };
                viol.push((
                    "C15.forwarded_tlvs_differ_from_model".into(),
                    key,
                    format!("port {p} Announce carries {:?}; expected (arrival order, from the parent, propagating, fitting) {:?}; missing {:?} extra {:?}", got.iter().map(|g| (g.typ, g.wire_len())).collect::<Vec<_>>(), exp_tlvs.iter().map(|g| (g.typ, g.wire_len())).collect::<Vec<_>>(), missing, extra),
                ));
                // one divergence is reported once; afterwards only safety is checked on this port
                q.clear();
                ambiguous[p] = true;
            }
        }
        if emitted_seen > 1024 {
            w.emitted.clear();
            emitted_seen = 0;
        }
        if rx_seen > 1024 {
            w.rx_log.clear();
            rx_seen = 0;
        }
        prev = Some((view_of_node(&w.nodes[0]), w.nodes[0].inst.path_trace_ds().list.iter().map(|c| c.0).collect()));
        // keep a partial outcome for the panic path
        if partial.is_none() {
            *partial = Some(RunOutcome::default());
        }
    }
    for (o, k, m) in viol {
        w.out.violate("C15", &o, k, m);
    }
    w.out.probe_n("announces_checked", checked_announces);
    w.out.probe_n("tlvs_forwarded_as_expected", forwarded_ok);
    w.out.probe_n("looping_announces_sent", loops_sent);
    w.out.probe_n("announces_as_grandmaster_after_parent_loss", if parent_dies { gm_announces_after_takeover } else { 0 });
    w.out.probe_n("tlv_wire_size_equals_remaining_room", equals_room);
    if burst {
        w.out.probe("burst_run");
    }
    if overflowed.iter().any(|o| *o) {
        w.out.probe("forwarder_overflow");
    }
    w.out.nontrivial = checked_announces > 3 && (forwarded_ok > 0 || loops_sent > 0);
    w.out.oracle_evals = checked_announces;
    for s in script.iter().take(40) {
        let c: String = s.chars().filter(|c| !c.is_ascii_digit()).collect();
        w.shape.str(&c);
    }
    w.shape.u64(forwarded_ok.min(30));
    w.out.sample = Some(json!({"master_ports": n_master, "path_trace": path_trace, "burst": burst, "interval_log": log, "script": script.iter().take(40).collect::<Vec<_>>(), "announces_checked": checked_announces, "tlvs_forwarded": forwarded_ok}));
    w.finish()
}
