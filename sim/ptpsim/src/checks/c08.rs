//! C08 - ports act only within their role; at most one port steers the clock.
//! The oracles are the monitors of `host.rs` (run after every host call); this
//! file supplies the dedicated random-history driver over the full alphabet.

use crate::driver::*;
use serde_json::json;
use vcommon::{Check, Chooser, RunOutcome, Tier};

pub struct C08Driver;

impl Check for C08Driver {
    fn property(&self) -> &'static str {
        "C08"
    }
    fn family(&self) -> &'static str {
        "c08_random_history"
    }
    fn budget(&self, tier: Tier) -> u64 {
        match tier {
            Tier::Quick => 30_000,
            Tier::Thorough => 500_000,
        }
    }
    fn run(&self, ch: &mut Chooser, tier: Tier) -> RunOutcome {
        let cfg = DriverCfg {
            wild_timers: true,
            runtime_changes: true,
            depth: if tier == Tier::Thorough { 400 } else { 60 },
            host_faults: true,
            recording_filter: false,
            max_ports: 3,
            shared_segments: true,
        };
        let mut d = Driver::new(ch, cfg);
        d.w.keep_emitted = false;
        d.run_history(ch);
        // let things settle for a few intervals so late effects surface
        let t = d.w.now() + 6 * d.i_units;
        d.advance(ch, t);
        d.w.out.nontrivial = d.w.transitions >= 1;
        d.w.out.oracle_evals = d.w.events;
        let ops = d.ops.len();
        d.w.out.sample = Some(json!({"node": d.node_desc, "ops": d.ops.iter().take(80).collect::<Vec<_>>(), "n_ops": ops}));
        d.w.finish()
    }
}
