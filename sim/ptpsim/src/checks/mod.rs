//! Registry of all simulated checks (property -> scenario families).

pub mod c01;
pub mod c02;
pub mod c03;
pub mod c05;
pub mod c06;
pub mod c07;
pub mod c08;
pub mod c09;
pub mod c10;
pub mod c11;
pub mod c12;
pub mod c13;
pub mod c14;
pub mod c15;
pub mod c18;

use vcommon::{Check, Chooser, EvidenceExtras, RunOutcome, Tier};

/// Run another property's scenario family for the sake of the always-on monitors: the runs
/// count (and are reported) under `property`, only violations of `property` are reported there.
pub struct Reuse {
    pub property: &'static str,
    pub family: &'static str,
    pub inner: Box<dyn Check>,
    pub quick_runs: u64,
    pub thorough_runs: u64,
}

impl Check for Reuse {
    fn property(&self) -> &'static str {
        self.property
    }
    fn family(&self) -> &'static str {
        self.family
    }
    fn budget(&self, tier: Tier) -> u64 {
        match tier {
            Tier::Quick => self.quick_runs,
            Tier::Thorough => self.thorough_runs,
        }
    }
    fn run(&self, ch: &mut Chooser, tier: Tier) -> RunOutcome {
        self.inner.run(ch, tier)
    }
}

fn c01_exact() -> c01::C01 {
    c01::C01 { family: "c01_net_exact_timers", skew: false, noisy: false, quick_runs: 12_000, thorough_runs: 200_000 }
}
fn c01_noisy() -> c01::C01 {
    c01::C01 { family: "c01_net_noisy_prelude", skew: true, noisy: true, quick_runs: 4000, thorough_runs: 100_000 }
}
fn c02_free() -> c02::C02 {
    c02::C02 { family: "c02_closed_loop_fault_free", faults: false, p2p: false, switch: false, servo_stress: false, quick_runs: 8000, thorough_runs: 200_000 }
}
fn c02_faults() -> c02::C02 {
    c02::C02 { family: "c02_closed_loop_faults_then_quiet", faults: true, p2p: false, switch: false, servo_stress: false, quick_runs: 3000, thorough_runs: 100_000 }
}

pub fn all() -> Vec<Box<dyn Check>> {
    let mut v: Vec<Box<dyn Check>> = Vec::new();
    v.push(Box::new(c01::C01 { family: "c01_net_exact_timers", skew: false, noisy: false, quick_runs: 20_000, thorough_runs: 400_000 }));
    v.push(Box::new(c01::C01 { family: "c01_net_skewed_timers", skew: true, noisy: false, quick_runs: 12_000, thorough_runs: 300_000 }));
    v.push(Box::new(c01::C01 { family: "c01_net_noisy_prelude", skew: true, noisy: true, quick_runs: 8000, thorough_runs: 200_000 }));
    v.push(Box::new(c02::C02 { family: "c02_closed_loop_fault_free", faults: false, p2p: false, switch: false, servo_stress: false, quick_runs: 8000, thorough_runs: 200_000 }));
    v.push(Box::new(c02::C02 { family: "c02_closed_loop_faults_then_quiet", faults: true, p2p: false, switch: false, servo_stress: false, quick_runs: 3000, thorough_runs: 100_000 }));
    v.push(Box::new(c02::C02 { family: "c02_closed_loop_peer_delay", faults: false, p2p: true, switch: false, servo_stress: false, quick_runs: 3000, thorough_runs: 100_000 }));
    v.push(Box::new(c02::C02 { family: "c02_closed_loop_master_change", faults: false, p2p: false, switch: true, servo_stress: false, quick_runs: 2500, thorough_runs: 80_000 }));
    v.push(Box::new(c03::C03));
    // the servos under hostile and long measurement histories, in both build profiles of C03
    v.push(Box::new(Reuse { property: "C03", family: "c03_closed_loop_servo_configs_and_wander", inner: Box::new(c02::C02 { family: "c02_servo_stress", faults: false, p2p: false, switch: false, servo_stress: true, quick_runs: 600, thorough_runs: 20_000 }), quick_runs: 600, thorough_runs: 20_000 }));
    v.push(Box::new(Reuse { property: "C13", family: "c13_monitor_on_servo_configs_and_wander", inner: Box::new(c02::C02 { family: "c02_servo_stress", faults: false, p2p: false, switch: false, servo_stress: true, quick_runs: 600, thorough_runs: 20_000 }), quick_runs: 600, thorough_runs: 20_000 }));
    v.push(Box::new(Reuse { property: "C03", family: "c03_filter_histories", inner: Box::new(c13::C13Direct), quick_runs: 40_000, thorough_runs: 1_000_000 }));
    v.push(Box::new(c05::C05));
    v.push(Box::new(c06::C06));
    v.push(Box::new(c07::C07));
    v.push(Box::new(c08::C08Driver));
    v.push(Box::new(c09::C09));
    v.push(Box::new(c10::C10));
    v.push(Box::new(c11::C11));
    v.push(Box::new(c12::C12));
    v.push(Box::new(c13::C13Direct));
    v.push(Box::new(c14::C14));
    v.push(Box::new(c15::C15));
    v.push(Box::new(c18::C18));
    v.push(Box::new(Reuse { property: "C14", family: "c14_monitor_on_random_history", inner: Box::new(c08::C08Driver), quick_runs: 12000, thorough_runs: 180000 }));
    v.push(Box::new(Reuse { property: "C13", family: "c13_monitor_on_closed_loop_faults", inner: Box::new(c02_faults()), quick_runs: 3200, thorough_runs: 90000 }));
    v.push(Box::new(Reuse { property: "C13", family: "c13_monitor_on_closed_loop_peer_delay", inner: Box::new(c02::C02 { family: "c02_closed_loop_peer_delay", faults: false, p2p: true, switch: false, servo_stress: false, quick_runs: 1600, thorough_runs: 40000 }), quick_runs: 1600, thorough_runs: 40000 }));
    v.push(Box::new(Reuse { property: "C13", family: "c13_monitor_on_random_history", inner: Box::new(c08::C08Driver), quick_runs: 12000, thorough_runs: 180000 }));
    v.push(Box::new(Reuse { property: "C13", family: "c13_monitor_on_noisy_networks", inner: Box::new(c01_noisy()), quick_runs: 2400, thorough_runs: 60000 }));
    v.push(Box::new(Reuse { property: "C08", family: "c08_monitor_on_networks", inner: Box::new(c01_noisy()), quick_runs: 3200, thorough_runs: 90000 }));
    v.push(Box::new(Reuse { property: "C08", family: "c08_monitor_on_faithful_history", inner: Box::new(c12::C12), quick_runs: 8000, thorough_runs: 120000 }));
    v.push(Box::new(Reuse { property: "C12", family: "c12_timer_cover_on_networks", inner: Box::new(C12Net(c01_exact())), quick_runs: 4000, thorough_runs: 90000 }));
    v.push(Box::new(Reuse { property: "C12", family: "c12_timer_cover_on_boundary_clock_tlvs", inner: Box::new(TimerCover(Box::new(c15::C15))), quick_runs: 8000, thorough_runs: 150000 }));
    v.push(Box::new(Reuse { property: "C10", family: "c10_sequence_monitor_on_random_history", inner: Box::new(c08::C08Driver), quick_runs: 12000, thorough_runs: 180000 }));
    v.push(Box::new(Reuse { property: "C10", family: "c10_sequence_monitor_on_networks", inner: Box::new(c01_noisy()), quick_runs: 1600, thorough_runs: 40000 }));
    // C17 part 1: the nesting-detecting lock runs in every scenario; these families report it
    v.push(Box::new(Reuse { property: "C17", family: "c17_lock_depth_on_random_history", inner: Box::new(c08::C08Driver), quick_runs: 16000, thorough_runs: 300000 }));
    v.push(Box::new(Reuse { property: "C17", family: "c17_lock_depth_on_networks", inner: Box::new(c01_noisy()), quick_runs: 2400, thorough_runs: 60000 }));
    v.push(Box::new(Reuse { property: "C17", family: "c17_lock_depth_on_boundary_clock_tlvs", inner: Box::new(c15::C15), quick_runs: 8000, thorough_runs: 150000 }));
    v.push(Box::new(Reuse { property: "C17", family: "c17_lock_depth_on_chaos_host", inner: Box::new(c03::C03), quick_runs: 12000, thorough_runs: 180000 }));
    let _ = c02_free;
    v
}

/// any faithful-host scenario with the timer-cover monitor switched on
pub struct TimerCover(pub Box<dyn Check>);
impl Check for TimerCover {
    fn property(&self) -> &'static str {
        "C12"
    }
    fn family(&self) -> &'static str {
        "c12_timer_cover_inner"
    }
    fn budget(&self, tier: Tier) -> u64 {
        self.0.budget(tier)
    }
    fn run(&self, ch: &mut Chooser, tier: Tier) -> RunOutcome {
        crate::host::TIMER_COVER_DEFAULT.with(|c| c.set(true));
        let o = self.0.run(ch, tier);
        crate::host::TIMER_COVER_DEFAULT.with(|c| c.set(false));
        o
    }
}

/// C01 networks with the timer-cover monitor switched on (faithful host throughout)
pub struct C12Net(pub c01::C01);
impl Check for C12Net {
    fn property(&self) -> &'static str {
        "C12"
    }
    fn family(&self) -> &'static str {
        "c12_timer_cover_on_networks_inner"
    }
    fn budget(&self, tier: Tier) -> u64 {
        self.0.budget(tier)
    }
    fn run(&self, ch: &mut Chooser, tier: Tier) -> RunOutcome {
        crate::host::TIMER_COVER_DEFAULT.with(|c| c.set(true));
        let o = self.0.run(ch, tier);
        crate::host::TIMER_COVER_DEFAULT.with(|c| c.set(false));
        o
    }
}

const REAL: &[&str] = &[
    "statime::PtpInstance", "statime::port::Port (all of port/*)", "statime::bmc::*", "statime::datastructures::* (codec)",
    "statime::time::*", "statime::filters::{KalmanFilter,BasicFilter}", "statime_linux::tlvforwarder::TlvForwarder",
];
const STUB: &[&str] = &[
    "statime-linux/src/main.rs task plumbing (port_task, run, handle_actions, Timer) -> ptpsim::host::{HostNode,HostPort,World}",
    "kernel/NIC/PHC/timestamped-socket/clock-steering/LinuxClock -> SimNet segments + SimClock",
    "non-statime PTP peers -> scripted peers speaking through the independent reference codec (ptpsim::wire)",
];

pub fn extras(property: &str) -> EvidenceExtras {
    let mut e = EvidenceExtras::default();
    e.level = "exploration".into();
    e.components_real = REAL.iter().map(|s| s.to_string()).collect();
    e.components_stub = STUB.iter().map(|s| s.to_string()).collect();
    e.assumptions = vec![
        "the host model (HostPort/HostNode) mirrors statime-linux/src/main.rs: one-shot re-armable timers, send-then-report-TX-timestamp, stop-the-world BMCA every bmca_interval()".into(),
        "sampling, not enumeration: the verdict covers the seeded runs listed under coverage only".into(),
    ];
    match property {
        "C01" => {
            e.rule = "each run = one generated network (2-6/8 nodes, ordinary + boundary clocks, shared segments, optional rings and two-ports-on-one-segment, slave-only and clockClass<128 nodes, point-to-point links optionally using the peer delay mechanism, in a quarter of the networks announce intervals that differ per segment by up to 2^2) simulated through convergence, a hold window, one fault script (cut/heal, silence/unsilence, restart, quality change) and a second hold window; non-trivial = converged window evaluated and fault script applied (or no applicable fault); distinct = distinct event-shape fingerprint (hash of the sequence of event kinds, state transitions and oracle phases)".into();
        }
        "C02" => {
            e.rule = "each run = one closed loop (statime master or scripted one-step master <-> statime slave with the real Kalman servo acting on a simulated oscillator) at one point of the parameter box (offset +-10 s, drift +-150 ppm, delay 1-400 us, jitter 0-20 us, sync/delay interval 2^-3..2^1 s, timestamp quantum 0/1/8 ns, transmit-timestamp latency 0 / 0.1 / 1.5 / 10 ms so that a Delay_Req timestamp may arrive after its Delay_Resp; one family over the peer delay mechanism); non-trivial = the port became slave and the bound was evaluated after the settle time; distinct = distinct (parameter class, state-transition sequence) fingerprint".into();
            e.assumptions.push("bound B = max(1 us, 1.5 J + 2 q); settle time 60 s + 150 I + 250 I^2/s calibrated on the unchanged tree with a margin >= 2x and frozen".into());
        }
        "C03" => {
            e.rule = "each run = one instance with 1-3 ports in a random configuration (E2E/P2P, path trace, slave-only, master-only, acceptable-master lists, Kalman or basic filter, real TlvForwarder) driven through 20-80 (thorough: -400) host calls: the random-history driver (valid traffic that walks the ports through every state, timers in any order, BMCA, run-time setting changes, late/lost TX timestamps) interleaved with hostile operations (frames with mutated header fields, boundary timestamps and correction fields, TLVs sized at every buffer margin, path traces of 0..246 entries, truncated / padded / length-rewritten / raw frames up to 2048 bytes, arbitrary receive and transmit timestamps in [0, 2^63 ns), failing clocks); every operation runs under catch_unwind; the whole batch is run twice, in the release profile and in the `checked` profile (debug-assertions + overflow-checks); non-trivial = at least one port state transition or a panic; distinct = operation-kind sequence".into();
        }
        "C05" => {
            e.rule = "each run = one instance (1-3 ports, own attributes from small domains, slave-only / master-only flags, prior port states Listening / Master by timeout / Slave-Passive by an earlier BMCA round / Faulty by a two-responder Pdelay exchange) and up to three scripted masters (grandmaster attributes and stepsRemoved 0,1,2,3,254 from small domains, sender identity below / above / between / same clock other port, on tape-chosen ports) each delivering two Announces in a tape-chosen interleaving, optionally a warm-up BMCA run and a run-time change of the own clock quality (set_clock_quality) before them, then PtpInstance::bmca; the resulting port states and data sets are compared with the reference implementation of Figures 33-35 and with the outcome of a second interleaving; non-trivial = every run; distinct = (decision vector, prior states, flags) fingerprint".into();
        }
        "C06" => {
            e.rule = "each run = one ordinary clock (normal, clockClass<128 or slave-only) and 1-3 (one run in 12: nine) scripted masters whose Announce arrivals over 16 intervals are drawn per interval from {present, absent, duplicated with the same sequenceId, stale sequenceId, two delivered out of order}, sequence ids straddling 65535->0, stepsRemoved 254/255/300, one master bearing the instance's own clock identity; BMCA phase from the tape; after every BMCA run the observed parent is checked against an arrival-time model (necessary, sufficient, expiry); non-trivial = the port was slave at some BMCA run; distinct = arrival-pattern fingerprint".into();
        }
        "C07" => {
            e.rule = "each run = one generated host history (random-history driver with a faithful host: masters appearing / disappearing, Sync/Follow_Up/Delay traffic, late and lost TX timestamps, run-time setting changes, 1-3 ports with random configuration) executed twice from the same tape; the second world additionally receives 1-8 noise frames of the classes of the statement (other domain, other sdoId, versionPTP != 2, malformed, Announce from an unacceptable master, Announce with the port's own identity, Sync/Follow_Up/Delay_Resp from a non-parent, Delay_Resp for another requester) at tape-chosen positions; after every operation both worlds are compared (emitted frames, timers, data sets, clock commands, full Debug dump of every port incl. instance state, foreign-master records and RNG), with a long quiet tail; non-trivial = at least one noise frame delivered; distinct = history transition fingerprint x noise-class sequence".into();
        }
        "C08" => {
            e.rule = "each run = one generated history over the host-call alphabet (timers armed or not, BMCA, Announces from better/worse/own/unacceptable masters, Sync/Follow_Up/Delay_Resp/Pdelay traffic, TX timestamps prompt/late/lost, run-time slave-only and quality changes) on an instance with 1-3 ports in random master-only/slave-only/E2E/P2P configuration, or one generated network; role invariants are evaluated after every host call; non-trivial = at least one port state transition; distinct = distinct state-transition sequence fingerprint".into();
        }
        "C09" => {
            e.rule = "each run = a slave port with a recording filter and a scripted parent; up to three Sync(/Follow_Up) exchanges and up to three Delay_Req/Delay_Resp exchanges (one-step or two-step, decoys from a non-parent and for another requester) whose constituent events are interleaved, duplicated and dropped by the tape; every measurement is compared with the formula on one exchange in exact 2^-32 ns integers; non-trivial = at least one measurement produced; distinct = distinct (event-kind sequence, measurement count) fingerprint".into();
        }
        "C10" => {
            e.rule = "each run = one master port (E2E or P2P, any domain/sdoId/minor version, clock started anywhere in the PTP range with sub-ns phase and drift, TX timestamps prompt or late) driven by its timers for 20-200 intervals (one run in 40: 70 000 intervals to cross the sequence wrap) while scripted requesters inject Delay_Req / Pdelay_Req with arbitrary header fields; every emitted frame is decoded by the reference codec and by statime's own parser; plus the per-port sequence-id monitor (Announce, Sync, Delay_Req, Pdelay_Req ids advance by one per emission across role changes, faults and idle timers) on random histories and generated networks; non-trivial = more than 10 frames emitted; distinct = (mode, frame-type set, transition sequence) fingerprint".into();
        }
        "C14" => {
            e.rule = "each run = a P2P port (started Listening, Master or Slave) with a recording filter, one to three consecutive Pdelay requests answered by one or two scripted responders (one-step / two-step) whose events (TX timestamp, Pdelay_Resp, Pdelay_Resp_Follow_Up, duplicates, omissions, responses for another requester, announce receipt timer, BMCA) are interleaved by the tape; exact integer formula check per measurement, Faulty entry/exit rules; plus the Faulty-role monitors on random histories; non-trivial = a measurement was produced or a second responder appeared; distinct = event-kind sequence fingerprint".into();
        }
        "C11" => {
            e.rule = "each run = a 2-3 port boundary clock between a scripted parent (Announce contents redrawn at tape-chosen times: flags, utcOffset, timeSource, quality, priorities, stepsRemoved 0..254, grandmaster identity), a competing master (both announcing at the instance's rate, up to 8x faster or 2x slower; ports of the instance with differing announce intervals), parent silences and run-time set_clock_quality; every emitted Announce is compared field by field with the data-set getters, with the parent's last Announce (+1 step) and with the instance's own attributes; non-trivial = Announces were emitted while a port was slave; distinct = change-script fingerprint plus transition sequence".into();
        }
        "C15" => {
            e.rule = "each run = a boundary clock (one slave port, 1-3 master ports sharing the daemon's real TlvForwarder) whose scripted parent, another acceptable master and an unacceptable sender attach generated TLV suffixes to their Announces (propagating / non-propagating / reserved types, even lengths 0..1100 incl. sizes equal to, just below and just above the room left, path traces of 0..200 entries incl. looping ones, bursts beyond the forwarder capacity); each emitted Announce is compared with a per-port model queue; non-trivial = Announces checked and at least one TLV forwarded or looping Announce sent; distinct = TLV script fingerprint".into();
        }
        "C17" => {
            e.rule = "part 1: every host call of every simulated history (random histories, noisy networks, boundary-clock TLV forwarding, chaos host) runs over a PtpInstanceStateMutex that counts acquisition depth and reports any with_ref/with_mut entered while one is active; part 2 (merged from /verif/c17): the unmodified Port/PtpInstance code driven from 2-3 port threads, an observer, a BMCA coordinator and a settings thread under shuttle's random and PCT schedulers over a shuttle RwLock, checking depth <= 1, no deadlock/panic and that every snapshot (getters and emitted Announces) is explained by one update generation; non-trivial = at least one state transition (part 1) / every schedule (part 2); distinct = transition fingerprint / schedule fingerprint".into();
            e.components_real.push("statime::PtpInstanceStateMutex call sites (all of port/*, ptp_instance.rs)".into());
            e.components_stub.push("std::sync::RwLock -> depth-counting RefCell lock (part 1), shuttle::sync::RwLock (part 2; no writer preference, so a nested read is reported by the depth monitor rather than by a real hang)".into());
        }
        "C18" => {
            e.rule = "each run = one OverlayClock (plain or behind SharedClock) over a simulated underlying clock started anywhere in the PTP range, driven through a history of 1-50 operations from {set_frequency(ppm in [-500,500], multiples of 2^-10 so the fixed-point conversion is exact), step_clock(+-10 s incl. sub-ns), advance the underlying clock by 0..10^4 s}; after every operation the reading, the returned time and time_from_underlying are compared with an affine reference model in exact 2^-32 ns integers; non-trivial = at least two operations; distinct = operation-kind sequence".into();
            e.components_real = vec!["statime::OverlayClock".into(), "statime::SharedClock".into()];
            e.components_stub = vec!["underlying clock -> SimClock (the daemon uses LinuxClock)".into()];
        }
        "C12" => {
            e.rule = "each run = a generated history with a faithful host (timers armed and fired exactly as requested; lost/late TX timestamps, masters appearing/disappearing, second peer-delay responders) followed by (a) total silence or (b) a steadily announcing better master; plus the timer-cover monitor (no port state without the timer that would end it) on generated networks and on the boundary-clock TLV-forwarding scenario of C15; non-trivial = phase 2 evaluated; distinct = (variant, start states, transition sequence) fingerprint".into();
        }
        "C13" => {
            e.rule = "adversarial measurement histories (offsets 0..+-1e9 s, equal/backward/future event times, identical entries, alternating sync/delay/peer-delay kinds, interleaved update()) on KalmanFilter and BasicFilter with random positive configurations and a clock failing commands intermittently, plus the command monitor on closed-loop, random-history and network scenarios; non-trivial = at least one clock command issued; distinct = distinct command-sequence / transition fingerprint".into();
        }
        _ => {}
    }
    e
}
