//! Registry of all simulated checks (property -> scenario families).

pub mod c01;
pub mod c08;
pub mod c12;

use vcommon::{Check, EvidenceExtras};

pub fn all() -> Vec<Box<dyn Check>> {
    let mut v: Vec<Box<dyn Check>> = Vec::new();
    v.push(Box::new(c01::C01 { family: "c01_net_exact_timers", skew: false, noisy: false, quick_runs: 3000, thorough_runs: 60000 }));
    v.push(Box::new(c01::C01 { family: "c01_net_skewed_timers", skew: true, noisy: false, quick_runs: 2000, thorough_runs: 40000 }));
    v.push(Box::new(c01::C01 { family: "c01_net_noisy_prelude", skew: true, noisy: true, quick_runs: 1000, thorough_runs: 40000 }));
    v.push(Box::new(c08::C08Driver));
    v.push(Box::new(c12::C12));
    v
}

const REAL: &[&str] = &[
    "statime::PtpInstance", "statime::port::Port (all of port/*)", "statime::bmc::*", "statime::datastructures::* (codec)",
    "statime::time::*", "statime::filters::{KalmanFilter,BasicFilter}", "statime_linux::tlvforwarder::TlvForwarder",
];
const STUB: &[&str] = &[
    "statime-linux/src/main.rs task plumbing (port_task, run, handle_actions, Timer) -> ptpsim::host::{HostNode,HostPort,World}",
    "kernel/NIC/PHC/timestamped-socket/clock-steering/LinuxClock -> SimNet segments + SimClock",
    "non-statime PTP peers -> scripted peers speaking through the independent reference codec (ptpsim::wire)",
];

pub fn extras(property: &str) -> EvidenceExtras {
    let mut e = EvidenceExtras::default();
    e.level = "exploration".into();
    e.components_real = REAL.iter().map(|s| s.to_string()).collect();
    e.components_stub = STUB.iter().map(|s| s.to_string()).collect();
    e.assumptions = vec![
        "the host model (HostPort/HostNode) mirrors statime-linux/src/main.rs: one-shot re-armable timers, send-then-report-TX-timestamp, stop-the-world BMCA every bmca_interval()".into(),
        "sampling, not enumeration: the verdict covers the seeded runs listed under coverage only".into(),
    ];
    match property {
        "C01" => {
            e.rule = "each run = one generated network (2-6/8 nodes, ordinary + boundary clocks, shared segments, optional rings and two-ports-on-one-segment, slave-only and clockClass<128 nodes) simulated through convergence, a hold window, one fault script (cut/heal, silence/unsilence, restart, quality change) and a second hold window; non-trivial = converged window evaluated and fault script applied (or no applicable fault); distinct = distinct event-shape fingerprint (hash of the sequence of event kinds, state transitions and oracle phases)".into();
        }
        _ => {}
    }
    e
}
