//! C12 - no stuck states: from every reached state, with a faithful host, the
//! port progresses (a) to Master and a steady Announce/Sync cadence once the
//! network is silent, (b) to Slave with a steady delay-request cadence while a
//! better master announces. Structural companion: armed timers cover the state.

use crate::clock::*;
use crate::driver::*;
use crate::host::*;
use crate::script::GmData;
use crate::wire::{Frame, MsgType};
use serde_json::json;
use vcommon::tape::*;
use vcommon::{Check, Chooser, RunOutcome, Tier};

pub struct C12;

fn emissions(w: &World, port: usize, t: MsgType, from: Tt) -> Vec<Tt> {
    w.emitted
        .iter()
        .filter(|e| e.node == 0 && e.port == port && e.at >= from)
        .filter(|e| Frame::decode(&e.bytes).map(|f| f.hdr.msg_type == t).unwrap_or(false))
        .map(|e| e.at)
        .collect()
}

fn cadence(out: &mut RunOutcome, what: &str, times: &[Tt], from: Tt, to: Tt, interval: Tt, max_gap_num: u128, max_gap_den: u128, min_per_interval_den: u128, key: String) {
    // gaps (including from the window start to the first and from the last to the window end)
    let mut prev = from;
    let mut worst = 0;
    for t in times.iter().chain(std::iter::once(&to)) {
        worst = worst.max(*t - prev);
        prev = *t;
    }
    let limit = interval * max_gap_num / max_gap_den;
    if worst > limit {
        out.violate(
            "C12",
            &format!("C12.{what}_cadence_gap"),
            key.clone(),
            format!("gap of {:.3}s between {what} emissions (limit {:.3}s, interval {:.3}s) in window {:.3}s..{:.3}s; {} emissions", tt_to_secs(worst), tt_to_secs(limit), tt_to_secs(interval), tt_to_secs(from), tt_to_secs(to), times.len()),
        );
    }
    let n_int = (to - from) / interval;
    let need = (n_int / min_per_interval_den).saturating_sub(1);
    if (times.len() as u128) < need {
        out.violate("C12", &format!("C12.{what}_too_few"), key, format!("{} {what} emissions in {} intervals, expected at least {}", times.len(), n_int, need));
    }
}

impl Check for C12 {
    fn property(&self) -> &'static str {
        "C12"
    }
    fn family(&self) -> &'static str {
        "c12_history_then_progress"
    }
    fn budget(&self, tier: Tier) -> u64 {
        match tier {
            Tier::Quick => 25_000,
            Tier::Thorough => 500_000,
        }
    }
    fn run(&self, ch: &mut Chooser, tier: Tier) -> RunOutcome {
        let cfg = DriverCfg {
            wild_timers: false,
            runtime_changes: true,
            depth: if tier == Tier::Thorough { 200 } else { 40 },
            host_faults: true,
            recording_filter: false,
            max_ports: 3,
            shared_segments: true,
        };
        let mut d = Driver::new(ch, cfg);
        d.w.timer_cover = true;
        d.w.keep_emitted = false;
        d.run_history(ch);
        // ---- faults stop here
        d.w.faults_on = false;
        d.w.keep_emitted = true;
        let np = d.nports();
        let variant_b = ch.boolean(S_WORK);
        let start_states = d.w.nodes[0].states();
        let slave_only = d.w.nodes[0].inst.default_ds().slave_only;
        let own_class = d.w.nodes[0].inst.default_ds().clock_quality.clock_class;
        d.w.shape.byte(if variant_b { 0xB2 } else { 0xB1 });
        for s in &start_states {
            d.w.shape.byte(s.code());
        }
        let mut desc = json!({"node": d.node_desc, "ops": d.ops.iter().take(60).collect::<Vec<_>>(), "n_ops": d.ops.len(), "start_states": format!("{:?}", start_states), "slave_only_now": slave_only});
        if !variant_b {
            // (a) total silence: nothing is heard any more, not even the instance's own other ports
            d.silence_all();
            for sg in d.w.segments.iter_mut() {
                sg.cut = true;
            }
            let tmax = d.w.nodes[0].ports.iter().map(|p| (2 * p.spec.receipt_timeout as u128 + 6) * p.announce_interval()).max().unwrap();
            let t1 = d.w.now() + tmax;
            d.advance(ch, t1);
            let imax = d.w.nodes[0].ports.iter().map(|p| p.announce_interval().max(p.sync_interval())).max().unwrap();
            let t2 = t1 + 30 * imax;
            d.advance(ch, t2);
            for pi in 0..np {
                let hp = &d.w.nodes[0].ports[pi];
                let st = hp.state();
                let key = format!("variant=silence start={:?} p2p={} master_only={} receipt_timer_armed={}", start_states[pi], hp.spec.p2p, hp.spec.master_only, hp.armed(T_RECEIPT));
                if st == PState::Faulty || start_states[pi] == PState::Faulty {
                    d.w.out.probe("phase2.faulty_port_excepted");
                    continue;
                }
                if slave_only {
                    if st == PState::Master {
                        d.w.out.violate("C12", "C12.slave_only_became_master", key, "slave-only instance has a Master port after silence".to_string());
                    }
                    continue;
                }
                let (ai, si) = (hp.announce_interval(), hp.sync_interval());
                let mut out = std::mem::take(&mut d.w.out);
                out.oracle_evals += 1;
                if st != PState::Master {
                    out.violate("C12", "C12.not_master_after_silence", key.clone(), format!("port {pi} is {:?} {:.1}s after the network fell silent (bound {:.1}s); start state {:?}", st, tt_to_secs(t2 - (t1 - tmax)), tt_to_secs(tmax), start_states[pi]));
                } else {
                    let ann = emissions(&d.w, pi, MsgType::Announce, t1);
                    let syn = emissions(&d.w, pi, MsgType::Sync, t1);
                    cadence(&mut out, "announce", &ann, t1, t2, ai, 11, 10, 1, key.clone());
                    cadence(&mut out, "sync", &syn, t1, t2, si, 11, 10, 1, key.clone());
                }
                d.w.out = out;
            }
            desc["variant"] = json!("silence");
        } else {
            // (b) a steadily announcing better master on one port
            let p = ch.choose(S_WORK, np as u64) as usize;
            d.silence_all();
            {
                let m = &mut d.masters[3 * p];
                m.gm = GmData::simple(BETTER_ID, 1);
                m.active = true;
                m.announce_on = true;
                m.sync_on = true;
            }
            // a second pdelay responder would keep the port Faulty: excluded by the premise
            // ports of the instance that share the segment hear the same master: one of them becomes
            // its slave (the others passive); bounds over the group, verdict on the one that is slave
            let seg_p = d.w.nodes[0].ports[p].segment;
            let group: Vec<usize> = (0..np).filter(|q| d.w.nodes[0].ports[*q].segment == seg_p).collect();
            let bound = group.iter().map(|q| (2 * d.w.nodes[0].ports[*q].spec.receipt_timeout as u128 + 8) * d.w.nodes[0].ports[*q].announce_interval()).max().unwrap();
            let di_max = group.iter().map(|q| d.w.nodes[0].ports[*q].delay_interval().max(hp_ai(&d, *q))).max().unwrap();
            let t1 = d.w.now() + bound;
            d.advance(ch, t1);
            let t2 = t1 + 24 * di_max;
            d.advance(ch, t2);
            let p = group.iter().copied().find(|q| d.w.nodes[0].ports[*q].state() == PState::Slave).unwrap_or(p);
            let hp = &d.w.nodes[0].ports[p];
            let di = hp.delay_interval();
            let st = hp.state();
            let key = format!("variant=better_master start={:?} p2p={} master_only={}", start_states[p], hp.spec.p2p, hp.spec.master_only);
            let may_be_slave = !hp.spec.master_only && !(1..=127).contains(&own_class);
            let mut out = std::mem::take(&mut d.w.out);
            out.oracle_evals += 1;
            if !may_be_slave {
                out.probe("phase2.port_may_not_be_slave");
                if st == PState::Slave {
                    out.violate("C08", "C08.master_only_port_is_slave", key.clone(), "master-only port became slave".to_string());
                }
            } else if st != PState::Slave {
                out.violate("C12", "C12.not_slave_of_better_master", key.clone(), format!("port {p} is {:?} although a better master has been announcing for {:.1}s (bound {:.1}s); start state {:?}", st, tt_to_secs(t2 - (t1 - bound)), tt_to_secs(bound), start_states[p]));
            } else {
                let t = if hp.spec.p2p { MsgType::PdelayReq } else { MsgType::DelayReq };
                let reqs = emissions(&d.w, p, t, t1);
                // the library draws U(0,2) x interval between requests
                cadence(&mut out, "delay_request", &reqs, t1, t2, di, 21, 10, 4, key.clone());
                // and it must stay slave: no own Announce/Sync
                let ann = emissions(&d.w, p, MsgType::Announce, t1);
                if !ann.is_empty() {
                    out.violate("C12", "C12.slave_left_steady_master", key.clone(), format!("port {p} emitted {} Announces of its own while a better master kept announcing", ann.len()));
                }
            }
            d.w.out = out;
            desc["variant"] = json!("better_master");
            desc["port"] = json!(p);
            desc["final_states"] = json!(format!("{:?}", d.w.nodes[0].states()));
            desc["state_transitions_of_the_instance_so_far"] = json!(d.w.transitions);
        }
        d.w.out.nontrivial = true;
        d.w.out.sample = Some(desc);
        d.w.finish()
    }
}

fn hp_ai(d: &Driver, p: usize) -> Tt {
    d.w.nodes[0].ports[p].announce_interval()
}
