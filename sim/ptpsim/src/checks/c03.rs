//! C03 - no input, timing or call order makes the library panic or overflow.
//! "Chaos host": the random-history driver extended with hostile frames
//! (field-mutated, margin-sized TLVs, raw bytes), arbitrary receive / transmit
//! timestamps, timers in any order and failing clocks. Every operation runs
//! under catch_unwind; the same source is built in two profiles (release and
//! `checked` = release + debug-assertions + overflow-checks).

use crate::clock::*;
use crate::driver::*;
use crate::host::*;
use crate::script::{announce_frame, GmData};
use crate::wire::*;
use serde_json::json;
use std::rc::Rc;
use vcommon::tape::*;
use vcommon::{guarded, Check, Chooser, RunOutcome, Tier};

pub struct C03;

pub fn profile() -> &'static str {
    if cfg!(debug_assertions) {
        "checked"
    } else {
        "release"
    }
}

fn pick_time(ch: &mut Chooser) -> u128 {
    // receive / transmit timestamps over [0, 2^63 ns) with sub-ns parts
    let ns: u128 = match ch.choose(S_WORK, 10) {
        0 => 0,
        1 => 1,
        2 => 999_999_999,
        3 => 1_000_000_000,
        4 => (1u128 << 63) - 1,
        5 => 1_700_000_000u128 * 1_000_000_000,
        6 => ch.choose(S_WORK, 1 << 40) as u128,
        7 => (1u128 << 62) + ch.choose(S_WORK, 1 << 30) as u128,
        _ => 1_700_000_000u128 * 1_000_000_000 + ch.choose(S_WORK, 2_000_000_000) as u128,
    };
    ns * NS + if ch.boolean(S_WORK) { ch.choose(S_WORK, 1 << 32) as u128 } else { 0 }
}

fn pick_corr(ch: &mut Chooser) -> i64 {
    *ch.pick(S_WORK, &[0i64, 1, -1, (1i64 << 62) + 12345, -(1i64 << 62), i64::MIN, i64::MAX, 1_000_000 << 16, -(1_000_000i64 << 16), 0xffff, -0x1_0000])
}

fn pick_ts(ch: &mut Chooser) -> Ts {
    Ts {
        secs: *ch.pick(S_WORK, &[0u64, 1, 1_700_000_000, (1 << 48) - 1, 1 << 47, 4_294_967_295]),
        nanos: *ch.pick(S_WORK, &[0u32, 1, 999_999_999, 1_000_000_000, u32::MAX]),
    }
}

fn hostile_frame(ch: &mut Chooser, d: &Driver, port: usize) -> (bool, Vec<u8>, &'static str) {
    let own = d.w.nodes[0].ports[port].pid;
    let senders = [Pid::new(BETTER_ID, (port + 1) as u16), Pid::new(WORSE_ID, (port + 1) as u16), Pid::new(PEER_ID, (port + 1) as u16), own, Pid::new(OWN_ID, 0), Pid::new([0xff; 8], 0xffff)];
    let src = *ch.pick(S_WORK, &senders);
    let seq = *ch.pick(S_WORK, &[0u16, 1, 65535, 32767, 32768]);
    let kind = ch.choose(S_WORK, 10);
    let mut gm = GmData::simple(BETTER_ID, *ch.pick(S_WORK, &[1u8, 128, 255]));
    gm.steps_removed = *ch.pick(S_WORK, &[0u16, 254, 255, 65535]);
    let t = match kind {
        0 | 1 => MsgType::Announce,
        2 => MsgType::Sync,
        3 => MsgType::FollowUp,
        4 => MsgType::DelayReq,
        5 => MsgType::DelayResp,
        6 => MsgType::PdelayReq,
        7 => MsgType::PdelayResp,
        8 => MsgType::PdelayRespFollowUp,
        _ => *ch.pick(S_WORK, &[MsgType::Signaling, MsgType::Management]),
    };
    let body = match t {
        MsgType::Announce => Body::Announce(gm.body()),
        MsgType::Sync => Body::Sync { origin: pick_ts(ch) },
        MsgType::FollowUp => Body::FollowUp { precise_origin: pick_ts(ch) },
        MsgType::DelayReq => Body::DelayReq { origin: pick_ts(ch) },
        MsgType::DelayResp => Body::DelayResp { receive: pick_ts(ch), requesting: *ch.pick(S_WORK, &[own, src]) },
        MsgType::PdelayReq => Body::PdelayReq { origin: pick_ts(ch) },
        MsgType::PdelayResp => Body::PdelayResp { request_receipt: pick_ts(ch), requesting: *ch.pick(S_WORK, &[own, src]) },
        MsgType::PdelayRespFollowUp => Body::PdelayRespFollowUp { response_origin: pick_ts(ch), requesting: *ch.pick(S_WORK, &[own, src]) },
        MsgType::Signaling => Body::Signaling { target: own },
        MsgType::Management => Body::Management { raw: [0xff; 14] },
    };
    let mut f = Frame::new(t, src, seq, body);
    f.hdr.correction = pick_corr(ch);
    f.hdr.flags = *ch.pick(S_WORK, &[0u16, flag::TWO_STEP, 0xffff, flag::UTC_VALID | flag::LEAP59 | flag::LEAP61]);
    f.hdr.log_interval = *ch.pick(S_WORK, &[0i8, 127, -128]);
    f.hdr.minor_version = ch.choose(S_WORK, 16) as u8;
    // TLV suffix around every buffer margin
    let mut what = "field_mutated";
    match ch.choose(S_WORK, 8) {
        0 => {
            what = "margin_tlv";
            let body_len = t.body_len();
            let room = 1024usize.saturating_sub(34 + body_len);
            let wire = match ch.choose(S_WORK, 10) {
                8 | 9 => {
                    // the room left next to the port's own PATH_TRACE TLV (path of 0..2 received hops)
                    let pt = 4 + 8 * (1 + ch.choose(S_WORK, 3) as usize);
                    let r = 1024usize - 64 - pt;
                    *ch.pick(S_WORK, &[r, r - 2, r + 2, r + 4, r - 4])
                }
                0 => room,
                1 => room - 2,
                2 => room + 2,
                3 => 960,
                4 => 958,
                5 => 2048 - 34 - body_len,
                6 => 2046 - 34 - body_len,
                _ => 2 * ch.choose(S_WORK, 500) as usize + 4,
            };
            let typ = *ch.pick(S_WORK, &[0x4000u16, 0x0008, 0x0009, 0x7fff, 0x8000, 0x0003]);
            f.tlvs.push(Tlv { typ, value: vec![0xab; wire.saturating_sub(4) & !1] });
        }
        1 => {
            what = "path_trace_boundary";
            let n = *ch.pick(S_WORK, &[0usize, 1, 117, 118, 119, 127, 128, 129, 200, 246]);
            let mut v = Vec::new();
            for i in 0..n {
                v.extend_from_slice(&[0x77, 0, 0, 0, 0, 0, (i >> 8) as u8, i as u8]);
            }
            if n > 0 && ch.chance(S_WORK, 1, 5) {
                v[..8].copy_from_slice(&OWN_ID);
            }
            f.tlvs.push(Tlv { typ: TLV_PATH_TRACE, value: v });
        }
        2 => {
            what = "several_tlvs";
            for _ in 0..ch.range(S_WORK, 2, 6) {
                let l = *ch.pick(S_WORK, &[0usize, 2, 4, 100, 300]);
                f.tlvs.push(Tlv { typ: *ch.pick(S_WORK, &[0x4000u16, 0x0008, 0x8008, 0x2004]), value: vec![1; l] });
            }
        }
        _ => {}
    }
    let mut b = f.encode();
    // raw damage
    match ch.choose(S_WORK, 10) {
        0 => {
            what = "truncated";
            let n = ch.choose(S_WORK, b.len() as u64 + 1) as usize;
            b.truncate(n);
        }
        1 => {
            what = "length_rewritten";
            let l = *ch.pick(S_WORK, &[0u16, 33, 34, 44, 64, 1024, 2048, 65535, (b.len() as u16).wrapping_add(1), (b.len() as u16).wrapping_sub(1)]);
            if b.len() >= 4 {
                b[2..4].copy_from_slice(&l.to_be_bytes());
            }
        }
        2 => {
            what = "raw_bytes";
            let n = ch.choose(S_WORK, 2049) as usize;
            b = (0..n).map(|i| (i as u8).wrapping_mul(ch.choose(S_WORK, 256) as u8 | 1)).collect();
            if n > 1 && ch.boolean(S_WORK) {
                b[1] = 0x12;
            }
        }
        3 => {
            what = "padded";
            let n = ch.range(S_WORK, 1, 600) as usize;
            b.extend(std::iter::repeat(0x5a).take(n));
        }
        4 => {
            what = "odd_tlv_length";
            if b.len() > 40 {
                let n = b.len();
                b[n - 1] ^= 1;
                let l = ((n - 34) as u16 | 1).to_be_bytes();
                b.extend_from_slice(&[0x40, 0x00, l[0], l[1], 7]);
            }
        }
        _ => {}
    }
    b.truncate(2048);
    (t.is_event() || ch.chance(S_WORK, 1, 10), b, what)
}

impl Check for C03 {
    fn property(&self) -> &'static str {
        "C03"
    }
    fn family(&self) -> &'static str {
        if cfg!(debug_assertions) {
            "c03_chaos_host_checked_profile"
        } else {
            "c03_chaos_host_release_profile"
        }
    }
    fn budget(&self, tier: Tier) -> u64 {
        match tier {
            Tier::Quick => 40_000,
            Tier::Thorough => 1_000_000,
        }
    }
    fn run(&self, ch: &mut Chooser, tier: Tier) -> RunOutcome {
        let depth = if tier == Tier::Thorough { 400 } else { 80 };
        let cfg = DriverCfg { wild_timers: true, runtime_changes: true, depth, host_faults: true, recording_filter: false, max_ports: 3, shared_segments: false };
        let mut d = Driver::new(ch, cfg);
        d.w.keep_emitted = false;
        // failing clock (contract-honouring: a failed command changes nothing)
        if ch.chance(S_CFG, 1, 3) {
            d.w.nodes[0].clock.borrow_mut().fail_pattern = ch.bits(S_FAULT) & ch.bits(S_FAULT);
        }
        let manual_ts = ch.chance(S_CFG, 1, 2);
        d.w.manual_tx_ts = manual_ts;
        let n_ops = ch.range(S_WORK, 20, depth);
        let mut panic_info: Option<(String, String, String, String)> = None;
        let mut kinds: Vec<&'static str> = Vec::new();
        for _ in 0..n_ops {
            let chaos = ch.chance(S_WORK, 1, 2);
            let mut what = "driver_op";
            let r = if !chaos {
                guarded(|| d.one_op(ch))
            } else {
                let np = d.nports() as u64;
                let p = ch.choose(S_WORK, np) as usize;
                match ch.choose(S_WORK, 7) {
                    0..=3 => {
                        let (event, bytes, w) = hostile_frame(ch, &d, p);
                        what = w;
                        let ts = pick_time(ch);
                        guarded(|| {
                            if event {
                                d.w.host_call(0, p, HostCall::RxEvent(Rc::new(bytes), ts), ch);
                            } else {
                                d.w.host_call(0, p, HostCall::RxGeneral(Rc::new(bytes)), ch);
                            }
                        })
                    }
                    4 => {
                        // deliver an outstanding TX timestamp with an arbitrary value (each context once)
                        what = "arbitrary_tx_timestamp";
                        let ctx = d.w.nodes[0].ports[p].pending_ctx.first().map(|(i, _)| *i);
                        let ts = pick_time(ch);
                        match ctx {
                            Some(c) => guarded(|| {
                                d.w.host_call(0, p, HostCall::TxTimestamp(c, ts), ch);
                            }),
                            None => Ok(()),
                        }
                    }
                    6 => {
                        // a crowd: valid Announces from more distinct masters than any record can hold
                        // (8 foreign masters per port, 8 Announces per master), each up to three times
                        what = "announce_crowd";
                        let n = ch.range(S_WORK, 7, 20);
                        let reps = ch.range(S_WORK, 1, 3);
                        let base = d.w.seq() as u16;
                        let mut frames = Vec::new();
                        for r in 0..reps {
                            for k in 0..n {
                                let id = [0x30, 0, 0, 0, 0, 0, 1, k as u8];
                                let gm = GmData::simple(id, 120 + k as u8);
                                frames.push(announce_frame(Pid::new(id, 1), base.wrapping_add(r as u16), &gm, 0, 0, 0).encode());
                            }
                        }
                        guarded(|| {
                            for b in frames {
                                d.w.host_call(0, p, HostCall::RxGeneral(Rc::new(b)), ch);
                            }
                        })
                    }
                    _ => {
                        // a valid Announce with boundary contents from the parent-to-be, to walk states
                        what = "boundary_announce";
                        let mut gm = GmData::simple(BETTER_ID, 1);
                        gm.steps_removed = *ch.pick(S_WORK, &[0u16, 254]);
                        gm.utc_offset = *ch.pick(S_WORK, &[0i16, i16::MIN, i16::MAX]);
                        let f = announce_frame(Pid::new(BETTER_ID, (p + 1) as u16), d.w.seq() as u16, &gm, 0, 0, 0);
                        guarded(|| {
                            d.w.host_call(0, p, HostCall::RxGeneral(Rc::new(f.encode())), ch);
                        })
                    }
                }
            };
            kinds.push(what);
            d.w.out.fault(&format!("chaos.{what}"));
            if let Err((msg, loc)) = r {
                panic_info = Some((msg, loc, d.w.current_call.to_string(), what.to_string()));
                break;
            }
        }
        let mut out;
        if let Some((msg, loc, entry, what)) = panic_info {
            // the world may be mid-update: do not touch it further
            out = std::mem::take(&mut d.w.out);
            std::mem::forget(d);
            if loc.contains("/verif/") && !msg.starts_with("DetectLock") {
                panic!("harness panic in c03: {msg} at {loc}");
            }
            // signature site: the statime source line (directly, or the first statime frame behind a dependency)
            let sut = loc.split(" <- ").last().unwrap_or(&loc);
            let site_file = {
                let mut it = sut.rsplit('/');
                let file = it.next().unwrap_or("");
                let dir = it.next().unwrap_or("");
                format!("{dir}/{file}")
            };
            out.sut_panics.push(format!("{msg} @ {loc}"));
            out.violate(
                "C03",
                "C03.panic",
                format!("profile={} entry={} site={} msg={}", profile(), entry, site_file, vcommon::truncate(&msg, 70)),
                format!("[{} profile] {} panicked: {} at {} (during a {} operation)", profile(), entry, msg, loc, what),
            );
            out.nontrivial = true;
            out.events = n_ops;
            let mut sh = vcommon::Fnv::new();
            for k in &kinds {
                sh.str(k);
            }
            out.shape = sh.finish();
            return out;
        }
        let ops = d.ops.len();
        d.w.out.sample = Some(json!({"profile": profile(), "node": d.node_desc, "ops": ops, "chaos_kinds": kinds.iter().take(60).collect::<Vec<_>>()}));
        for k in &kinds {
            d.w.shape.str(k);
        }
        d.w.out.nontrivial = d.w.transitions >= 1;
        d.w.out.oracle_evals = n_ops;
        d.w.finish()
    }
}
