//! C07 - traffic from unselected, unacceptable or foreign-domain sources has
//! no effect. Two-run lock-step: world A runs a generated history; world B
//! replays the same tape and additionally receives noise frames of exactly the
//! classes named in the statement. After every operation both worlds must agree
//! on emitted frames, timers, data sets, clock commands and the complete Debug
//! dump of every port (which includes the instance state, the foreign-master
//! records and the port's RNG).

use crate::driver::*;
use crate::host::*;
use crate::script::{announce_frame, GmData};
use crate::wire::*;
use serde_json::json;
use std::rc::Rc;
use vcommon::tape::*;
use vcommon::{Check, Chooser, RunOutcome, Tier};

pub struct C07;

#[derive(Clone, Debug)]
struct Noise {
    before_op: usize,
    port: u64,
    class: u64,
    variant: u64,
    seq: u16,
}

const CLASS_NAMES: [&str; 9] = [
    "other_domain",
    "other_sdo_id",
    "version_not_2",
    "malformed",
    "announce_from_unacceptable_master",
    "announce_with_own_port_identity",
    "sync_followup_from_non_parent",
    "delay_resp_from_non_parent",
    "delay_resp_for_other_requester",
];

fn observe(d: &Driver, from_emitted: usize) -> Vec<String> {
    let n = &d.w.nodes[0];
    let mut v = Vec::new();
    v.push(format!("states {:?}", n.states()));
    v.push(format!("view {:?}", crate::checks::c11::view_of_node(n)));
    v.push(format!("path {:?}", n.inst.path_trace_ds()));
    for (i, p) in n.ports.iter().enumerate() {
        v.push(format!("port{} timers {:?}", i, p.timers.iter().map(|t| (t.deadline, t.armed_count)).collect::<Vec<_>>()));
        v.push(format!("port{} pending_ctx {}", i, p.pending_ctx.len()));
        v.push(format!("port{} ds {:?}", i, match &p.slot {
            Slot::Running(q) => format!("{:?}", q.port_ds()),
            _ => String::new(),
        }));
        v.push(format!("port{} dump {}", i, p.debug_dump()));
    }
    let cl = n.clock.borrow();
    v.push(format!("clock cmds {} last {:?}", cl.log.len(), cl.log.last().map(|e| format!("{:?}", e.cmd))));
    for e in &d.w.emitted[from_emitted.min(d.w.emitted.len())..] {
        v.push(format!("tx port{} {:02x?}", e.port, e.bytes));
    }
    v
}

fn build_noise(n: &Noise, d: &Driver) -> (bool, Vec<u8>, u128) {
    let p = (n.port as usize) % d.nports();
    let node = &d.w.nodes[0];
    let own_pid = node.ports[p].pid;
    let domain = node.spec.domain;
    let better = Pid::new(BETTER_ID, (p + 1) as u16);
    let stranger = Pid::new([0xee; 8], 1);
    let gm = GmData::simple(BETTER_ID, 1);
    let rx: u128 = (1_700_000_000u128 * 1_000_000_000 + 12345) << 32;
    // near-miss templates: valid frames of the kinds the port reacts to
    let template = |k: u64, src: Pid| -> (bool, Frame) {
        match k % 5 {
            0 => (false, announce_frame(src, n.seq, &gm, domain, 0, 0)),
            1 => {
                let mut f = Frame::new(MsgType::Sync, src, n.seq, Body::Sync { origin: Ts { secs: 1_700_000_000, nanos: 1 } });
                if n.variant & 8 != 0 {
                    f.hdr.flags |= flag::TWO_STEP;
                }
                (true, f)
            }
            2 => (false, Frame::new(MsgType::FollowUp, src, n.seq, Body::FollowUp { precise_origin: Ts { secs: 1_700_000_000, nanos: 1 } })),
            3 => (false, Frame::new(MsgType::DelayResp, src, n.seq, Body::DelayResp { receive: Ts { secs: 1_700_000_000, nanos: 9 }, requesting: own_pid })),
            _ => (true, Frame::new(MsgType::DelayReq, src, n.seq, Body::DelayReq { origin: Ts::default() })),
        }
    };
    match n.class {
        0 => {
            let (ev, mut f) = template(n.variant, better);
            f.hdr.domain = domain.wrapping_add(1 + (n.variant % 200) as u8);
            (ev, f.encode(), rx)
        }
        1 => {
            let (ev, mut f) = template(n.variant, better);
            f.hdr.sdo_id = 0x100 + (n.variant % 0xe00) as u16;
            (ev, f.encode(), rx)
        }
        2 => {
            let (ev, f) = template(n.variant, better);
            let mut b = f.encode();
            b[1] = (b[1] & 0xf0) | [1u8, 3, 0, 15][(n.variant % 4) as usize];
            (ev, b, rx)
        }
        3 => {
            let (ev, mut f) = template(n.variant, better);
            let mut b;
            match (n.variant / 5) % 5 {
                0 => {
                    b = f.encode();
                    b.truncate((n.variant % 44) as usize);
                }
                1 => {
                    b = f.encode();
                    let l = (b.len() as u16 + 1 + (n.variant % 900) as u16).to_be_bytes();
                    b[2..4].copy_from_slice(&l);
                }
                2 => {
                    b = f.encode();
                    b[2..4].copy_from_slice(&(n.variant as u16 % 34).to_be_bytes());
                }
                3 => {
                    // odd TLV length
                    f.tlvs.push(Tlv { typ: 0x4000, value: vec![1, 2, 3] });
                    b = f.encode();
                }
                _ => {
                    // TLV whose length field runs past the frame
                    f.tlvs.push(Tlv { typ: 0x4000, value: vec![0; 4] });
                    b = f.encode();
                    let n0 = b.len();
                    b[n0 - 6..n0 - 4].copy_from_slice(&60u16.to_be_bytes());
                }
            }
            (ev, b, rx)
        }
        4 => {
            // a sender outside the port's acceptable-master list: a stranger, the instance's current
            // parent (selected on another port), or the instance's own clock
            let list = node.ports[p].spec.acceptable.clone().unwrap_or_default();
            let pd = node.inst.parent_ds();
            let parent = Pid::new(pd.parent_port_identity.clock_identity.0, pd.parent_port_identity.port_number);
            let src = match n.variant % 3 {
                1 if !list.contains(&parent.clock) => parent,
                2 if !list.contains(&OWN_ID) => Pid::new(OWN_ID, 0),
                _ => stranger,
            };
            let mut g = GmData::simple([0xee; 8], 1);
            g.steps_removed = 7;
            g.priority2 = 3;
            (false, announce_frame(src, n.seq, &g, domain, 0, 0).encode(), rx)
        }
        5 => (false, announce_frame(own_pid, n.seq, &GmData::simple(BETTER_ID, 1), domain, 0, 0).encode(), rx),
        6 | 7 => {
            // a sender that is NOT the currently selected parent: a stranger, another port of the
            // parent's clock, or one of the known masters of this segment
            let pd = node.inst.parent_ds();
            let parent = Pid::new(pd.parent_port_identity.clock_identity.0, pd.parent_port_identity.port_number);
            let cands = [
                Pid::new([0x77; 8], 3),
                Pid::new(parent.clock, parent.port.wrapping_add(1)),
                Pid::new(BETTER_ID, (p + 1) as u16),
                Pid::new(BETTER_ID, (40 + p) as u16),
                Pid::new(WORSE_ID, (p + 1) as u16),
            ];
            let mut src = cands[((n.variant / 7) % cands.len() as u64) as usize];
            if src == parent {
                src = cands[0];
            }
            let (ev, f) = if n.class == 6 { template(1 + n.variant % 2, src) } else { template(3, src) };
            (ev, f.encode(), rx)
        }
        _ => {
            let mut f = Frame::new(MsgType::DelayResp, better, n.seq, Body::DelayResp { receive: Ts { secs: 1_700_000_000, nanos: 9 }, requesting: Pid::new(OWN_ID, 40 + (n.variant % 9) as u16) });
            f.hdr.domain = domain;
            (false, f.encode(), rx)
        }
    }
}

impl Check for C07 {
    fn property(&self) -> &'static str {
        "C07"
    }
    fn family(&self) -> &'static str {
        "c07_two_run_lockstep"
    }
    fn budget(&self, tier: Tier) -> u64 {
        match tier {
            Tier::Quick => 12_000,
            Tier::Thorough => 300_000,
        }
    }
    fn run(&self, ch: &mut Chooser, tier: Tier) -> RunOutcome {
        let depth = if tier == Tier::Thorough { 120 } else { 50 };
        // noise plan first (its own stream: world A's draws never shift)
        let n_noise = ch.range(S_NOISE, 1, 8) as usize;
        let mut plan: Vec<Noise> = (0..n_noise)
            .map(|_| Noise {
                before_op: ch.choose(S_NOISE, depth as u64 + 6) as usize,
                port: ch.choose(S_NOISE, 3),
                class: ch.choose(S_NOISE, 9),
                variant: ch.choose(S_NOISE, 100_000),
                seq: ch.choose(S_NOISE, 65536) as u16,
            })
            .collect();
        plan.sort_by_key(|n| n.before_op);
        // near-miss frames tied to exchanges in flight (delivered right after the k-th Sync received /
        // Delay_Req sent on a port, carrying its sequence id)
        let n_mimic = ch.choose(S_NOISE, 3) as usize;
        let mimics: Vec<Mimic> = (0..n_mimic)
            .map(|_| Mimic {
                port: ch.choose(S_NOISE, 3) as usize,
                kind: ch.choose(S_NOISE, 4) as u8,
                countdown: ch.choose(S_NOISE, 8) as u32,
                src_variant: ch.choose(S_NOISE, 4) as u8,
                fired: false,
            })
            .collect();
        let cfg = DriverCfg { wild_timers: false, runtime_changes: true, depth, host_faults: true, recording_filter: false, max_ports: 3, shared_segments: false };
        // ---- world A
        let mut a = Driver::new(ch, cfg.clone());
        force_debuggable(&mut a);
        let n_ops = ch.range(S_WORK, depth / 4, depth) as usize + 6;
        let mut obs_a: Vec<Vec<String>> = Vec::new();
        for i in 0..n_ops {
            let e0 = a.w.emitted.len();
            if i + 6 >= n_ops {
                // long tail: plain passage of time so that hidden differences surface
                let t = a.w.now() + 2 * a.i_units;
                a.advance(ch, t);
            } else {
                a.one_op(ch);
            }
            obs_a.push(observe(&a, e0));
            if a.w.emitted.len() > 4096 {
                a.w.emitted.clear();
            }
        }
        let tape = ch.tape_so_far();
        // ---- world B: same decisions + noise
        let mut chb = Chooser::replay(ch.seed, tape);
        let _ = chb.range(S_NOISE, 1, 8); // keep stream positions aligned with A's chooser (unused)
        let mut b = Driver::new(&mut chb, cfg);
        force_debuggable(&mut b);
        b.w.mimics = mimics.iter().map(|m| Mimic { port: m.port % b.nports(), ..m.clone() }).collect();
        let n_ops_b = chb.range(S_WORK, depth / 4, depth) as usize + 6;
        let mut out = RunOutcome::default();
        let mut injected: Vec<String> = Vec::new();
        let mut quiet = Chooser::replay(0, Default::default());
        let mut pi = 0usize;
        let mut diverged = false;
        if n_ops_b != n_ops {
            out.violate("C07", "C07.harness_replay_mismatch", "", "world B drew a different history length");
        }
        for i in 0..n_ops.min(n_ops_b) {
            while pi < plan.len() && plan[pi].before_op <= i {
                let nz = plan[pi].clone();
                pi += 1;
                let (event, bytes, rx) = build_noise(&nz, &b);
                let p = (nz.port as usize) % b.nports();
                // noise may only be called "noise" for this port if the statement says so:
                // class 4 needs an acceptable-master list that excludes the sender
                if nz.class == 4 && b.w.nodes[0].ports[p].spec.acceptable.is_none() {
                    continue;
                }
                let e_before = b.w.emitted.len();
                let sum = if event {
                    b.w.host_call(0, p, HostCall::RxEvent(Rc::new(bytes.clone()), rx), &mut quiet)
                } else {
                    b.w.host_call(0, p, HostCall::RxGeneral(Rc::new(bytes.clone())), &mut quiet)
                };
                out.fault(&format!("noise.{}", CLASS_NAMES[nz.class as usize]));
                injected.push(format!("before op {}: {} on port {} ({} bytes, {})", i, CLASS_NAMES[nz.class as usize], p, bytes.len(), if event { "event" } else { "general" }));
                if sum.n_actions > 0 || b.w.emitted.len() != e_before {
                    out.violate(
                        "C07",
                        "C07.noise_frame_caused_actions",
                        format!("class={}", CLASS_NAMES[nz.class as usize]),
                        format!("delivering a {} frame returned {} actions ({:?}); injected: {:?}", CLASS_NAMES[nz.class as usize], sum.n_actions, sum, injected),
                    );
                    b.w.emitted.truncate(e_before);
                }
            }
            let e0 = b.w.emitted.len();
            if i + 6 >= n_ops {
                let t = b.w.now() + 2 * b.i_units;
                b.advance(&mut chb, t);
            } else {
                b.one_op(&mut chb);
            }
            let ob = observe(&b, e0);
            out.oracle_evals += 1;
            if !diverged && ob != obs_a[i] {
                diverged = true;
                let first = ob.iter().zip(obs_a[i].iter()).find(|(x, y)| x != y).map(|(x, y)| (x.clone(), y.clone()));
                let what = first.as_ref().map(|(x, _)| x.split(' ').take(2).collect::<Vec<_>>().join("_")).unwrap_or_else(|| "length".into());
                let what: String = what.chars().filter(|c| !c.is_ascii_digit()).collect();
                let last_class = injected.last().map(|s| s.split(": ").nth(1).unwrap_or("").split(' ').next().unwrap_or("").to_string()).unwrap_or_default();
                out.violate(
                    "C07",
                    "C07.worlds_diverge_after_noise",
                    format!("last_noise={} differs_in={}", last_class, what),
                    format!(
                        "after operation {} ({}) the world that received noise frames differs from the one that did not; first difference: with noise `{}` / without `{}`; injected so far: {:?}",
                        i,
                        b.ops.last().cloned().unwrap_or_default(),
                        first.as_ref().map(|f| vcommon::truncate(&f.0, 300)).unwrap_or_default(),
                        first.as_ref().map(|f| vcommon::truncate(&f.1, 300)).unwrap_or_default(),
                        injected
                    ),
                );
            }
            if b.w.emitted.len() > 4096 {
                b.w.emitted.clear();
            }
        }
        let wa = a.w.finish();
        let wb = b.w.finish();
        out.events = wa.events + wb.events;
        out.sim_seconds = wa.sim_seconds;
        out.digest = wa.digest;
        out.shape = wa.shape ^ vcommon::hash_str(&injected.iter().map(|s| s.split(": ").nth(1).unwrap_or("").split(' ').next().unwrap_or("")).collect::<Vec<_>>().join(","));
        out.states = wa.states;
        for (k, v) in wa.probes {
            out.probe_n(&k, v);
        }
        for (k, v) in &wb.faults {
            if k.starts_with("noise.mimic_") {
                *out.faults.entry(k.clone()).or_insert(0) += *v;
                injected.push(format!("during the history: {} x{}", k, v));
            }
        }
        for v in wa.violations.into_iter().chain(wb.violations.into_iter()) {
            if v.property != "C07" {
                out.violations.push(v);
            }
        }
        out.nontrivial = !injected.is_empty();
        out.sample = Some(json!({"node": a.node_desc, "ops": a.ops.iter().take(40).collect::<Vec<_>>(), "noise": injected}));
        out
    }
}

/// Kalman filters have no Debug implementation; C07 compares complete Debug dumps, so its
/// instances are built with BasicFilter on every port (decided before the node is created by
/// the driver's own draw; here only asserted).
fn force_debuggable(_d: &mut Driver) {}
