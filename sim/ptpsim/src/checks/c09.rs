//! C09 - every offset / delay measurement handed to the filter equals the
//! IEEE 1588 formula applied to ONE matching exchange, however the messages
//! are interleaved, duplicated, delayed or lost. Exact integer arithmetic.

use crate::clock::*;
use crate::host::*;
use crate::script::{announce_frame, GmData};
use crate::wire::*;
use serde_json::json;
use std::rc::Rc;
use vcommon::tape::*;
use vcommon::{Check, Chooser, RunOutcome, Tier};

pub struct C09;

const PARENT: [u8; 8] = [0x02, 0, 0, 0, 0, 0, 0, 0x11];
const DECOY: [u8; 8] = [0x02, 0, 0, 0, 0, 0, 0, 0x22];
const OWN: [u8; 8] = [0x50, 0, 0, 0, 0, 0, 0, 0x01];

/// tolerance of the statement: 2^-16 ns, in units of 2^-32 ns
const TOL: i128 = 1 << 16;

fn pick_corr(ch: &mut Chooser) -> i64 {
    // scaled ns (ns * 2^16)
    let ns: i64 = *ch.pick(S_WORK, &[0i64, 1, -1, 1000, -1000, 1_000_000, -999_999, 1_000_000_000, -1_000_000_000]);
    let frac: i64 = *ch.pick(S_WORK, &[0i64, 1, 0x8000, 0xffff]);
    (ns << 16) + frac
}

#[derive(Clone, Debug)]
struct SyncX {
    seq: u16,
    two_step: bool,
    t1: Ts,
    c_sync: i64,
    c_fu: i64,
    from_parent: bool,
}

#[derive(Clone, Debug)]
enum Ev {
    Sync { x: usize, t2: u128 },
    FollowUp { x: usize },
    DelayTimer,
    TxTs { j: usize, t3: u128 },
    DelayResp { j: usize, t4: Ts, c: i64, from_parent: bool, for_us: bool },
    /// the other master starts announcing better attributes and the BMCA selects it: from here
    /// on its exchanges are the parent's, and nothing received or sent before may be used
    ParentSwitch,
}

impl Check for C09 {
    fn property(&self) -> &'static str {
        "C09"
    }
    fn family(&self) -> &'static str {
        "c09_exchange_interleavings"
    }
    fn budget(&self, tier: Tier) -> u64 {
        match tier {
            Tier::Quick => 300_000,
            Tier::Thorough => 6_000_000,
        }
    }
    fn run(&self, ch: &mut Chooser, _tier: Tier) -> RunOutcome {
        let mut w = World::new();
        w.manual_tx_ts = true;
        let md_units: i128 = *ch.pick(S_CFG, &[100_000i128, 0, 1, 123_456_789]) * NS as i128 + ch.choose(S_CFG, 3) as i128 * 0x8000_0000;
        let asym: i128 = *ch.pick(S_CFG, &[0i128, 1000, -1000, 1, -1, 250_000]) * NS as i128 + ch.choose(S_CFG, 2) as i128 * 0x1_0000;
        let mut spec = NodeSpec::default();
        spec.id = OWN;
        spec.priority1 = 200;
        spec.ports[0].filter = FilterKind::Recording { mean_delay_units: Some(md_units) };
        spec.ports[0].asym_units = asym;
        spec.ports[0].forward_tlvs = false;
        w.add_node(spec, ch);
        let own = Pid::new(OWN, 1);
        let parent = Pid::new(PARENT, 1);
        let decoy = Pid::new(DECOY, 1);
        // become slave of PARENT
        let gm = GmData::simple(PARENT, 10);
        for k in 0..2u16 {
            let f = announce_frame(parent, 100 + k, &gm, 0, 0, 0);
            w.host_call(0, 0, HostCall::RxGeneral(Rc::new(f.encode())), ch);
            w.run_bmca(0, ch);
        }
        if w.nodes[0].ports[0].state() != PState::Slave {
            let mut o = w.finish();
            o.violate("C09", "C09.setup_failed", "", "port did not become slave of the scripted parent");
            return o;
        }
        // the delay timer was armed with zero duration by the BMCA: let it fire (request #0)
        let t = w.now() + MS;
        w.run_until(ch, t);
        let rec = w.nodes[0].ports[0].rec_log.clone().unwrap();
        rec.borrow_mut().entries.clear();

        // ---- build the exchanges
        let base_secs: u64 = *ch.pick(S_CFG, &[1_700_000_000u64, 1, 999_999_999, (1u64 << 47) + 5, 4_294_967_295]);
        let n_sync = ch.range(S_WORK, 1, 3) as usize;
        let s0: u16 = *ch.pick(S_WORK, &[5u16, 65534, 65535, 0, 32767]);
        let two_step = ch.boolean(S_CFG);
        let mut syncs: Vec<SyncX> = Vec::new();
        let mut evs: Vec<Ev> = Vec::new();
        for k in 0..n_sync {
            let nanos: u32 = *ch.pick(S_WORK, &[0u32, 999_999_999, 1, 500_000_000]);
            let t1 = Ts { secs: base_secs + k as u64, nanos };
            let x = SyncX { seq: s0.wrapping_add(k as u16), two_step, t1, c_sync: pick_corr(ch), c_fu: pick_corr(ch), from_parent: true };
            syncs.push(x);
            let xi = syncs.len() - 1;
            // receive time near t1 (either side), with sub-ns part; kept >= 2 s so corrections never underflow
            let d_ns: i128 = *ch.pick(S_WORK, &[100_000i128, 0, -50_000, 1_000_000_001, 999_999_999]);
            let t2 = ((t1.total_ns() as i128 + d_ns).max(3_000_000_000) as u128) * NS + ch.choose(S_WORK, 4) as u128 * 0x4000_0000;
            let copies = 1 + ch.weighted(S_WORK, &[6, 2, 1]); // 1, 2 or 3 deliveries
            let drop_sync = ch.chance(S_WORK, 1, 8);
            if !drop_sync {
                for c in 0..copies {
                    evs.push(Ev::Sync { x: xi, t2: t2 + c as u128 * 7 * NS });
                }
            }
            if two_step && !ch.chance(S_WORK, 1, 8) {
                for _ in 0..(1 + ch.weighted(S_WORK, &[6, 2])) {
                    evs.push(Ev::FollowUp { x: xi });
                }
            }
        }
        // decoy exchange from a non-parent with an id equal to one of the parent's
        let switch = ch.chance(S_WORK, 1, 4);
        let n_decoy = if switch { ch.range(S_WORK, 1, 2) } else { ch.choose(S_WORK, 2) };
        // (one sender never uses a sequence id twice: consecutive ids, the first equal to one of the parent's)
        let decoy_s0 = s0.wrapping_add(ch.choose(S_WORK, n_sync as u64) as u16);
        for d in 0..n_decoy {
            let x = SyncX {
                seq: decoy_s0.wrapping_add(d as u16),
                two_step,
                t1: Ts { secs: base_secs + 77 + d, nanos: 5 },
                c_sync: if switch { pick_corr(ch) } else { 0 },
                c_fu: 0,
                from_parent: false,
            };
            syncs.push(x);
            let xi = syncs.len() - 1;
            evs.push(Ev::Sync { x: xi, t2: (base_secs as u128 + 78 + d as u128) * SEC });
            if two_step {
                evs.push(Ev::FollowUp { x: xi });
            }
        }
        let n_delay = ch.range(S_WORK, 0, 2) as usize;
        // request #0 already exists (sent during setup); further requests are triggered by the timer
        let mut delay_events: Vec<Vec<Ev>> = Vec::new();
        for j in 0..=n_delay {
            let mut v = Vec::new();
            if j > 0 {
                v.push(Ev::DelayTimer);
            }
            let t3 = (base_secs as u128 + 10 + j as u128) * SEC + ch.choose(S_WORK, 1000) as u128 * US + ch.choose(S_WORK, 3) as u128 * 0x5555_5555;
            if !ch.chance(S_WORK, 1, 8) {
                v.push(Ev::TxTs { j, t3 });
            }
            if !ch.chance(S_WORK, 1, 8) {
                let t4 = Ts::from_ns((t3 / NS) + *ch.pick(S_WORK, &[100_000u128, 0, 1_000_000_000]));
                let c = pick_corr(ch);
                for _ in 0..(1 + ch.weighted(S_WORK, &[6, 2])) {
                    v.push(Ev::DelayResp { j, t4, c, from_parent: true, for_us: true });
                }
                if ch.chance(S_WORK, 1, 3) {
                    v.push(Ev::DelayResp { j, t4: Ts::from_ns(t3 / NS + 999), c: 0, from_parent: ch.boolean(S_WORK), for_us: false });
                }
                if ch.chance(S_WORK, 1, 4) {
                    v.push(Ev::DelayResp { j, t4: Ts::from_ns(t3 / NS + 555), c: 0, from_parent: false, for_us: true });
                }
            }
            // arrival order of the timestamp and the responses (genuine, duplicates, decoys) is free;
            // only the timer that emits the request comes first
            let start = if j > 0 { 1 } else { 0 };
            ch.shuffle(S_WORK, &mut v[start..]);
            delay_events.push(v);
        }
        // interleave: random merge keeping the order inside each delay exchange's list
        // (timer before its timestamp/response) and the delay exchanges in order of their timers
        ch.shuffle(S_WORK, &mut evs);
        let mut order: Vec<Ev> = Vec::new();
        let mut di = 0usize; // current delay exchange
        let mut dk = 0usize; // position inside it
        let mut si = 0usize;
        loop {
            let have_s = si < evs.len();
            let have_d = di < delay_events.len();
            if !have_s && !have_d {
                break;
            }
            let take_d = have_d && (!have_s || ch.boolean(S_WORK));
            if take_d {
                if dk < delay_events[di].len() {
                    // sometimes move on to the next request before this one completes
                    if dk > 0 && di + 1 < delay_events.len() && ch.chance(S_WORK, 1, 6) {
                        // leftover events of this exchange arrive later (late responses / timestamps)
                        let rest: Vec<Ev> = delay_events[di].drain(dk..).collect();
                        let next = di + 1;
                        let pos = 1.min(delay_events[next].len());
                        for (n, e) in rest.into_iter().enumerate() {
                            delay_events[next].insert(pos + n, e);
                        }
                        di += 1;
                        dk = 0;
                        continue;
                    }
                    order.push(delay_events[di][dk].clone());
                    dk += 1;
                } else {
                    di += 1;
                    dk = 0;
                }
            } else {
                order.push(evs[si].clone());
                si += 1;
            }
        }

        if switch {
            let at = ch.choose(S_WORK, order.len() as u64 + 1) as usize;
            order.insert(at, Ev::ParentSwitch);
        }

        // ---- execute and check
        #[derive(Clone, Debug)]
        struct DReq {
            seq: u16,
            ctx: u64,
            epoch: u32,
            t3: Option<(u128, u32)>,
            /// (receive timestamp, correction, sender is the original parent, epoch of delivery)
            resp: Vec<(Ts, i64, bool, u32)>,
        }
        // epoch = number of parent changes so far
        let mut epoch = 0u32;
        let mut parent_is_original = true;
        let mut reqs: Vec<DReq> = Vec::new();
        let scan_reqs = |w: &World, reqs: &mut Vec<DReq>, epoch: u32| {
            for e in &w.emitted {
                if let Ok(f) = Frame::decode(&e.bytes) {
                    if f.hdr.msg_type == MsgType::DelayReq && !reqs.iter().any(|r| r.seq == f.hdr.seq) {
                        // contexts are numbered in emission order
                        let ctx = w.nodes[0].ports[0].pending_ctx.iter().map(|(i, _)| *i).max().unwrap_or(0);
                        reqs.push(DReq { seq: f.hdr.seq, ctx, epoch, t3: None, resp: Vec::new() });
                    }
                }
            }
        };
        scan_reqs(&w, &mut reqs, epoch);
        let mut sync_delivered: Vec<(usize, u128, u32)> = Vec::new(); // (exchange, t2, epoch)
        let mut fu_delivered: Vec<(usize, u32)> = Vec::new();
        let mut last_raw_sync: Option<i128> = None;
        let mut n_meas_before = 0usize;
        let mut any_measurement = false;
        let mut script: Vec<String> = Vec::new();
        let mut out_v: Vec<(String, String, String)> = Vec::new();
        let mut explained_dup = 0u64;
        let mut used_sync: Vec<(usize, u128)> = Vec::new();
        for e in &order {
            match e {
                Ev::Sync { x, t2 } => {
                    let sx = &syncs[*x];
                    let src = if sx.from_parent { parent } else { decoy };
                    let mut f = Frame::new(MsgType::Sync, src, sx.seq, Body::Sync { origin: if sx.two_step { Ts::default() } else { sx.t1 } });
                    f.hdr.correction = sx.c_sync;
                    if sx.two_step {
                        f.hdr.flags |= flag::TWO_STEP;
                    }
                    script.push(format!("Sync#{}{} t2={}", sx.seq, if sx.from_parent { "" } else { "(decoy)" }, t2));
                    sync_delivered.push((*x, *t2, epoch));
                    w.host_call(0, 0, HostCall::RxEvent(Rc::new(f.encode()), *t2), ch);
                }
                Ev::FollowUp { x } => {
                    let sx = &syncs[*x];
                    let src = if sx.from_parent { parent } else { decoy };
                    let mut f = Frame::new(MsgType::FollowUp, src, sx.seq, Body::FollowUp { precise_origin: sx.t1 });
                    f.hdr.correction = sx.c_fu;
                    script.push(format!("FollowUp#{}{}", sx.seq, if sx.from_parent { "" } else { "(decoy)" }));
                    fu_delivered.push((*x, epoch));
                    w.host_call(0, 0, HostCall::RxGeneral(Rc::new(f.encode())), ch);
                }
                Ev::DelayTimer => {
                    script.push("delay timer".into());
                    w.host_call(0, 0, HostCall::Timer(T_DELAY), ch);
                    scan_reqs(&w, &mut reqs, epoch);
                }
                Ev::ParentSwitch => {}
                Ev::TxTs { j, t3 } => {
                    if let Some(r) = reqs.get_mut(*j) {
                        if r.t3.is_none() {
                            script.push(format!("TX timestamp of Delay_Req#{} t3={}", r.seq, t3));
                            r.t3 = Some((*t3, epoch));
                            let ctx = r.ctx;
                            w.host_call(0, 0, HostCall::TxTimestamp(ctx, *t3), ch);
                        }
                    }
                }
                Ev::DelayResp { j, t4, c, from_parent, for_us } => {
                    if let Some(r) = reqs.get_mut(*j) {
                        let src = if *from_parent { parent } else { decoy };
                        let req = if *for_us { own } else { Pid::new(OWN, 9) };
                        let mut f = Frame::new(MsgType::DelayResp, src, r.seq, Body::DelayResp { receive: *t4, requesting: req });
                        f.hdr.correction = *c;
                        script.push(format!("Delay_Resp#{}{}{}", r.seq, if *from_parent { "" } else { "(decoy sender)" }, if *for_us { "" } else { "(other requester)" }));
                        if *for_us {
                            r.resp.push((*t4, *c, *from_parent, epoch));
                        }
                        w.host_call(0, 0, HostCall::RxGeneral(Rc::new(f.encode())), ch);
                    }
                }
            }
            if let Ev::ParentSwitch = e {
                script.push("other master announces better attributes; BMCA selects it".into());
                let gm2 = GmData::simple(DECOY, 5);
                for k in 0..2u16 {
                    let f = announce_frame(decoy, 300 + k, &gm2, 0, 0, 0);
                    w.host_call(0, 0, HostCall::RxGeneral(Rc::new(f.encode())), ch);
                    w.run_bmca(0, ch);
                }
                let pd = w.nodes[0].inst.parent_ds();
                if w.nodes[0].ports[0].state() != PState::Slave || pd.parent_port_identity.clock_identity.0 != DECOY {
                    out_v.push(("C09.setup_failed".into(), "switch".into(), "port did not become slave of the second master".into()));
                }
                epoch += 1;
                parent_is_original = false;
                last_raw_sync = None;
                w.out.probe("parent_changed_with_exchanges_in_flight");
            }
            // check new measurements
            let entries = rec.borrow().entries.clone();
            for m in entries.iter().skip(n_meas_before) {
                let m = &m.m;
                let ev_t = time_units(m.event_time);
                let mut explained = false;
                if let Some(rs) = m.raw_sync_offset {
                    let rs = duration_to_units(rs);
                    for (x, t2, ep) in &sync_delivered {
                        let sx = &syncs[*x];
                        // only exchanges of the current parent, received entirely since it was selected
                        if sx.from_parent != parent_is_original || *ep != epoch {
                            continue;
                        }
                        if sx.two_step && !fu_delivered.contains(&(*x, epoch)) {
                            continue;
                        }
                        let recv = *t2 as i128 - corr_to_units(sx.c_sync);
                        let send = ts_to_units(sx.t1) + if sx.two_step { corr_to_units(sx.c_fu) } else { 0 };
                        let want = recv - send - asym;
                        if (want - rs).abs() <= TOL && (recv - ev_t as i128).abs() <= TOL {
                            explained = true;
                            if used_sync.contains(&(*x, *t2)) {
                                explained_dup += 1;
                            }
                            used_sync.push((*x, *t2));
                            break;
                        }
                    }
                    if !explained {
                        out_v.push((
                            "C09.sync_measurement_not_from_one_exchange".into(),
                            format!("two_step={two_step}"),
                            format!("filter received raw_sync_offset={} event_time={} which no single delivered Sync(/Follow_Up) exchange of the parent explains; script: {}", rs, ev_t, script.join(" | ")),
                        ));
                    }
                    // offset = raw - mean_delay (mean delay known once any measurement was processed)
                    let want_off = if any_measurement { Some(rs - md_units) } else { None };
                    let got_off = m.offset.map(duration_to_units);
                    let ok = match (want_off, got_off) {
                        (Some(a), Some(b)) => (a - b).abs() <= TOL,
                        (None, None) => true,
                        _ => false,
                    };
                    if !ok {
                        out_v.push(("C09.offset_not_raw_minus_mean_delay".into(), String::new(), format!("offset {:?} but raw_sync_offset {} and mean delay {} (expected {:?}); script: {}", got_off, rs, md_units, want_off, script.join(" | "))));
                    }
                    last_raw_sync = Some(rs);
                    if m.raw_delay_offset.is_some() || m.delay.is_some() || m.peer_delay.is_some() {
                        out_v.push(("C09.mixed_measurement_kinds".into(), String::new(), format!("{m:?}")));
                    }
                } else if let Some(rd) = m.raw_delay_offset {
                    let rd = duration_to_units(rd);
                    for r in &reqs {
                        let Some((t3, t3_epoch)) = r.t3 else { continue };
                        if r.epoch != epoch || t3_epoch != epoch {
                            continue;
                        }
                        for (t4, c, from_original, ep) in &r.resp {
                            if *from_original != parent_is_original || *ep != epoch {
                                continue;
                            }
                            let recv = ts_to_units(*t4) - corr_to_units(*c);
                            let want = t3 as i128 - recv - asym;
                            if (want - rd).abs() <= TOL && (t3 as i128 - ev_t as i128).abs() <= TOL {
                                explained = true;
                            }
                        }
                    }
                    if !explained {
                        out_v.push((
                            "C09.delay_measurement_not_from_one_exchange".into(),
                            String::new(),
                            format!("filter received raw_delay_offset={} event_time={} which no single Delay_Req/Delay_Resp exchange explains; script: {}", rd, ev_t, script.join(" | ")),
                        ));
                    }
                    let want_delay = last_raw_sync.map(|s| (s - rd) / 2);
                    let got = m.delay.map(duration_to_units);
                    let ok = match (want_delay, got) {
                        (Some(a), Some(b)) => (a - b).abs() <= TOL,
                        (None, None) => true,
                        _ => false,
                    };
                    if !ok {
                        out_v.push(("C09.delay_not_half_difference".into(), String::new(), format!("delay {:?}, expected {:?} = (last raw sync {:?} - raw delay {})/2; script: {}", got, want_delay, last_raw_sync, rd, script.join(" | "))));
                    }
                } else {
                    out_v.push(("C09.empty_measurement".into(), String::new(), format!("{m:?}")));
                }
                any_measurement = true;
            }
            n_meas_before = entries.len();
        }
        let n_meas = n_meas_before;
        for (o, k, m) in out_v {
            w.out.violate("C09", &o, k, m);
        }
        w.out.nontrivial = n_meas >= 1;
        w.out.oracle_evals = n_meas as u64;
        w.out.probe_n("measurements", n_meas as u64);
        w.out.probe_n("measurement_from_duplicate_delivery", explained_dup);
        if s0 >= 65534 && n_sync >= 2 {
            w.out.probe("sequence_wrap_crossed");
        }
        for s in &script {
            w.shape.str(&s[..s.find(' ').unwrap_or(s.len()).min(s.find('#').unwrap_or(s.len()))]);
        }
        w.shape.u64(n_meas as u64);
        w.out.sample = Some(json!({"two_step": two_step, "mean_delay_units": md_units.to_string(), "asymmetry_units": asym.to_string(), "script": script, "measurements": n_meas}));
        w.finish()
    }
}

fn time_units(t: statime::time::Time) -> u128 {
    t.nanos().to_bits()
}
