//! C06 - foreign masters qualify only by sustained Announces and expire when
//! silent. Arrival-time model (necessary / sufficient / expiry) against the
//! observed parent after every BMCA run.

use crate::clock::*;
use crate::host::*;
use crate::model::{self, Cmp};
use crate::script::{announce_frame, GmData};
use crate::wire::*;
use serde_json::json;
use vcommon::tape::*;
use vcommon::{Check, Chooser, RunOutcome, Tier};

pub struct C06;

const OWN: [u8; 8] = [0x50, 0, 0, 0, 0, 0, 0, 0x06];

#[derive(Clone, Debug)]
struct M {
    pid: Pid,
    gm: GmData,
    seq: u16,
    deliveries: Vec<(Tt, u16)>,
    /// time of the last fresh (sequence id moving forward) delivery per interval index
    pattern: Vec<&'static str>,
}

impl Check for C06 {
    fn property(&self) -> &'static str {
        "C06"
    }
    fn family(&self) -> &'static str {
        "c06_announce_arrival_patterns"
    }
    fn budget(&self, tier: Tier) -> u64 {
        match tier {
            Tier::Quick => 100_000,
            Tier::Thorough => 2_000_000,
        }
    }
    fn run(&self, ch: &mut Chooser, _tier: Tier) -> RunOutcome {
        let mut w = World::new();
        w.keep_emitted = false;
        w.hostf.random_ties = ch.boolean(S_CFG);
        let log = *ch.pick(S_CFG, &[0i8, -1, -2, 1]);
        let i_units = HostPort::interval_units(log);
        let low_class = ch.chance(S_CFG, 1, 5);
        let slave_only = !low_class && ch.chance(S_CFG, 1, 5);
        let mut spec = NodeSpec::default();
        spec.id = OWN;
        spec.priority1 = if slave_only { 255 } else { *ch.pick(S_CFG, &[200u8, 128, 60]) };
        spec.class = if low_class { 6 } else if slave_only { 255 } else { 248 };
        spec.slave_only = slave_only;
        spec.bmca_phase_pm = ch.range(S_CFG, 1, 999);
        spec.ports[0].announce_log = log;
        spec.ports[0].sync_log = log;
        spec.ports[0].delay_log = log;
        spec.ports[0].receipt_timeout = ch.range(S_CFG, 2, 5) as u8;
        spec.ports[0].filter = FilterKind::Basic(0.25);
        spec.ports[0].forward_tlvs = false;
        let own_spec = spec.clone();
        w.add_node(spec, ch);
        let capacity_case = ch.chance(S_CFG, 1, 12);
        let n_m = if capacity_case { 9 } else { ch.range(S_CFG, 1, 3) as usize };
        let mut ms: Vec<M> = Vec::new();
        for k in 0..n_m {
            let mut id = [0x10 + k as u8, 0, 0, 0, 0, 0, 0, 0x30 + k as u8];
            // two ports of one foreign clock (e.g. a boundary clock with two ports on this segment)
            // are two different foreign masters: same clockIdentity, different portNumber
            let sibling = k > 0 && !capacity_case && ch.chance(S_CFG, 1, 5);
            if sibling {
                id = ms[0].pid.clock;
            }
            let own_identity = !sibling && !capacity_case && ch.chance(S_CFG, 1, 10);
            if own_identity {
                id = OWN;
            }
            let mut gm = GmData::simple(id, *ch.pick(S_CFG, &[10u8, 100, 150, 220]) + k as u8);
            gm.steps_removed = *ch.pick(S_CFG, &[0u16, 0, 1, 254, 255, 300]);
            if own_identity {
                gm.identity = [0x01; 8];
            }
            let seq0 = *ch.pick(S_CFG, &[0u16, 65530, 65535, 32760, 100]);
            if sibling {
                w.out.probe("two_ports_of_one_foreign_clock");
            }
            ms.push(M { pid: Pid::new(id, if own_identity { 5 } else { (k + 1) as u16 }), gm, seq: seq0, deliveries: Vec::new(), pattern: Vec::new() });
        }
        // arrival plan over 16 intervals
        let horizon = 16u128;
        for k in 0..horizon {
            for mi in 0..n_m {
                let kind = ch.weighted(S_WORK, &[8, 4, 2, 1, 1]);
                let m = &mut ms[mi];
                let phase = (mi as u128 * 37 % 200) * i_units / 1000 + ch.choose(S_WORK, 200) as u128 * i_units / 1000;
                let at = k * i_units + phase + i_units / 10;
                let name = match kind {
                    0 => {
                        m.seq = m.seq.wrapping_add(1);
                        w.schedule_script(at, 300, mi as u64, m.seq as u64);
                        "present"
                    }
                    1 => "absent",
                    2 => {
                        // duplicated: the same Announce (same sequenceId) delivered twice
                        m.seq = m.seq.wrapping_add(1);
                        w.schedule_script(at, 300, mi as u64, m.seq as u64);
                        w.schedule_script(at + i_units / 50, 300, mi as u64, m.seq as u64);
                        "duplicated"
                    }
                    3 => {
                        // stale: an old sequence id again
                        let s = m.seq.wrapping_sub(*ch.pick(S_WORK, &[1u16, 3, 40000]));
                        w.schedule_script(at, 300, mi as u64, s as u64);
                        "stale"
                    }
                    _ => {
                        // two Announces delivered out of order within the interval
                        let a = m.seq.wrapping_add(1);
                        let b = m.seq.wrapping_add(2);
                        m.seq = b;
                        w.schedule_script(at, 300, mi as u64, b as u64);
                        w.schedule_script(at + i_units / 20, 300, mi as u64, a as u64);
                        "reordered"
                    }
                };
                m.pattern.push(name);
            }
        }
        let end = (horizon + 8) * i_units;
        let own_cmp = crate::netgen::own_cmp(&own_spec);
        let own_rx = Pid::new(OWN, 1);
        let mut last_bmca = 0u64;
        let mut viol: Vec<(String, String, String)> = Vec::new();
        let mut evals = 0u64;
        let mut parent_seen = 0u64;
        let mut prev_steady: Option<usize> = None;
        let mut prev_bmca_t: Tt = 0;
        let step_units = {
            let b = w.bmca_interval(0);
            b
        };
        loop {
            let Some(st) = w.step(ch, end) else { break };
            if let Stepped::Script { tag: 300, a, b } = st {
                let m = &mut ms[a as usize];
                let f = announce_frame(m.pid, b as u16, &m.gm, 0, 0, log);
                m.deliveries.push((w.now(), b as u16));
                w.host_call(0, 0, HostCall::RxGeneral(std::rc::Rc::new(f.encode())), ch);
            }
            let node = &w.nodes[0];
            if node.bmca_count == last_bmca {
                continue;
            }
            last_bmca = node.bmca_count;
            let t = w.now();
            evals += 1;
            let st = node.ports[0].state();
            let pd = node.inst.parent_ds();
            let parent = Pid::new(pd.parent_port_identity.clock_identity.0, pd.parent_port_identity.port_number);
            // which master is the parent / the cause of Passive?
            let cause: Option<usize> = match st {
                PState::Slave => ms.iter().position(|m| m.pid == parent),
                _ => None,
            };
            let window = 4 * i_units + step_units;
            let distinct_in = |m: &M, from: Tt, to: Tt| -> usize {
                let mut seqs: Vec<u16> = m.deliveries.iter().filter(|(at, _)| *at >= from && *at <= to).map(|(_, s)| *s).collect();
                seqs.sort();
                seqs.dedup();
                seqs.len()
            };
            if st == PState::Slave {
                parent_seen += 1;
                match cause {
                    None => viol.push(("C06.parent_is_no_known_master".into(), String::new(), format!("port is slave of {:?} which never announced", parent))),
                    Some(mi) => {
                        let m = &ms[mi];
                        let n_all = m.deliveries.iter().filter(|(at, _)| *at + window >= t && *at <= t).count();
                        let n_distinct = distinct_in(m, t.saturating_sub(window), t);
                        if m.gm.steps_removed >= 255 {
                            viol.push(("C06.parent_with_steps_removed_255_or_more".into(), String::new(), format!("parent announces stepsRemoved {}", m.gm.steps_removed)));
                        }
                        if m.pid.clock == OWN {
                            viol.push(("C06.parent_bears_own_clock_identity".into(), String::new(), "the port selected a master carrying the instance's own clock identity".into()));
                        }
                        if n_distinct < 2 {
                            viol.push((
                                "C06.qualified_with_fewer_than_two_announces_in_window".into(),
                                format!("deliveries_in_window={} distinct_sequence_ids={}", n_all.min(3), n_distinct),
                                format!(
                                    "at t={:.3}s the port is slave of master {} although only {} Announce deliveries with {} distinct sequenceIds from it fall into the last 4 announce intervals + one BMCA step; pattern {:?}",
                                    tt_to_secs(t), mi, n_all, n_distinct, m.pattern
                                ),
                            ));
                        }
                    }
                }
            }
            if st == PState::Passive && low_class {
                // cause: some master better than us must be qualified; necessary condition on at least one master
                let any = ms.iter().any(|m| distinct_in(m, t.saturating_sub(window), t) >= 2 && m.gm.steps_removed < 255 && m.pid.clock != OWN);
                if !any {
                    let most = ms.iter().map(|m| m.deliveries.iter().filter(|(at, _)| *at + window >= t && *at <= t).count()).max().unwrap_or(0);
                    viol.push((
                        "C06.qualified_with_fewer_than_two_announces_in_window".into(),
                        format!("deliveries_in_window={} distinct_sequence_ids=1 cause_of=passive", most.min(3)),
                        format!("port Passive at t={:.3}s although no master has two distinct Announces in the window (most deliveries from one master: {})", tt_to_secs(t), most),
                    ));
                }
            }
            // expiry: silent for 4 I + 2 BMCA steps
            if let Some(mi) = cause {
                let m = &ms[mi];
                let last = m.deliveries.iter().map(|(at, _)| *at).filter(|at| *at <= t).max().unwrap_or(0);
                if t > last + 4 * i_units + 2 * step_units {
                    viol.push(("C06.silent_master_still_parent".into(), String::new(), format!("master {} last announced at {:.3}s and is still parent at {:.3}s (4 intervals + 2 BMCA steps later)", mi, tt_to_secs(last), tt_to_secs(t))));
                }
            }
            // sufficient (<= 8 masters): the best steadily announcing master is the parent after the next BMCA
            if !capacity_case {
                let steady = |m: &M, upto: Tt| -> bool {
                    if m.gm.steps_removed >= 255 || m.pid.clock == OWN {
                        return false;
                    }
                    // everything it delivered in the foreign-master window (plus two BMCA steps) moved the
                    // sequence id forward by small steps: no stale, duplicated or re-ordered Announce that
                    // the freshness test would legitimately hold against later ones
                    let from = upto.saturating_sub(window + 2 * step_units);
                    let recent: Vec<u16> = m.deliveries.iter().filter(|(at, _)| *at > from && *at <= upto).map(|(_, s)| *s).collect();
                    if recent.windows(2).any(|p| {
                        let d = p[1].wrapping_sub(p[0]);
                        d == 0 || d > 8
                    }) {
                        return false;
                    }
                    // one fresh Announce in each of the three intervals before `upto`, sequence ids moving forward
                    let mut last_seq: Option<u16> = None;
                    for k in (1..=3u128).rev() {
                        let (a, b) = (upto.saturating_sub(k * i_units), upto.saturating_sub((k - 1) * i_units));
                        let v: Vec<u16> = m.deliveries.iter().filter(|(at, _)| *at > a && *at <= b).map(|(_, s)| *s).collect();
                        if v.len() != 1 {
                            return false;
                        }
                        if let Some(l) = last_seq {
                            let d = v[0].wrapping_sub(l);
                            if d == 0 || d > 8 {
                                return false;
                            }
                        }
                        last_seq = Some(v[0]);
                    }
                    true
                };
                // candidates that may be qualified at all: anything delivered within the window
                let recent: Vec<usize> = (0..n_m).filter(|i| ms[*i].deliveries.iter().any(|(at, _)| *at + window + i_units >= t && *at <= t)).collect();
                let steady_now: Vec<usize> = recent.iter().copied().filter(|i| steady(&ms[*i], t)).collect();
                let cmp_of = |m: &M| Cmp::from_announce(&m.gm.body(), m.pid, own_rx);
                let best_steady = steady_now.iter().copied().find(|i| recent.iter().all(|j| j == i || model::compare(&cmp_of(&ms[*i]), &cmp_of(&ms[*j]), true).a_wins()));
                // two ports of one foreign clock with equal data are indistinguishable for statime's
                // comparison ("error-2", open finding C05.outcome_depends_on_announce_order): no unique best
                let tie_with_sibling = |b: usize| recent.iter().any(|j| *j != b && ms[*j].pid.clock == ms[b].pid.clock && !model::compare(&cmp_of(&ms[b]), &cmp_of(&ms[*j]), false).a_wins() && !model::compare(&cmp_of(&ms[b]), &cmp_of(&ms[*j]), false).b_wins());
                if let (Some(b), Some(pb)) = (best_steady, prev_steady) {
                    if b == pb && steady(&ms[b], prev_bmca_t) && !tie_with_sibling(b) {
                        let better_than_own = model::compare(&cmp_of(&ms[b]), &own_cmp, true).a_wins();
                        if better_than_own {
                            let ok = if low_class { st == PState::Passive } else { st == PState::Slave && cause == Some(b) };
                            if !ok {
                                viol.push((
                                    "C06.steady_best_master_not_selected".into(),
                                    format!("state={:?} low_class={}", st, low_class),
                                    format!("master {} has delivered one fresh Announce per interval for more than three intervals and ranks best, yet at t={:.3}s the port is {:?} with parent {:?}; patterns {:?}", b, tt_to_secs(t), st, parent, ms.iter().map(|m| m.pattern.clone()).collect::<Vec<_>>()),
                                ));
                            }
                        }
                    }
                }
                prev_steady = best_steady;
                prev_bmca_t = t;
            }
        }
        for (o, k, m) in viol {
            w.out.violate("C06", &o, k, m);
        }
        w.out.oracle_evals = evals;
        w.out.nontrivial = parent_seen > 0 || low_class;
        w.out.probe_n("bmca_runs_with_slave_port", parent_seen);
        if capacity_case {
            w.out.probe("nine_masters");
        }
        for m in &ms {
            for p in &m.pattern {
                w.shape.str(p);
            }
            if m.deliveries.windows(2).any(|d| d[0].1 > 60000 && d[1].1 < 100) {
                w.out.probe("sequence_wrap_crossed");
            }
        }
        w.out.sample = Some(json!({"masters": ms.iter().map(|m| json!({"id": m.pid.short(), "priority1": m.gm.priority1, "steps": m.gm.steps_removed, "pattern": m.pattern})).collect::<Vec<_>>(),
            "interval_log": log, "low_class": low_class, "slave_only": slave_only}));
        w.finish()
    }
}
