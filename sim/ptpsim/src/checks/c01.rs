//! C01 - a network of real statime instances converges to one grandmaster and
//! a loop-free master/slave tree, re-converges after one fault, does not flap.

use crate::clock::*;
use crate::host::*;
use crate::netgen::{self, NetOpts, NetPlan};
use crate::wire::Pid;
use serde_json::json;
use std::collections::BTreeSet;
use vcommon::tape::*;
use vcommon::{Check, Chooser, RunOutcome, Tier};

/// allowance (announce intervals) for counting a vanished grandmaster's data up to stepsRemoved 255
const RING_EXTRA: u128 = 800;

pub struct C01 {
    pub family: &'static str,
    pub skew: bool,
    pub noisy: bool,
    pub quick_runs: u64,
    pub thorough_runs: u64,
}

#[derive(Clone, Debug)]
enum Fault {
    Cut(usize),
    Heal(usize),
    Silence(usize),
    Unsilence(usize),
    Restart(usize),
    Quality(usize, u8, u8), // node, class, priority-irrelevant accuracy
}

struct NetState {
    /// nodes that are alive (not silenced)
    alive: Vec<bool>,
}

fn pid_of_parent(n: &HostNode) -> Pid {
    let p = n.inst.parent_ds();
    Pid::new(p.parent_port_identity.clock_identity.0, p.parent_port_identity.port_number)
}

/// connected components over (alive nodes, uncut segments)
fn components(w: &World, st: &NetState) -> Vec<Vec<usize>> {
    let n = w.nodes.len();
    let mut comp = vec![usize::MAX; n];
    let mut out: Vec<Vec<usize>> = Vec::new();
    for start in 0..n {
        if !st.alive[start] || comp[start] != usize::MAX {
            continue;
        }
        let c = out.len();
        let mut stack = vec![start];
        comp[start] = c;
        let mut members = vec![];
        while let Some(x) = stack.pop() {
            members.push(x);
            for hp in &w.nodes[x].ports {
                let Some(s) = hp.segment else { continue };
                if w.segments[s].cut {
                    continue;
                }
                for m in &w.segments[s].members {
                    if let Endpoint::Host { node, .. } = m {
                        if st.alive[*node] && comp[*node] == usize::MAX {
                            comp[*node] = c;
                            stack.push(*node);
                        }
                    }
                }
            }
        }
        members.sort();
        out.push(members);
    }
    out
}

fn current_specs(w: &World) -> Vec<NodeSpec> {
    // specs with the *current* clock quality (after a quality-change fault)
    w.nodes
        .iter()
        .map(|n| {
            let mut s = n.spec.clone();
            let d = n.inst.default_ds();
            s.class = d.clock_quality.clock_class;
            s.accuracy = d.clock_quality.clock_accuracy.to_primitive();
            s.variance = d.clock_quality.offset_scaled_log_variance;
            s
        })
        .collect()
}

/// full fingerprint of the hierarchy (for the no-flapping clause)
fn hierarchy_fp(w: &World, st: &NetState) -> Vec<(usize, Vec<PState>, Pid)> {
    w.nodes
        .iter()
        .enumerate()
        .filter(|(i, _)| st.alive[*i])
        .map(|(i, n)| (i, n.states(), pid_of_parent(n)))
        .collect()
}

fn check_steady(w: &World, st: &NetState, phase: &str, out: &mut RunOutcome) {
    let specs = current_specs(w);
    for members in components(w, st) {
        let gm = netgen::best_node(&specs, &members);
        let Some(gm) = gm else {
            // only slave-only nodes: nobody may be master or slave
            for &i in &members {
                for (pi, s) in w.nodes[i].states().iter().enumerate() {
                    if matches!(s, PState::Master | PState::Slave) {
                        out.violate("C01", "C01.island_without_master_capable_node", format!("phase={phase}"), format!("node {i} port {pi} is {:?} in a component with no master-capable node", s));
                    }
                }
            }
            continue;
        };
        let gm_id = specs[gm].id;
        // 1. GM*
        {
            let n = &w.nodes[gm];
            let pd = n.inst.parent_ds();
            let steps = n.inst.current_ds(None).steps_removed;
            if pd.grandmaster_identity.0 != gm_id || steps != 0 {
                out.violate(
                    "C01",
                    "C01.best_clock_is_not_grandmaster",
                    format!("phase={phase}"),
                    format!("node {gm} ({}) ranks best in its component {:?} but has grandmaster {:02x?} stepsRemoved {steps}; states {:?}", Pid::new(gm_id, 0).short(), members, pd.grandmaster_identity.0, n.states()),
                );
            }
            let mut by_seg: std::collections::BTreeMap<usize, Vec<usize>> = Default::default();
            for (pi, hp) in n.ports.iter().enumerate() {
                if let Some(s) = hp.segment {
                    by_seg.entry(s).or_default().push(pi);
                }
            }
            for (_s, ports) in by_seg {
                // A grandmaster port alone on its segment must be Master. Where two ports of the
                // grandmaster share a segment the statement only demands one Master port on that
                // segment (clause 4 below) and no Slave port; which sibling is Master and whether
                // the other is Passive or still Listening is not prescribed.
                for pi in ports.iter() {
                    let stt = n.ports[*pi].state();
                    let bad = if ports.len() == 1 { stt != PState::Master } else { stt == PState::Slave || stt == PState::Faulty };
                    if bad {
                        out.violate(
                            "C01",
                            "C01.grandmaster_port_state",
                            format!("phase={phase} got={stt:?} dual={}", ports.len() > 1),
                            format!("grandmaster node {gm} port {pi} is {stt:?} (its ports on this segment: {ports:?})"),
                        );
                    }
                }
            }
        }
        // 2./3. every other node
        for &i in &members {
            if i == gm {
                continue;
            }
            let n = &w.nodes[i];
            let states = n.states();
            let nslave = states.iter().filter(|s| **s == PState::Slave).count();
            let low_class_ordinary = specs[i].class < 128 && !specs[i].slave_only;
            if low_class_ordinary {
                // clockClass < 128 and not best: must not be slave; port passive
                if nslave != 0 || states.iter().any(|s| *s != PState::Passive) {
                    out.violate("C01", "C01.low_class_clock_not_passive", format!("phase={phase}"), format!("node {i} (clockClass {}) is not the best clock, expected Passive, got {:?}", specs[i].class, states));
                }
                continue;
            }
            if nslave != 1 {
                out.violate(
                    "C01",
                    "C01.slave_port_count",
                    format!("phase={phase} count={nslave}"),
                    format!("node {i} has {nslave} slave ports (states {:?}); grandmaster should be node {gm}", states),
                );
                continue;
            }
            let sp = states.iter().position(|s| *s == PState::Slave).unwrap();
            let pd = n.inst.parent_ds();
            if pd.grandmaster_identity.0 != gm_id {
                out.violate(
                    "C01",
                    "C01.wrong_grandmaster",
                    format!("phase={phase}"),
                    format!("node {i} follows grandmaster {:02x?}, the best clock of its component is node {gm} {:02x?}", pd.grandmaster_identity.0, gm_id),
                );
            }
            // parent must be a Master port on the same segment
            let parent = pid_of_parent(n);
            let seg = n.ports[sp].segment;
            let mut found = None;
            for (j, m) in w.nodes.iter().enumerate() {
                for (pj, hp) in m.ports.iter().enumerate() {
                    if hp.pid == parent {
                        found = Some((j, pj));
                    }
                }
            }
            match found {
                None => out.violate("C01", "C01.parent_unknown", format!("phase={phase}"), format!("node {i} has parent {} which is no port of the network", parent.short())),
                Some((j, pj)) => {
                    let hp = &w.nodes[j].ports[pj];
                    if hp.segment != seg || hp.state() != PState::Master || !st.alive[j] {
                        out.violate(
                            "C01",
                            "C01.parent_not_master_on_segment",
                            format!("phase={phase} parent_state={:?}", hp.state()),
                            format!("node {i} port {sp} is slave of node {j} port {pj} which is {:?} on segment {:?} (slave port on {:?})", hp.state(), hp.segment, seg),
                        );
                    }
                    let ps = w.nodes[j].inst.current_ds(None).steps_removed;
                    let ms = n.inst.current_ds(None).steps_removed;
                    if ms != ps + 1 {
                        out.violate("C01", "C01.steps_removed_chain", format!("phase={phase}"), format!("node {i} stepsRemoved {ms}, parent node {j} stepsRemoved {ps}"));
                    }
                }
            }
            // chain reaches GM in <= N hops
            let mut cur = i;
            let mut hops = 0;
            let mut ok = false;
            while hops <= w.nodes.len() {
                if cur == gm {
                    ok = true;
                    break;
                }
                let p = pid_of_parent(&w.nodes[cur]);
                match w.nodes.iter().position(|m| m.spec.id == p.clock) {
                    Some(nx) if nx != cur => cur = nx,
                    _ => break,
                }
                hops += 1;
            }
            if !ok {
                out.violate("C01", "C01.parent_chain_does_not_reach_grandmaster", format!("phase={phase}"), format!("following parents from node {i} does not reach grandmaster node {gm} within {} hops", w.nodes.len()));
            }
        }
        // 4. exactly one master port per segment with a master-capable instance attached
        let mut segs: BTreeSet<usize> = BTreeSet::new();
        for &i in &members {
            for hp in &w.nodes[i].ports {
                if let Some(s) = hp.segment {
                    if !w.segments[s].cut {
                        segs.insert(s);
                    }
                }
            }
        }
        // 5. a port on a failed link hears nothing: it is on a segment of its own, and if its instance
        // may be master it is that segment's master
        for &i in &members {
            if specs[i].slave_only {
                continue;
            }
            for (pi, hp) in w.nodes[i].ports.iter().enumerate() {
                if let Some(sg) = hp.segment {
                    if w.segments[sg].cut && hp.state() != PState::Master {
                        out.violate(
                            "C01",
                            "C01.port_on_failed_link_not_master",
                            format!("phase={phase} state={:?}", hp.state()),
                            format!("node {i} port {pi} sits on the cut segment {sg} (it hears nothing) but is {:?}", hp.state()),
                        );
                    }
                }
            }
        }
        for s in segs {
            let mut masters = 0;
            let mut capable = false;
            for m in &w.segments[s].members {
                if let Endpoint::Host { node, port } = m {
                    if !st.alive[*node] {
                        continue;
                    }
                    if !specs[*node].slave_only {
                        capable = true;
                    }
                    if w.nodes[*node].ports[*port].state() == PState::Master {
                        masters += 1;
                    }
                }
            }
            if capable && masters != 1 {
                // does one instance have two ports on this segment?
                let mut owners: Vec<usize> = w.segments[s].members.iter().filter_map(|m| if let Endpoint::Host { node, .. } = m { Some(*node) } else { None }).collect();
                owners.sort();
                let dual = owners.windows(2).any(|p| p[0] == p[1]);
                out.violate(
                    "C01",
                    "C01.segment_master_count",
                    format!("phase={phase} masters={masters} dual_port_segment={dual}"),
                    format!("segment {s} has {masters} ports in the master state; members {:?}", w.segments[s].members),
                );
            }
        }
    }
}

impl C01 {
    fn window(&self, w: &mut World, ch: &mut Chooser, st: &NetState, settle: Tt, hold: Tt, step: Tt, tau: u128, phase: &str) {
        let t0 = w.now();
        // Wait for convergence, at most `settle`: the deadline is what the oracle enforces, but a
        // network that already satisfies every invariant continuously for `quiet` (well above the time
        // any pending timeout or foreign-master window can still act) goes into the hold window at
        // once - the hold window then looks for changes where they would be most likely.
        let quiet = step * 2 * (2 * tau + 6);
        let mut clean_since: Option<Tt> = None;
        loop {
            let now = w.now();
            if now >= t0 + settle {
                break;
            }
            w.run_until(ch, (now + step).min(t0 + settle));
            let mut scratch = RunOutcome::default();
            check_steady(w, st, phase, &mut scratch);
            if std::env::var("VERIF_TRACE").is_ok() {
                eprintln!("t={:.1}s ({phase}) steps {:?} clean={}", tt_to_secs(w.now()), w.nodes.iter().map(|n| n.inst.current_ds(None).steps_removed).collect::<Vec<_>>(), scratch.violations.is_empty());
            }
            if scratch.violations.is_empty() {
                let since = *clean_since.get_or_insert(w.now());
                if w.now() - since >= quiet {
                    w.out.probe("settled_before_deadline");
                    break;
                }
            } else {
                clean_since = None;
            }
        }
        let mut out = std::mem::take(&mut w.out);
        check_steady(w, st, phase, &mut out);
        out.oracle_evals += 1;
        let fp0 = hierarchy_fp(w, st);
        w.out = out;
        let mut t = w.now();
        let end = t + hold;
        while t < end {
            t += step;
            w.run_until(ch, t);
            let mut out = std::mem::take(&mut w.out);
            check_steady(w, st, phase, &mut out);
            out.oracle_evals += 1;
            let fp = hierarchy_fp(w, st);
            if fp != fp0 {
                let diff: Vec<String> = fp
                    .iter()
                    .zip(fp0.iter())
                    .filter(|(a, b)| a != b)
                    .map(|(a, b)| format!("node {}: {:?}/{} -> {:?}/{}", a.0, b.1, b.2.short(), a.1, a.2.short()))
                    .collect();
                let dual = w.nodes.iter().any(|n| {
                    let segs: Vec<_> = n.ports.iter().filter_map(|p| p.segment).collect();
                    let set: BTreeSet<_> = segs.iter().collect();
                    set.len() != segs.len()
                });
                out.violate(
                    "C01",
                    "C01.flapping",
                    format!("phase={phase} dual_port_segment={dual}"),
                    format!("hierarchy changed inside the hold window at t={:.3}s: {}", tt_to_secs(w.now()), diff.join("; ")),
                );
            }
            w.out = out;
        }
    }
}

impl Check for C01 {
    fn property(&self) -> &'static str {
        "C01"
    }
    fn family(&self) -> &'static str {
        self.family
    }
    fn budget(&self, tier: Tier) -> u64 {
        match tier {
            Tier::Quick => self.quick_runs,
            Tier::Thorough => self.thorough_runs,
        }
    }
    fn run(&self, ch: &mut Chooser, tier: Tier) -> RunOutcome {
        let opts = NetOpts {
            max_nodes: if tier == Tier::Thorough { 8 } else { 6 },
            allow_rings: true,
            allow_dual: true,
            allow_skew: self.skew,
            kalman: true,
        };
        let plan: NetPlan = netgen::generate(ch, &opts);
        let mut w = World::new();
        w.keep_emitted = false;
        w.hostf.random_ties = ch.boolean(S_CFG);
        netgen::build(&plan, &mut w, ch);
        let n = plan.nodes.len() as u128;
        let i_units = HostPort::interval_units(plan.announce_log);
        let tau = plan.receipt_timeout as u128;
        let mut st = NetState { alive: vec![true; plan.nodes.len()] };

        // optional noisy prelude (loss / duplication / reordering), then quiet
        if self.noisy {
            w.net = NetFaults { drop_ppm: 100_000, dup_ppm: 50_000, reorder_ppm: 100_000, reorder_extra: 20 * MS, corrupt_ppm: 20_000 };
            w.faults_on = true;
            let t = w.now() + i_units * ch.range(S_FAULT, 3, 12) as u128;
            w.run_until(ch, t);
        }
        w.faults_on = false;
        // redundant paths: the node/segment graph has a cycle iff it has more edges (attached ports)
        // than vertices - 1 (it is connected by construction)
        let edges: usize = plan.nodes.iter().map(|nd| nd.ports.iter().filter(|p| p.segment.is_some()).count()).sum();
        // (the generator may produce several components - a node that finds every segment full opens
        // a new one - so count them: a forest has V - C edges)
        let n_vertices = plan.nodes.len() + plan.n_segments;
        let mut comp: Vec<usize> = (0..n_vertices).collect();
        fn find(c: &mut Vec<usize>, x: usize) -> usize {
            let mut r = x;
            while c[r] != r {
                r = c[r];
            }
            let mut y = x;
            while c[y] != r {
                let n = c[y];
                c[y] = r;
                y = n;
            }
            r
        }
        for (ni, nd) in plan.nodes.iter().enumerate() {
            for p in nd.ports.iter() {
                if let Some(sg) = p.segment {
                    let a = find(&mut comp, ni);
                    let b = find(&mut comp, plan.nodes.len() + sg);
                    comp[a] = b;
                }
            }
        }
        let n_components = (0..n_vertices).filter(|v| find(&mut comp, *v) == *v).count();
        let has_cycle = edges + n_components > n_vertices;
        // A corrupted Announce of the noisy prelude can describe a grandmaster that does not exist;
        // in a topology with redundant paths its data then circulate until stepsRemoved reaches 255
        // (see below), so the first convergence gets the same allowance there.
        let conv_extra: u128 = if self.noisy && has_cycle { RING_EXTRA } else { 0 };
        let t_conv = (2 * tau + 4 + 2 * n + conv_extra) * i_units;
        let hold = 20 * i_units;
        let step = i_units / 2;
        self.window(&mut w, ch, &st, t_conv, hold, step, tau, "initial");
        w.shape.byte(0xA1);

        // one fault script
        let specs = current_specs(&w);
        let all: Vec<usize> = (0..plan.nodes.len()).collect();
        let gm = netgen::best_node(&specs, &all);
        let kind = ch.weighted(S_FAULT, &[3, 3, 2, 3]);
        let mut script: Vec<Fault> = Vec::new();
        match kind {
            0 => {
                let s = ch.choose(S_FAULT, plan.n_segments as u64) as usize;
                script.push(Fault::Cut(s));
                if ch.boolean(S_FAULT) {
                    script.push(Fault::Heal(s));
                }
            }
            1 => {
                // silence a node, biased towards the grandmaster
                let node = match gm {
                    Some(g) if ch.boolean(S_FAULT) => g,
                    _ => ch.choose(S_FAULT, plan.nodes.len() as u64) as usize,
                };
                script.push(Fault::Silence(node));
                if ch.boolean(S_FAULT) {
                    script.push(Fault::Unsilence(node));
                }
            }
            2 => {
                let node = ch.choose(S_FAULT, plan.nodes.len() as u64) as usize;
                script.push(Fault::Restart(node));
            }
            _ => {
                let node = match gm {
                    Some(g) if ch.boolean(S_FAULT) => g,
                    _ => ch.choose(S_FAULT, plan.nodes.len() as u64) as usize,
                };
                let boundary = plan.nodes[node].ports.len() > 1;
                let class = if boundary { *ch.pick(S_FAULT, &[248u8, 128, 187]) } else { *ch.pick(S_FAULT, &[248u8, 6, 128, 127, 187]) };
                let acc = *ch.pick(S_FAULT, &[0xfeu8, 0x20, 0x23]);
                if !plan.nodes[node].slave_only {
                    script.push(Fault::Quality(node, class, acc));
                }
            }
        }
        // Without the path trace option IEEE 1588 lets the data of a vanished grandmaster circulate
        // in a ring with stepsRemoved growing by one per hop until it reaches 255. A hop costs up to one
        // announce interval of the emitting port (times its timer skew), and more where the walk moves
        // a node to another parent (two Announces to qualify it plus a BMCA run): observed up to 1.4
        // intervals per hop on average, bounded by about 3. Topologies with redundant paths therefore
        // get RING_EXTRA = 800 intervals more (> 3 x 255).
        let ring_extra: u128 = if has_cycle || plan.has_ring || plan.has_dual { RING_EXTRA } else { 0 };
        let t_reconv = (4 + 2 * tau + 2 * n + ring_extra) * i_units;
        let mut fault_desc = Vec::new();
        for f in script {
            // place the fault at a tape-chosen instant inside an announce interval
            let dt = ch.range(S_FAULT, 0, 1000) as u128 * i_units / 1000;
            let t = w.now() + dt;
            w.run_until(ch, t);
            let phase: String;
            match &f {
                Fault::Cut(s) => {
                    w.segments[*s].cut = true;
                    w.out.fault("segment_cut");
                    phase = "after_cut".into();
                }
                Fault::Heal(s) => {
                    w.segments[*s].cut = false;
                    w.out.fault("segment_heal");
                    phase = "after_heal".into();
                }
                Fault::Silence(nd) => {
                    w.nodes[*nd].silenced = true;
                    st.alive[*nd] = false;
                    w.out.fault(if Some(*nd) == gm { "grandmaster_silenced" } else { "node_silenced" });
                    phase = "after_silence".into();
                }
                Fault::Unsilence(nd) => {
                    w.nodes[*nd].silenced = false;
                    st.alive[*nd] = true;
                    w.out.fault("node_unsilenced");
                    phase = "after_unsilence".into();
                }
                Fault::Restart(nd) => {
                    w.restart_node(*nd, ch);
                    w.out.fault("node_restart");
                    phase = "after_restart".into();
                }
                Fault::Quality(nd, class, acc) => {
                    let q = statime::config::ClockQuality { clock_class: *class, clock_accuracy: accuracy_from_u8(*acc), offset_scaled_log_variance: w.nodes[*nd].spec.variance };
                    w.nodes[*nd].inst.set_clock_quality(q);
                    w.out.fault("quality_change");
                    phase = "after_quality_change".into();
                    // a clockClass<128 boundary clock that is no longer best would split the network (IEEE 1588 behaviour): skip such scripts
                    let specs = current_specs(&w);
                    let best = netgen::best_node(&specs, &all);
                    if specs.iter().enumerate().any(|(i, s)| s.ports.len() > 1 && s.class < 128 && Some(i) != best) {
                        w.out.probe("script_skipped_low_class_boundary");
                        fault_desc.push(format!("{f:?} (skipped)"));
                        break;
                    }
                }
            }
            fault_desc.push(format!("{f:?}"));
            w.shape.byte(0xA2);
            self.window(&mut w, ch, &st, t_reconv, hold, step, tau, &phase);
            w.out.nontrivial = true;
        }
        if fault_desc.is_empty() {
            w.out.nontrivial = true;
        }
        let sample = json!({"plan": netgen::describe(&plan), "faults": fault_desc, "noisy_prelude": self.noisy,
            "final_states": w.nodes.iter().map(|n| format!("{:?}", n.states())).collect::<Vec<_>>()});
        w.out.sample = Some(sample);
        if plan.has_ring {
            w.out.probe("topology.ring");
        }
        if plan.has_dual {
            w.out.probe("topology.two_ports_one_segment");
        }
        w.out.probe(&format!("skew_mode.{}", plan.skew_mode));
        w.finish()
    }
}
