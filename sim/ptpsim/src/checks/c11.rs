//! C11 - Announces advertise the instance's current view of the hierarchy.
//! Boundary clock (2-3 ports) between a scripted parent whose Announce
//! contents change, a competing master, and run-time quality changes.

use crate::clock::*;
use crate::host::*;
use crate::script::*;
use crate::wire::*;
use serde_json::json;
use vcommon::tape::*;
use vcommon::{Check, Chooser, RunOutcome, Tier};

pub struct C11;

pub const BC_ID: [u8; 8] = [0x60, 0, 0, 0xff, 0xfe, 0, 0, 0x42];
pub const PARENT_ID: [u8; 8] = [0x05, 0, 0, 0, 0, 0, 0, 0x11];
pub const RIVAL_ID: [u8; 8] = [0x06, 0, 0, 0, 0, 0, 0, 0x22];

/// what an Announce should carry given the data sets (reference encoding of Table 34/27)
#[derive(Clone, Debug, PartialEq)]
pub struct View {
    pub gm_identity: [u8; 8],
    pub gm_priority1: u8,
    pub gm_priority2: u8,
    pub gm_class: u8,
    pub gm_accuracy: u8,
    pub gm_variance: u16,
    pub steps_removed: u16,
    pub utc_offset: i16,
    pub time_source: u8,
    pub flags: u16,
}

pub const TP_FLAGS: u16 = flag::LEAP61 | flag::LEAP59 | flag::UTC_VALID | flag::PTP_TIMESCALE | flag::TIME_TRACEABLE | flag::FREQ_TRACEABLE;

pub fn view_of_node(n: &HostNode) -> View {
    let pd = n.inst.parent_ds();
    let tp = n.inst.time_properties_ds();
    let mut flags = 0u16;
    match tp.leap_indicator {
        statime::config::LeapIndicator::Leap61 => flags |= flag::LEAP61,
        statime::config::LeapIndicator::Leap59 => flags |= flag::LEAP59,
        _ => {}
    }
    if tp.current_utc_offset.is_some() {
        flags |= flag::UTC_VALID;
    }
    if tp.ptp_timescale {
        flags |= flag::PTP_TIMESCALE;
    }
    if tp.time_traceable {
        flags |= flag::TIME_TRACEABLE;
    }
    if tp.frequency_traceable {
        flags |= flag::FREQ_TRACEABLE;
    }
    View {
        gm_identity: pd.grandmaster_identity.0,
        gm_priority1: pd.grandmaster_priority_1,
        gm_priority2: pd.grandmaster_priority_2,
        gm_class: pd.grandmaster_clock_quality.clock_class,
        gm_accuracy: pd.grandmaster_clock_quality.clock_accuracy.to_primitive(),
        gm_variance: pd.grandmaster_clock_quality.offset_scaled_log_variance,
        steps_removed: n.inst.current_ds(None).steps_removed,
        utc_offset: tp.current_utc_offset.unwrap_or(0),
        time_source: tp.time_source.to_primitive(),
        flags,
    }
}

pub fn view_of_announce(h: &Hdr, a: &AnnounceBody) -> View {
    View {
        gm_identity: a.gm_identity,
        gm_priority1: a.gm_priority1,
        gm_priority2: a.gm_priority2,
        gm_class: a.gm_class,
        gm_accuracy: a.gm_accuracy,
        gm_variance: a.gm_variance,
        steps_removed: a.steps_removed,
        // the utc offset is only meaningful when flagged valid
        utc_offset: if h.flags & flag::UTC_VALID != 0 { a.utc_offset } else { 0 },
        time_source: a.time_source,
        flags: h.flags & TP_FLAGS,
    }
}

fn random_gm(ch: &mut Chooser, id: [u8; 8], p1: u8) -> GmData {
    let mut flags = 0u16;
    match ch.choose(S_WORK, 3) {
        1 => flags |= flag::LEAP61,
        2 => flags |= flag::LEAP59,
        _ => {}
    }
    for f in [flag::UTC_VALID, flag::PTP_TIMESCALE, flag::TIME_TRACEABLE, flag::FREQ_TRACEABLE] {
        if ch.boolean(S_WORK) {
            flags |= f;
        }
    }
    GmData {
        priority1: p1,
        class: *ch.pick(S_WORK, &[6u8, 7, 13, 248]),
        accuracy: *ch.pick(S_WORK, &[0x21u8, 0x17, 0xfe, 0x31]),
        variance: *ch.pick(S_WORK, &[0x4e5du16, 0, 0xffff]),
        priority2: *ch.pick(S_WORK, &[128u8, 0, 255]),
        identity: if ch.chance(S_WORK, 1, 4) { [0x01, 2, 3, 4, 5, 6, 7, ch.choose(S_WORK, 4) as u8] } else { id },
        steps_removed: *ch.pick(S_WORK, &[0u16, 1, 2, 100, 253, 254]),
        utc_offset: *ch.pick(S_WORK, &[37i16, 0, -1, 32767]),
        time_source: *ch.pick(S_WORK, &[0x20u8, 0xa0, 0x10, 0x40, 0x77, 0xfe]),
        flags,
    }
}

impl Check for C11 {
    fn property(&self) -> &'static str {
        "C11"
    }
    fn family(&self) -> &'static str {
        "c11_boundary_clock_announces"
    }
    fn budget(&self, tier: Tier) -> u64 {
        match tier {
            Tier::Quick => 25_000,
            Tier::Thorough => 500_000,
        }
    }
    fn run(&self, ch: &mut Chooser, _tier: Tier) -> RunOutcome {
        let mut w = World::new();
        w.keep_rx = true;
        w.hostf.random_ties = ch.boolean(S_CFG);
        let nports = ch.range(S_CFG, 2, 3) as usize;
        let log = *ch.pick(S_CFG, &[0i8, -1, -2, 1]);
        let i_units = HostPort::interval_units(log);
        let mut spec = NodeSpec::default();
        spec.id = BC_ID;
        spec.priority1 = 128;
        spec.class = 248;
        spec.bmca_phase_pm = ch.range(S_CFG, 1, 999);
        // configured time properties of the instance itself (what it should advertise as grandmaster)
        spec.time_props = TimePropsSpec {
            utc_offset: if ch.boolean(S_CFG) { Some(37) } else { None },
            leap: ch.choose(S_CFG, 3) as u8,
            time_traceable: ch.boolean(S_CFG),
            freq_traceable: ch.boolean(S_CFG),
            ptp_timescale: ch.boolean(S_CFG),
            time_source: *ch.pick(S_CFG, &[0xa0u8, 0x20, 0x10]),
        };
        spec.ports.clear();
        let mut port_logs: Vec<i8> = Vec::new();
        for p in 0..nports {
            let seg = w.add_segment(ch.range(S_CFG, 1, 300) as u128 * US, ch.range(S_CFG, 0, 10) as u128 * US);
            w.attach_script(seg, 10 + p);
            let mut ps = PortSpec::default();
            // ports of one instance need not share an announce interval
            ps.announce_log = log + *ch.pick(S_CFG, &[0i8, 0, 1, 2]);
            port_logs.push(ps.announce_log);
            ps.sync_log = log;
            ps.delay_log = log;
            ps.receipt_timeout = ch.range(S_CFG, 2, 4) as u8;
            ps.segment = Some(seg);
            ps.filter = FilterKind::Basic(0.25);
            spec.ports.push(ps);
        }
        // in a quarter of the runs a further port of the instance sits on the parent's segment
        // (redundant attachment): it hears everything the slave port hears, possibly later
        let dual_parent = ch.chance(S_CFG, 1, 4);
        if dual_parent {
            let mut ps = spec.ports[0].clone();
            ps.segment = spec.ports[0].segment;
            port_logs.push(ps.announce_log);
            spec.ports.push(ps);
        }
        let dual_port = spec.ports.len() - 1;
        let configured = spec.time_props.clone();
        w.add_node(spec, ch);
        let mut parent = RefMaster::new(10, 0, Pid::new(PARENT_ID, 1), random_gm(ch, PARENT_ID, 10), log);
        parent.gm.identity = PARENT_ID;
        // in a third of the runs the rival sits on the parent's segment: a take-over then moves the
        // slave port from one parent straight to another (Slave -> Slave on one port), and the two
        // senders' Announce sequence ids are unrelated (a freshly started master counts from 0,
        // one that has run for hours is anywhere)
        let rival_shares = ch.chance(S_CFG, 1, 3);
        if rival_shares {
            w.attach_script(0, 19);
            w.out.probe("rival_on_parents_segment");
        }
        let (rival_ep, rival_seg) = if rival_shares { (19, 0) } else { (11, 1) };
        let mut rival = RefMaster::new(rival_ep, rival_seg, Pid::new(RIVAL_ID, 1), random_gm(ch, RIVAL_ID, 50), log);
        rival.gm.identity = RIVAL_ID;
        rival.active = ch.boolean(S_CFG);
        parent.seq_announce = *ch.pick(S_CFG, &[0u16, 20_000, 65_530, 40_000]);
        rival.seq_announce = *ch.pick(S_CFG, &[0u16, 0, 7, 65_000, 33_000]);
        // neighbours need not announce at the rate this instance is configured for (the receiver
        // cannot know their rate; a faster parent fills the per-master announce window)
        parent.announce_log = log - *ch.pick(S_CFG, &[0i8, 0, 1, 2, 3, -1]);
        rival.announce_log = log - *ch.pick(S_CFG, &[0i8, 0, 2, -1]);
        parent.start(&mut w, ch.range(S_CFG, 1, 999) as u128 * i_units / 1000);
        rival.start(&mut w, ch.range(S_CFG, 1, 999) as u128 * i_units / 1000);
        let n_intervals = ch.range(S_WORK, 30, 80) as u128;
        let end = n_intervals * i_units;
        let n_changes = ch.range(S_WORK, 3, 12);
        for k in 0..n_changes {
            let at = ch.choose(S_WORK, (end / US) as u64) as u128 * US;
            w.schedule_script(at, TAG_USER + ch.weighted(S_WORK, &[5, 2, 2, 2]) as u64, k, 0);
        }
        let mut stale_copy: Option<(u16, GmData)> = None;
        let mut emitted_seen = 0usize;
        let mut rx_seen = 0usize;
        let mut viol: Vec<(String, String, String)> = Vec::new();
        let mut last_from: std::collections::BTreeMap<(usize, Pid), View> = Default::default();
        let mut last_seq_from: std::collections::BTreeMap<(usize, Pid), u16> = Default::default();
        let mut bmca_at_slave_loss: Option<u64> = None;
        let mut bmca_at_quality_change: Option<u64> = None;
        let mut had_slave = false;
        let mut n_ann = 0u64;
        let mut changes: Vec<String> = Vec::new();
        let mut gm_announces = 0u64;
        let mut log_interval_diff = 0u64;
        let mut allowed_q: Vec<(u8, u8, u16)> = Vec::new();
        let mut allowed_q_bmca = u64::MAX;
        let mut applied_decisions = 0u64;
        let mut slave_announces = 0u64;
        let mut prev_parent: Option<(usize, Pid)> = None;
        // earlier (superseded) fresh Announces per (port, sender), and how many fresh Announces the
        // current parent has delivered to the slave port since it became the parent there
        let mut older_from: std::collections::BTreeMap<(usize, Pid), Vec<View>> = Default::default();
        let mut selected: Option<(usize, Pid)> = None;
        let mut fresh_since_selected = 0u64;
        loop {
            let Some(st) = w.step(ch, end) else { break };
            match st {
                Stepped::Script { tag, a, .. } if tag < TAG_USER => {
                    if !parent.on_script(&mut w, tag, a, ch) {
                        rival.on_script(&mut w, tag, a, ch);
                    }
                }
                Stepped::Script { tag, .. } => match tag - TAG_USER {
                    10 => {
                        // late copy of the parent's previous Announce reaches the port that is not slave
                        if let (Some((old_seq, old_gm)), Some(sp)) = (stale_copy.take(), w.nodes[0].slave_port()) {
                            if dual_parent && (sp == 0 || sp == dual_port) {
                                let target = if sp == 0 { dual_port } else { 0 };
                                let f = announce_frame(parent.pid, old_seq, &old_gm, 0, 0, parent.announce_log);
                                w.inject(0, target, false, f.encode(), 0, None);
                                w.out.fault("late_copy_of_previous_parent_announce_on_sibling_port");
                                changes.push(format!("t={:.2}s late copy of the parent's previous Announce (seq {old_seq}) delivered to port {target}", tt_to_secs(w.now())));
                            }
                        }
                    }
                    0 => {
                        if dual_parent && parent.active && stale_copy.is_none() {
                            stale_copy = Some((parent.seq_announce.wrapping_sub(1), parent.gm.clone()));
                            // after the parent's next Announce (new contents) has certainly been handled
                            let at = w.now() + HostPort::interval_units(parent.announce_log) * 5 / 4 + i_units / 8;
                            w.schedule_script(at, TAG_USER + 10, 0, 0);
                        }
                        if rival.active && ch.chance(S_WORK, 1, 3) {
                            // the rival's Announce contents change (it is the parent after a take-over)
                            let mut g = random_gm(ch, RIVAL_ID, rival.gm.priority1);
                            g.identity = RIVAL_ID;
                            changes.push(format!("t={:.2}s rival announce content change steps={} flags={:#06x}", tt_to_secs(w.now()), g.steps_removed, g.flags));
                            rival.gm = g;
                            w.out.fault("rival_content_change");
                        } else {
                            let mut g = random_gm(ch, PARENT_ID, parent.gm.priority1);
                            if ch.chance(S_WORK, 3, 4) {
                                g.identity = parent.gm.identity;
                            }
                            changes.push(format!("t={:.2}s parent announce content change steps={} flags={:#06x}", tt_to_secs(w.now()), g.steps_removed, g.flags));
                            parent.gm = g;
                            w.out.fault("parent_content_change");
                        }
                    }
                    1 => {
                        parent.active = !parent.active;
                        changes.push(format!("t={:.2}s parent {}", tt_to_secs(w.now()), if parent.active { "returns" } else { "falls silent" }));
                        w.out.fault(if parent.active { "parent_returns" } else { "parent_silent" });
                    }
                    2 => {
                        rival.active = !rival.active;
                        if rival.active {
                            rival.gm.priority1 = *ch.pick(S_WORK, &[50u8, 5]);
                        }
                        changes.push(format!("t={:.2}s rival {} (priority1 {})", tt_to_secs(w.now()), if rival.active { "on" } else { "off" }, rival.gm.priority1));
                        w.out.fault("rival_toggle");
                    }
                    _ => {
                        let q = statime::config::ClockQuality {
                            clock_class: *ch.pick(S_WORK, &[248u8, 187, 135, 255]),
                            clock_accuracy: accuracy_from_u8(*ch.pick(S_WORK, &[0x21u8, 0x23, 0xfe])),
                            offset_scaled_log_variance: *ch.pick(S_WORK, &[0x4e5du16, 0xffff]),
                        };
                        w.nodes[0].inst.set_clock_quality(q);
                        allowed_q.push((q.clock_class, q.clock_accuracy.to_primitive(), q.offset_scaled_log_variance));
                        bmca_at_quality_change = Some(w.nodes[0].bmca_count);
                        changes.push(format!("t={:.2}s set_clock_quality(class {})", tt_to_secs(w.now()), q.clock_class));
                        w.out.fault("local_quality_change");
                    }
                },
                Stepped::ScriptRx { endpoint, event, frame, .. } => {
                    parent.on_rx(&mut w, endpoint, event, &frame, ch);
                    rival.on_rx(&mut w, endpoint, event, &frame, ch);
                }
                _ => {}
            }
            if std::env::var("VERIF_TRACE").is_ok() {
                let v = view_of_node(&w.nodes[0]);
                eprintln!("t={:.3} seq={} states={:?} ds.var={} ds.steps={} bmca={} last_call={:?}", tt_to_secs(w.now()), w.seq(), w.nodes[0].states(), v.gm_variance, v.steps_removed, w.nodes[0].bmca_count, w.last_call.as_ref().map(|c| (c.1, c.2)));
            }
            let node = &w.nodes[0];
            // qualities that may legitimately still be advertised: everything set since the last BMCA run
            if node.bmca_count != allowed_q_bmca {
                let d = node.inst.default_ds();
                let cur = (d.clock_quality.clock_class, d.clock_quality.clock_accuracy.to_primitive(), d.clock_quality.offset_scaled_log_variance);
                if allowed_q_bmca == u64::MAX {
                    allowed_q.insert(0, (248, 0xfe, 0xffff));
                    allowed_q.insert(1, cur);
                } else {
                    allowed_q = vec![cur];
                }
                allowed_q_bmca = node.bmca_count;
                // a BMCA run in which some port was Master or Slave applied a data-set decision
                if node.states().iter().any(|s| matches!(s, PState::Master | PState::Slave | PState::Passive)) {
                    applied_decisions += 1;
                }
            }
            let slave_port = node.slave_port();
            if slave_port.is_some() {
                had_slave = true;
                bmca_at_slave_loss = None;
            } else if had_slave && bmca_at_slave_loss.is_none() {
                bmca_at_slave_loss = Some(node.bmca_count);
            }
            {
                let pd = node.inst.parent_ds();
                let cur = node.slave_port().map(|p| (p, Pid::new(pd.parent_port_identity.clock_identity.0, pd.parent_port_identity.port_number)));
                if cur != selected {
                    selected = cur;
                    fresh_since_selected = 0;
                }
            }
            // deliveries: an Announce from the current parent to the slave port must show in the data sets at once
            while rx_seen < w.rx_log.len() {
                let r = w.rx_log[rx_seen].clone();
                rx_seen += 1;
                if r.event {
                    continue;
                }
                let Ok(f) = Frame::decode(&r.bytes) else { continue };
                let Some(a) = f.announce() else { continue };
                if std::env::var("VERIF_TRACE").is_ok() {
                    eprintln!("   RX announce port={} src={} seq={} var={} steps={} state_before={:?}", r.port, f.hdr.source.short(), f.hdr.seq, a.gm_variance, a.steps_removed, r.state_before);
                }
                let pd = node.inst.parent_ds();
                let parent_now = Pid::new(pd.parent_port_identity.clock_identity.0, pd.parent_port_identity.port_number);
                // "last Announce" means last in the sender's order: a copy that arrives after a newer one
                // (older sequenceId) is stale and is not what the parent "last announced"
                let fresh = match last_seq_from.get(&(r.port, f.hdr.source)) {
                    Some(prev) => f.hdr.seq.wrapping_sub(*prev) < u16::MAX / 2,
                    None => true,
                };
                if fresh {
                    last_seq_from.insert((r.port, f.hdr.source), f.hdr.seq);
                    let mut v = view_of_announce(&f.hdr, a);
                    v.steps_removed = v.steps_removed.wrapping_add(1);
                    if let Some(prev) = last_from.insert((r.port, f.hdr.source), v) {
                        let h = older_from.entry((r.port, f.hdr.source)).or_default();
                        h.push(prev);
                        if h.len() > 40 {
                            h.remove(0);
                        }
                    }
                    if selected == Some((r.port, f.hdr.source)) {
                        fresh_since_selected += 1;
                    }
                } else {
                    w.out.probe("stale_announce_copy_received");
                    continue;
                }
                if r.state_before == PState::Slave && node.ports[r.port].state() == PState::Slave && f.hdr.source == parent_now {
                    let mut want = view_of_announce(&f.hdr, a);
                    want.steps_removed = want.steps_removed.wrapping_add(1);
                    let got = view_of_node(node);
                    if got != want {
                        viol.push((
                            "C11.parent_announce_not_reflected_in_data_sets".into(),
                            String::new(),
                            format!("after an Announce from the parent the data sets are {:?}, the Announce said (stepsRemoved+1) {:?}", got, want),
                        ));
                    }
                }
            }
            // emissions
            while emitted_seen < w.emitted.len() {
                let e = w.emitted[emitted_seen].clone();
                emitted_seen += 1;
                let Ok(f) = Frame::decode(&e.bytes) else { continue };
                let Some(a) = f.announce() else { continue };
                n_ann += 1;
                let got = view_of_announce(&f.hdr, a);
                let ds = view_of_node(node);
                // (a) Announce == data sets at emission
                let mut ds_cmp = ds.clone();
                if ds_cmp.flags & flag::UTC_VALID == 0 {
                    ds_cmp.utc_offset = 0;
                }
                if got != ds_cmp || (a.utc_offset != ds.utc_offset && ds.flags & flag::UTC_VALID != 0) {
                    viol.push((
                        "C11.announce_differs_from_data_sets".into(),
                        diff_key(&got, &ds_cmp),
                        format!("port {} emitted {:?} while the data sets hold {:?}", e.port, got, ds_cmp),
                    ));
                }
                if f.hdr.log_interval != port_logs[e.port] {
                    // outside the statement (Table 42 wants logAnnounceInterval here): probe only
                    log_interval_diff += 1;
                }
                let dd = node.inst.default_ds();
                let own = View {
                    gm_identity: dd.clock_identity.0,
                    gm_priority1: dd.priority_1,
                    gm_priority2: dd.priority_2,
                    gm_class: dd.clock_quality.clock_class,
                    gm_accuracy: dd.clock_quality.clock_accuracy.to_primitive(),
                    gm_variance: dd.clock_quality.offset_scaled_log_variance,
                    steps_removed: 0,
                    utc_offset: 0,
                    time_source: 0,
                    flags: 0,
                };
                if slave_port.is_some() {
                    slave_announces += 1;
                    // (b) equals what the parent last announced, stepsRemoved + 1
                    let pdn = node.inst.parent_ds();
                    let parent_now = Pid::new(pdn.parent_port_identity.clock_identity.0, pdn.parent_port_identity.port_number);
                    if let Some(pp) = prev_parent {
                        if pp.0 == slave_port.unwrap() && pp.1 != parent_now {
                            w.out.probe("parent_changed_on_the_slave_port_between_two_emissions");
                        }
                    }
                    prev_parent = Some((slave_port.unwrap(), parent_now));
                    if let Some(pv) = last_from.get(&(slave_port.unwrap(), parent_now)) {
                        let mut pv = pv.clone();
                        if pv.flags & flag::UTC_VALID == 0 {
                            pv.utc_offset = 0;
                        }
                        if got != pv {
                            // the BMCA may legitimately have selected another parent since: only compare when the parent is unchanged
                            {
                                // one particular way to get there is a defect of its own (known finding): the BMCA
                                // chose this parent from a stored Announce that the sender had already superseded,
                                // and the parent has not announced again since
                                let from_superseded = fresh_since_selected == 0
                                    && older_from.get(&(slave_port.unwrap(), parent_now)).map_or(false, |h| {
                                        h.iter().any(|o| {
                                            let mut o = o.clone();
                                            if o.flags & flag::UTC_VALID == 0 {
                                                o.utc_offset = 0;
                                            }
                                            o == got
                                        })
                                    });
                                viol.push((
                                    "C11.announce_differs_from_parents_last_announce".into(),
                                    if from_superseded { "bmca_selected_parent_from_superseded_announce=true".to_string() } else { diff_key(&got, &pv) },
                                    format!("port {} emitted {:?}; the parent's last Announce (+1 step) was {:?}", e.port, got, pv),
                                ));
                            }
                        }
                    }
                } else {
                    gm_announces += 1;
                    let bm = node.bmca_count;
                    let quality_pending = bmca_at_quality_change.map(|b| bm <= b).unwrap_or(false);
                    let slave_loss_pending = bmca_at_slave_loss.map(|b| bm <= b).unwrap_or(false);
                    let settled = !quality_pending && !slave_loss_pending;
                    let quality_ok = |g: &View| {
                        let now_q = (own.gm_class, own.gm_accuracy, own.gm_variance);
                        let gq = (g.gm_class, g.gm_accuracy, g.gm_variance);
                        // until the next BMCA run a local quality change may or may not be visible yet
                        gq == now_q || allowed_q.contains(&gq)
                    };
                    let same_gm = |g: &View| g.gm_identity == own.gm_identity && g.gm_priority1 == own.gm_priority1 && g.gm_priority2 == own.gm_priority2 && g.steps_removed == 0 && quality_ok(g);
                    if !same_gm(&got) {
                        if !slave_loss_pending {
                            // (c)
                            viol.push((
                                "C11.grandmaster_announce_not_own_attributes".into(),
                                format!("quality_change_pending={quality_pending} never_slave={} first_decision_pending={}", !had_slave, applied_decisions <= 1),
                                format!("no port is slave and a BMCA run has completed since, yet port {} announced {:?}; own attributes {:?} (qualities set since the last BMCA run {:?})", e.port, got, own, allowed_q),
                            ));
                        } else {
                            // (d) strict sub-oracle: own attributes even before that BMCA run
                            viol.push((
                                "C11.stale_hierarchy_announced_before_next_bmca".into(),
                                String::new(),
                                format!("no port is slave any more (announce receipt timeout) but port {} still announced {:?} before the next BMCA run; own attributes {:?}", e.port, got, own),
                            ));
                        }
                    } else if settled && had_bmca_as_gm(node) {
                        // time properties of a grandmaster: the ones the instance was configured with
                        let mut cfg_flags = 0u16;
                        match configured.leap {
                            1 => cfg_flags |= flag::LEAP61,
                            2 => cfg_flags |= flag::LEAP59,
                            _ => {}
                        }
                        if configured.utc_offset.is_some() {
                            cfg_flags |= flag::UTC_VALID;
                        }
                        if configured.ptp_timescale {
                            cfg_flags |= flag::PTP_TIMESCALE;
                        }
                        if configured.time_traceable {
                            cfg_flags |= flag::TIME_TRACEABLE;
                        }
                        if configured.freq_traceable {
                            cfg_flags |= flag::FREQ_TRACEABLE;
                        }
                        if got.flags != cfg_flags || got.time_source != configured.time_source || (configured.utc_offset.is_some() && a.utc_offset != configured.utc_offset.unwrap()) {
                            viol.push((
                                "C11.grandmaster_time_properties_not_own".into(),
                                String::new(),
                                format!("as grandmaster port {} announced flags {:#06x} timeSource {:#x} utcOffset {}; the instance was configured with flags {:#06x} timeSource {:#x} utcOffset {:?}", e.port, got.flags, got.time_source, a.utc_offset, cfg_flags, configured.time_source, configured.utc_offset),
                            ));
                        }
                    }
                }
            }
            if emitted_seen > 2048 {
                w.emitted.clear();
                emitted_seen = 0;
            }
            if rx_seen > 2048 {
                w.rx_log.clear();
                rx_seen = 0;
            }
        }
        for (o, k, m) in viol {
            w.out.violate("C11", &o, k, m);
        }
        w.out.probe_n("announces_checked", n_ann);
        w.out.probe_n("announce_log_message_interval_not_log_announce_interval", log_interval_diff);
        w.out.probe_n("announces_as_grandmaster", gm_announces);
        w.out.probe_n("announces_with_slave_port", slave_announces);
        w.out.nontrivial = slave_announces > 0 && n_ann > 5;
        w.out.oracle_evals = n_ann;
        for c in &changes {
            let s = c.split(' ').skip(1).take(2).collect::<Vec<_>>().join(" ");
            w.shape.str(&s);
        }
        w.out.sample = Some(json!({"ports": nports, "interval_log": log, "changes": changes, "announces_checked": n_ann}));
        w.finish()
    }
}

fn had_bmca_as_gm(n: &HostNode) -> bool {
    n.bmca_count > 0
}

fn diff_key(a: &View, b: &View) -> String {
    let mut v = Vec::new();
    if a.gm_identity != b.gm_identity {
        v.push("gm_identity");
    }
    if a.gm_priority1 != b.gm_priority1 || a.gm_priority2 != b.gm_priority2 {
        v.push("priority");
    }
    if a.gm_class != b.gm_class || a.gm_accuracy != b.gm_accuracy || a.gm_variance != b.gm_variance {
        v.push("quality");
    }
    if a.steps_removed != b.steps_removed {
        v.push("steps_removed");
    }
    if a.utc_offset != b.utc_offset {
        v.push("utc_offset");
    }
    if a.time_source != b.time_source {
        v.push("time_source");
    }
    if a.flags != b.flags {
        v.push("flags");
    }
    format!("fields={}", v.join("+"))
}
