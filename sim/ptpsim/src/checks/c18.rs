//! C18 - the overlay clock behaves like a clock: continuous across frequency
//! changes, jumps by exactly the requested step, advances at (1 + ppm/1e6)
//! times the underlying rate. Affine reference model in exact integers.

use crate::clock::*;
use serde_json::json;
use statime::{Clock, OverlayClock, SharedClock as StatimeSharedClock};
use std::cell::{Cell, RefCell};
use std::rc::Rc;
use vcommon::tape::*;
use vcommon::{guarded, Check, Chooser, RunOutcome, Tier};

pub struct C18;

/// tolerance: 2^-16 ns
const TOL: i128 = 1 << 16;

enum Ov {
    Plain(OverlayClock<SimClockHandle>),
    Shared(StatimeSharedClock<OverlayClock<SimClockHandle>>),
}

impl Ov {
    fn now(&self) -> u128 {
        time_to_units(match self {
            Ov::Plain(c) => c.now(),
            Ov::Shared(c) => c.now(),
        })
    }
    fn set_frequency(&mut self, ppm: f64) -> u128 {
        time_to_units(match self {
            Ov::Plain(c) => c.set_frequency(ppm).unwrap(),
            Ov::Shared(c) => c.set_frequency(ppm).unwrap(),
        })
    }
    fn step(&mut self, d: i128) -> u128 {
        time_to_units(match self {
            Ov::Plain(c) => c.step_clock(units_to_duration(d)).unwrap(),
            Ov::Shared(c) => c.step_clock(units_to_duration(d)).unwrap(),
        })
    }
    fn from_underlying(&self, u: u128) -> u128 {
        time_to_units(match self {
            Ov::Plain(c) => c.time_from_underlying(units_to_time(u)),
            Ov::Shared(c) => c.0.lock().unwrap().time_from_underlying(units_to_time(u)),
        })
    }
}

impl Check for C18 {
    fn property(&self) -> &'static str {
        "C18"
    }
    fn family(&self) -> &'static str {
        "c18_overlay_clock_histories"
    }
    fn budget(&self, tier: Tier) -> u64 {
        match tier {
            Tier::Quick => 200_000,
            Tier::Thorough => 5_000_000,
        }
    }
    fn run(&self, ch: &mut Chooser, _tier: Tier) -> RunOutcome {
        let mut out = RunOutcome::default();
        let time = Rc::new(SimTime { now: Cell::new(0), seq: Cell::new(0) });
        let start_secs: u128 = *ch.pick(S_CFG, &[1_700_000_000u128, 1000, (1u128 << 47) + 11, 4_294_967_295, 999_999_999]);
        let start = start_secs * SEC + ch.choose(S_CFG, 1_000_000_000) as u128 * NS + ch.choose(S_CFG, 1 << 32) as u128;
        let model: SharedClock = Rc::new(RefCell::new(ClockModel::new(start as i128, 0)));
        let handle = SimClockHandle::new(model.clone(), time.clone(), 1);
        let shared = ch.chance(S_CFG, 1, 3);
        let mut ov = if shared { Ov::Shared(StatimeSharedClock::new(OverlayClock::new(handle))) } else { Ov::Plain(OverlayClock::new(handle)) };
        let underlying = |t: &Rc<SimTime>| -> u128 { start + t.now.get() };
        // reference: reading = anchor_reading + (u - anchor_u) * (1 + k/(1024e6))
        let mut ppm_k: i128 = 0; // ppm * 1024
        let mut anchor_u = underlying(&time);
        let mut anchor_r: i128 = anchor_u as i128;
        let reference = |u: u128, anchor_u: u128, anchor_r: i128, ppm_k: i128| -> i128 {
            let el = u as i128 - anchor_u as i128;
            anchor_r + el + el * ppm_k / (1024 * 1_000_000)
        };
        let n = ch.range(S_WORK, 1, 50);
        // per-run operation mix: balanced, long idle stretches (holdover: many large advances between
        // adjustments, up to 49 x 10^4 s), or adjustment-heavy
        let profile = ch.choose(S_CFG, 4);
        let weights: [u64; 3] = match profile {
            2 => [30, 1, 1],
            3 => [2, 5, 5],
            _ => [4, 3, 3],
        };
        let mut longest_idle: u128 = 0;
        let mut idle: u128 = 0;
        let mut hist: Vec<String> = Vec::new();
        let mut viol: Vec<(String, String, String)> = Vec::new();
        let mut checks = 0u64;
        let r = guarded(|| {
            for i in 0..n {
                time.seq.set(i);
                let op = ch.weighted(S_WORK, &weights);
                let u = underlying(&time);
                let r0 = ov.now() as i128;
                // reading agrees with the model at any time
                let want0 = reference(u, anchor_u, anchor_r, ppm_k);
                checks += 1;
                if (r0 - want0).abs() > TOL * 4 + (u as i128 - anchor_u as i128) / (1i128 << 40) {
                    viol.push(("C18.reading_differs_from_affine_model".into(), format!("after={}", hist.last().map(|h: &String| h.split('(').next().unwrap_or("").to_string()).unwrap_or_default()), format!("reading {} but the affine model says {} (diff {} x 2^-32 ns); history {:?}", r0, want0, r0 - want0, hist)));
                    // re-anchor the model on the implementation so one defect is reported once
                    anchor_u = u;
                    anchor_r = r0;
                }
                // converting the underlying timestamp "now" gives the reading
                let conv = ov.from_underlying(u) as i128;
                if (conv - r0).abs() > TOL {
                    viol.push(("C18.time_from_underlying_disagrees_with_now".into(), String::new(), format!("time_from_underlying({u}) = {conv}, now() = {r0}")));
                }
                match op {
                    0 => {
                        // advance the underlying clock
                        let d = match if profile == 2 { 2 + ch.choose(S_WORK, 2) } else { ch.choose(S_WORK, 5) } {
                            0 => 0u128,
                            1 => ch.range(S_WORK, 1, 1_000_000) as u128 * NS,
                            2 => ch.range(S_WORK, 1, 10_000) as u128 * SEC,
                            3 => 10_000 * SEC,
                            _ => ch.range(S_WORK, 1, 1000) as u128 * MS + ch.choose(S_WORK, 1 << 32) as u128,
                        };
                        time.now.set(time.now.get() + d);
                        idle += d;
                        longest_idle = longest_idle.max(idle);
                        hist.push(format!("advance({:.9}s)", tt_to_secs(d)));
                        let u1 = underlying(&time);
                        let r1 = ov.now() as i128;
                        let want = d as i128 + d as i128 * ppm_k / (1024 * 1_000_000);
                        checks += 1;
                        if ((r1 - r0) - want).abs() > TOL + (d as i128) / (1i128 << 40) {
                            viol.push(("C18.rate_not_one_plus_ppm".into(), String::new(), format!("underlying advanced by {} units at {} ppm: overlay advanced by {}, expected {}; history {:?}", d, ppm_k as f64 / 1024.0, r1 - r0, want, hist)));
                        }
                        // a timestamp taken in between converts to what the clock read then
                        if d > 2 {
                            let um = u + d / 2;
                            let wantm = reference(um, anchor_u, anchor_r, ppm_k);
                            let gotm = ov.from_underlying(um) as i128;
                            if (gotm - wantm).abs() > TOL * 4 + (um as i128 - anchor_u as i128) / (1i128 << 40) && viol.is_empty() {
                                viol.push(("C18.time_from_underlying_wrong_inside_segment".into(), String::new(), format!("converted {} -> {}, expected {}", um, gotm, wantm)));
                            }
                        }
                        let _ = u1;
                    }
                    1 => {
                        let k = match ch.choose(S_WORK, 5) {
                            0 => 0i128,
                            1 => 500 * 1024,
                            2 => -500 * 1024,
                            _ => ch.irange(S_WORK, -500 * 1024, 500 * 1024) as i128,
                        };
                        let ppm = k as f64 / 1024.0;
                        let t = ov.set_frequency(ppm) as i128;
                        hist.push(format!("set_frequency({ppm})"));
                        let r1 = ov.now() as i128;
                        checks += 1;
                        if (r1 - r0).abs() > TOL {
                            viol.push(("C18.discontinuity_at_frequency_change".into(), String::new(), format!("reading {} before and {} after set_frequency({ppm}); history {:?}", r0, r1, hist)));
                        }
                        if (t - r1).abs() > TOL {
                            viol.push(("C18.set_frequency_returned_time_is_not_the_reading".into(), String::new(), format!("returned {t}, reading {r1}")));
                        }
                        anchor_u = u;
                        idle = 0;
                        anchor_r = r1;
                        ppm_k = k;
                    }
                    _ => {
                        let d: i128 = match ch.choose(S_WORK, 6) {
                            0 => 10 * SEC as i128,
                            1 => -10 * (SEC as i128),
                            2 => 1,
                            3 => -(NS as i128),
                            _ => ch.irange(S_WORK, -10_000_000_000, 10_000_000_000) as i128 * NS as i128 + ch.choose(S_WORK, 1 << 32) as i128,
                        };
                        let t = ov.step(d) as i128;
                        hist.push(format!("step_clock({:.9}s)", d as f64 / SEC as f64));
                        let r1 = ov.now() as i128;
                        checks += 1;
                        if ((r1 - r0) - d).abs() > TOL {
                            viol.push((
                                "C18.step_not_exact".into(),
                                format!("ppm_zero={} first_adjustment={}", ppm_k == 0, anchor_u == start),
                                format!("step_clock({} units) moved the reading by {} (error {} x 2^-32 ns = {:.3} s) at {} ppm, {} s after the last adjustment; history {:?}", d, r1 - r0, (r1 - r0) - d, ((r1 - r0) - d) as f64 / SEC as f64, ppm_k as f64 / 1024.0, tt_to_secs((u - anchor_u) as u128), hist),
                            ));
                        }
                        if (t - r1).abs() > TOL {
                            viol.push(("C18.step_returned_time_is_not_the_reading".into(), String::new(), format!("returned {t}, reading {r1}")));
                        }
                        anchor_u = u;
                        idle = 0;
                        anchor_r = r1;
                    }
                }
            }
        });
        if let Err((msg, loc)) = r {
            out.sut_panics.push(format!("{msg} @ {loc}"));
            out.violate("C03", "C03.panic_in_overlay_clock", format!("loc={loc}"), format!("OverlayClock panicked: {msg} at {loc}; history {:?}", hist));
        }
        for (o, k, m) in viol {
            out.violate("C18", &o, k, m);
        }
        out.nontrivial = n >= 2;
        out.oracle_evals = checks;
        out.events = n;
        let mut sh = vcommon::Fnv::new();
        for h in &hist {
            sh.str(h.split('(').next().unwrap_or(""));
        }
        sh.byte(shared as u8);
        out.shape = sh.finish();
        let mut dg = vcommon::Fnv::new();
        dg.u128(ov.now());
        out.digest = dg.finish();
        out.probe_n("operations", n);
        if longest_idle > 86_400 * SEC {
            out.probe("more_than_a_day_between_adjustments");
        }
        if longest_idle > 300_000 * SEC {
            out.probe("more_than_300000s_between_adjustments");
        }
        if shared {
            out.probe("via_shared_clock");
        }
        out.sample = Some(json!({"start_secs": start_secs.to_string(), "shared_clock_wrapper": shared, "history": hist.iter().take(50).collect::<Vec<_>>()}));
        out
    }
}
