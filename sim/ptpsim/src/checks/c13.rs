//! C13 - clock control commands stay finite and within configured bounds.
//! Driver 2 of the design: adversarial measurement histories straight on the
//! public `Filter` API, with a clock that fails commands intermittently.
//! (Driver 1 is the command monitor of host.rs, active in every scenario.)

use crate::clock::*;
use crate::support::*;
use serde_json::json;
use statime::filters::{BasicFilter, Filter, KalmanConfiguration, KalmanFilter};
use statime::port::Measurement;
use std::cell::{Cell, RefCell};
use std::rc::Rc;
use vcommon::tape::*;
use vcommon::{guarded, Check, Chooser, RunOutcome, Tier};

pub struct C13Direct;

fn pick_offset(ch: &mut Chooser) -> i128 {
    // units of 2^-32 ns
    let ns: i128 = match ch.choose(S_WORK, 12) {
        0 => 0,
        1 => 1,
        2 => -1,
        3 => 1_000,
        4 => 999_999,
        5 => 1_000_001,
        6 => -1_000_000,
        7 => 1_000_000_000,
        8 => 1_000_000_000_000_000_000,  // 10^9 s
        9 => -1_000_000_000_000_000_000, // -10^9 s
        10 => ch.irange(S_WORK, -1_000_000, 1_000_000) as i128,
        _ => ch.irange(S_WORK, -20_000_000_000, 20_000_000_000) as i128,
    };
    ns * NS as i128 + if ch.chance(S_WORK, 1, 4) { ch.choose(S_WORK, 1 << 32) as i128 } else { 0 }
}

impl Check for C13Direct {
    fn property(&self) -> &'static str {
        "C13"
    }
    fn family(&self) -> &'static str {
        "c13_filter_adversarial_history"
    }
    fn budget(&self, tier: Tier) -> u64 {
        match tier {
            Tier::Quick => 200_000,
            Tier::Thorough => 5_000_000,
        }
    }
    fn run(&self, ch: &mut Chooser, _tier: Tier) -> RunOutcome {
        let mut out = RunOutcome::default();
        let time = Rc::new(SimTime { now: Cell::new(0), seq: Cell::new(0) });
        let start_local = 1_700_000_000i128 * SEC as i128;
        let model: SharedClock = Rc::new(RefCell::new(ClockModel::new(start_local, ch.irange(S_CFG, -100_000_000, 100_000_000))));
        let mut clock = SimClockHandle::new(model.clone(), time.clone(), 1);
        let kalman = ch.chance(S_CFG, 2, 3);
        let fail_clock = ch.chance(S_CFG, 1, 3);
        if fail_clock {
            model.borrow_mut().fail_pattern = ch.bits(S_FAULT) & ch.bits(S_FAULT) | (ch.choose(S_FAULT, 4) == 0) as u64;
        }
        let mut cfg = KalmanConfiguration::default();
        if ch.chance(S_CFG, 1, 2) {
            cfg.step_threshold = statime::time::Duration::from_seconds(*ch.pick(S_CFG, &[1e-3, 1e-6, 1.0, 1e-9]));
            cfg.steer_time = statime::time::Duration::from_seconds(*ch.pick(S_CFG, &[2.0, 0.1, 100.0, 1e-3]));
            cfg.max_steer = *ch.pick(S_CFG, &[200.0, 1.0, 1e4, 1e-3]);
            cfg.max_freq_offset = *ch.pick(S_CFG, &[400.0, 1.0, 1e4, 0.5]);
            cfg.deadzone = *ch.pick(S_CFG, &[0.0, 1.0, 10.0]);
            cfg.initial_frequency_uncertainty = *ch.pick(S_CFG, &[100e-6, 1e-9, 1.0]);
            cfg.initial_wander = *ch.pick(S_CFG, &[1e-16, 1e-8, 1e-30]);
            cfg.delay_wander = *ch.pick(S_CFG, &[1e-4 / 3600.0, 1.0, 1e-12]);
            cfg.precision_hysteresis = *ch.pick(S_CFG, &[16u8, 1, 127]);
            cfg.estimate_threshold = statime::time::Duration::from_millis(*ch.pick(S_CFG, &[200i64, 1, 100_000]));
            cfg.difference_estimation_boundary = *ch.pick(S_CFG, &[4usize, 1, 32]);
            cfg.statistical_estimation_boundary = *ch.pick(S_CFG, &[8usize, 2, 32]);
            cfg.peer_delay_factor = *ch.pick(S_CFG, &[2.0, 1.0, 100.0]);
        }
        let max_freq = cfg.max_freq_offset;
        let thr_units = duration_to_units(cfg.step_threshold);
        let gain = *ch.pick(S_CFG, &[0.25f64, 1.0, 0.01, 0.9]);
        enum F {
            K(KalmanFilter),
            B(BasicFilter),
        }
        let mut f = if kalman { F::K(KalmanFilter::new(cfg)) } else { F::B(BasicFilter::new(gain)) };
        // mostly short adversarial histories; one in twenty-five is long (counters inside the servo that
        // only move after hundreds of measurements), half of those a slow random walk inside the step
        // threshold so that the filter keeps running instead of re-initialising
        let long = ch.chance(S_WORK, 1, 25);
        let n = if long { ch.range(S_WORK, 200, 1200) } else { ch.range(S_WORK, 2, 60) };
        let walk = long && ch.boolean(S_WORK);
        let mut walk_raw: i128 = 0;
        let mut ev_time: u128 = start_local as u128;
        let mut history: Vec<String> = Vec::new();
        let mut panics = 0u64;
        let mut calls = 0u64;
        // pattern state: repeat the previous measurement exactly (zero-variance sample sets)
        let mut prev: Option<Measurement> = None;
        for i in 0..n {
            // passage of time on the underlying clock
            let adv = match if walk { 4 } else { ch.choose(S_WORK, 5) } {
                0 => 0,
                1 => ch.range(S_WORK, 1, 1000) as u128 * US,
                2 => ch.range(S_WORK, 1, 4) as u128 * SEC,
                3 => ch.range(S_WORK, 1, 10_000) as u128 * SEC,
                _ => 125 * MS,
            };
            time.now.set(time.now.get() + adv);
            time.seq.set(i);
            // event time: forward with the clock, equal to the previous, backwards, or far ahead
            let now_local = model.borrow().local_at(time.now.get()).max(0) as u128;
            ev_time = match if walk { 7 } else { ch.choose(S_WORK, 8) } {
                0 => ev_time,                                    // equal / repeated
                1 => ev_time.saturating_sub(ch.range(S_WORK, 1, 5_000_000) as u128 * US), // backwards
                2 => now_local + ch.range(S_WORK, 1, 1000) as u128 * MS, // ahead of the clock
                _ => now_local,
            };
            let kind = if walk { (i % 2) * 2 } else { ch.choose(S_WORK, 6) };
            let mut m = Measurement::default();
            m.event_time = units_to_time(ev_time);
            match kind {
                0 | 1 => {
                    let raw = if walk {
                        walk_raw += ch.irange(S_WORK, -20_000, 20_000) as i128 * NS as i128;
                        walk_raw
                    } else {
                        pick_offset(ch)
                    };
                    m.raw_sync_offset = Some(units_to_duration(raw));
                    if ch.boolean(S_WORK) {
                        m.offset = Some(units_to_duration(raw - 100 * US as i128));
                    }
                }
                2 => {
                    let raw = if walk { -walk_raw + 2 * 100 * US as i128 + ch.irange(S_WORK, -20_000, 20_000) as i128 * NS as i128 } else { pick_offset(ch) };
                    m.raw_delay_offset = Some(units_to_duration(raw));
                    if ch.boolean(S_WORK) {
                        m.delay = Some(units_to_duration(pick_offset(ch)));
                    }
                }
                3 => {
                    m.peer_delay = Some(units_to_duration(pick_offset(ch)));
                }
                4 => {
                    if let Some(p) = prev {
                        m = p; // identical entry
                        if ch.boolean(S_WORK) {
                            m.event_time = units_to_time(ev_time);
                        }
                    } else {
                        m.raw_sync_offset = Some(units_to_duration(0));
                        m.offset = Some(units_to_duration(0));
                    }
                }
                _ => {
                    // update() call instead of a measurement
                    calls += 1;
                    let r = guarded(|| match &mut f {
                        F::K(k) => {
                            k.update(&mut clock);
                        }
                        F::B(b) => {
                            b.update(&mut clock);
                        }
                    });
                    if r.is_err() {
                        panics += 1;
                    }
                    history.push("update()".into());
                    continue;
                }
            }
            prev = Some(m);
            history.push(format!(
                "m(ev={:+.6}s off={:?} rs={:?} rd={:?} d={:?} pd={:?})",
                (ev_time as f64 - now_local as f64) / SEC as f64,
                m.offset.map(|d| d.seconds()),
                m.raw_sync_offset.map(|d| d.seconds()),
                m.raw_delay_offset.map(|d| d.seconds()),
                m.delay.map(|d| d.seconds()),
                m.peer_delay.map(|d| d.seconds())
            ));
            calls += 1;
            let r = guarded(|| match &mut f {
                F::K(k) => {
                    k.measurement(m, &mut clock);
                }
                F::B(b) => {
                    b.measurement(m, &mut clock);
                }
            });
            if let Err((msg, loc)) = r {
                panics += 1;
                out.sut_panics.push(format!("{msg} @ {loc}"));
                // a filter that panicked mid-update is not used further (as a crashed task would not)
                break;
            }
        }
        // demobilize: at most one final command, within the bound
        let before = model.borrow().log.len();
        let _ = guarded(|| match f {
            F::K(k) => k.demobilize(&mut clock),
            F::B(b) => b.demobilize(&mut clock),
        });
        let after = model.borrow().log.len();
        let which = if kalman { "kalman" } else { "basic" };
        if after - before > 1 {
            out.violate("C13", "C13.more_than_one_command_on_demobilize", format!("filter={which}"), format!("{} commands issued by demobilize()", after - before));
        }
        let log = model.borrow().log.clone();
        for e in &log {
            match &e.cmd {
                ClockCmd::SetFrequency { ppm, .. } => {
                    out.probe("clock.set_frequency");
                    if !ppm.is_finite() {
                        out.violate(
                            "C13",
                            "C13.non_finite_frequency",
                            format!("filter={which}"),
                            format!("{which} filter called set_frequency({ppm}) at call #{}; history: {}", e.seq, history.join(" ; ")),
                        );
                    } else if kalman && ppm.abs() > max_freq * (1.0 + 1e-9) {
                        out.violate(
                            "C13",
                            "C13.frequency_out_of_bounds",
                            format!("filter={which} clock_fails={fail_clock}"),
                            format!("set_frequency({ppm}) exceeds max_freq_offset {max_freq} at call #{}; history: {}", e.seq, history.join(" ; ")),
                        );
                    }
                }
                ClockCmd::Step { offset_units, .. } => {
                    out.probe("clock.step");
                    if kalman && offset_units.abs() < thr_units {
                        out.violate(
                            "C13",
                            "C13.step_below_threshold",
                            format!("filter={which}"),
                            format!("step_clock({} units) below the threshold {} at call #{}; history: {}", offset_units, thr_units, e.seq, history.join(" ; ")),
                        );
                    }
                }
                _ => {}
            }
        }
        out.probe_n("filter.calls", calls);
        out.probe_n("sut_panic_in_filter", panics);
        out.fault_n("clock_command_failed", model.borrow().fail_count);
        out.nontrivial = log.len() >= 1;
        out.oracle_evals = log.len() as u64;
        out.events = calls;
        let mut shape = vcommon::Fnv::new();
        shape.byte(kalman as u8);
        for e in &log {
            shape.byte(match e.cmd {
                ClockCmd::SetFrequency { ok, .. } => 1 + ok as u8,
                ClockCmd::Step { ok, .. } => 3 + ok as u8,
                _ => 0,
            });
        }
        out.shape = shape.finish();
        let mut dg = vcommon::Fnv::new();
        for e in &log {
            dg.str(&format!("{:?}", e.cmd));
        }
        out.digest = dg.finish();
        for (k, v) in log_counts_take() {
            out.probe_n(k, v);
        }
        out.sample = Some(json!({"filter": which, "clock_fails": fail_clock, "history": history.iter().take(30).collect::<Vec<_>>(), "commands": log.len(), "kalman_config": format!("{:?}", cfg), "basic_gain": gain,
            "command_log": log.iter().take(12).map(|e| format!("#{} {:?}", e.seq, e.cmd)).collect::<Vec<_>>()}));
        out
    }
}
