//! C02 - closed loop: a slave port (real Kalman servo) drives its simulated
//! oscillator to the master's time and keeps it there; slew only afterwards.

use crate::clock::*;
use crate::host::*;
use crate::script::*;
use crate::wire::Pid;
use serde_json::json;
use vcommon::tape::*;
use vcommon::{Check, Chooser, RunOutcome, Tier};

pub struct C02 {
    pub family: &'static str,
    pub faults: bool,
    pub p2p: bool,
    /// after the first checked window a better master with a slightly different clock takes over
    /// (scripted masters; the slave changes parent directly, Slave -> Slave)
    pub switch: bool,
    /// non-default servo configuration and an oscillator whose frequency wanders (random walk):
    /// not a C02 scenario (the bound is calibrated for the default servo) - run for the sake of C03
    /// (no panic or overflow in either build profile) and of the C13 command monitor
    pub servo_stress: bool,
    pub quick_runs: u64,
    pub thorough_runs: u64,
}

/// settle time after the port became slave
/// Calibrated on the unchanged tree over 12 000 seeds (fault-free and faults-then-quiet): the
/// last instant at which |offset| exceeded the bound, measured from the moment the port became
/// slave (or the last fault), was at most 34 s for intervals <= 0.5 s, 105 s at 1 s and 540 s at
/// 2 s (the Kalman noise estimator only learns from Sync/Delay pairs that fall within 200 ms of
/// each other, which is rare at slow rates). Frozen with a margin of >= 2x:
/// 60 s + 150 I + 250 I^2/s  (I = the larger of sync and delay interval).
pub fn t_settle(interval_units: Tt) -> Tt {
    let i_ms = interval_units / MS;
    60 * SEC + 150 * interval_units + 250 * i_ms * i_ms * (SEC / 1_000_000)
}

/// bound on |true offset| after settling, in units of 2^-32 ns
pub fn bound_units(jitter: Tt, quantum_ns: u64) -> u128 {
    let b = jitter * 3 / 2 + 2 * quantum_ns as u128 * NS;
    b.max(US)
}

impl Check for C02 {
    fn property(&self) -> &'static str {
        "C02"
    }
    fn family(&self) -> &'static str {
        self.family
    }
    fn budget(&self, tier: Tier) -> u64 {
        match tier {
            Tier::Quick => self.quick_runs,
            Tier::Thorough => self.thorough_runs,
        }
    }
    fn batch_oracle(&self, probes: &std::collections::BTreeMap<String, u64>, _runs: u64) -> Vec<vcommon::Violation> {
        // "within a bounded time" as a population statement: on the unchanged tree at most 1.6 %
        // (interval 2 s), 0.2 % (1 s), 0 % (faster) of 12 000 calibration runs needed more than
        // half of the nominal time 60 s + 150 I to get below the bound for good. A servo change
        // that slows convergence moves whole classes of runs, not single seeds.
        let mut v = Vec::new();
        if self.faults || self.p2p {
            return v;
        }
        for class in [-3i8, -2, -1, 0, 1] {
            let n = probes.get(&format!("settle.class{}.n", class)).copied().unwrap_or(0);
            let slow = probes.get(&format!("settle.class{}.slow", class)).copied().unwrap_or(0);
            if n >= 300 && slow * 100 > n * 3 {
                v.push(vcommon::Violation {
                    property: "C02".into(),
                    oracle: "C02.settling_time_population".into(),
                    key: format!("interval_log={class}"),
                    message: format!("{slow} of {n} fault-free runs with sync/delay interval 2^{class} s needed more than half of the nominal settle time (60 s + 150 I) to stay below the bound; calibrated share on the unchanged tree is below 1 %, limit 3 %"),
                });
            }
        }
        v
    }
    fn run(&self, ch: &mut Chooser, _tier: Tier) -> RunOutcome {
        let mut w = World::new();
        w.keep_emitted = false;
        w.hostf.random_ties = ch.boolean(S_CFG);
        let delay = ch.range(S_CFG, 1, 400) as u128 * US;
        let jitter = ch.range(S_CFG, 0, 20) as u128 * US;
        let seg = w.add_segment(delay, jitter);
        let sync_log = *ch.pick(S_CFG, &[0i8, -1, -2, -3, 1]);
        let delay_log = *ch.pick(S_CFG, &[0i8, -1, -2, -3, 1]);
        let announce_log = *ch.pick(S_CFG, &[0i8, 1, -1]);
        let quantum = *ch.pick(S_CFG, &[0u64, 1, 8]);
        let one_step_ref = ch.chance(S_CFG, 1, 3) || self.switch;
        // latency of the hosts' transmit-timestamp path: with more than a round trip the timestamp of a
        // Delay_Req reaches the port after the matching Delay_Resp
        w.hostf.tx_ts_latency = *ch.pick(S_CFG, &[0u128, 0, 0, 0, 100 * US, 1500 * US, 10 * MS]);
        // peer-to-peer delay mechanism on the link (both ends) instead of end-to-end
        let p2p = self.p2p;
        let offset_ns = ch.irange(S_CFG, -10_000_000_000, 10_000_000_000);
        // boundary lattice for the offset on some runs
        let offset_ns = match ch.choose(S_CFG, 8) {
            1 => 10_000_000_000,
            2 => -10_000_000_000,
            3 => 0,
            4 => 999_999,   // just below the step threshold
            5 => -1_000_001, // just above
            _ => offset_ns,
        };
        let master_drift_ppt = ch.irange(S_CFG, -20_000_000, 20_000_000);
        let rel_drift_ppt = match ch.choose(S_CFG, 6) {
            1 => 150_000_000,
            2 => -150_000_000,
            _ => ch.irange(S_CFG, -150_000_000, 150_000_000),
        };
        let sync_units = HostPort::interval_units(sync_log).max(HostPort::interval_units(delay_log));

        let mut ports = PortSpec::default();
        ports.announce_log = announce_log;
        ports.sync_log = sync_log;
        ports.delay_log = delay_log;
        ports.receipt_timeout = 3;
        ports.segment = Some(seg);
        ports.filter = FilterKind::Kalman;
        ports.p2p = p2p;

        let base: i128 = REF_EPOCH as i128;
        let mut refm: Option<RefMaster> = None;
        let mut master_node: Option<usize> = None;
        if one_step_ref {
            let mut m = RefMaster::new(0, seg, Pid::new([0x01, 0, 0, 0, 0, 0, 0, 0x77], 1), GmData::simple([0x01, 0, 0, 0, 0, 0, 0, 0x77], 10), announce_log);
            m.sync_log = sync_log;
            m.two_step = self.switch && ch.boolean(S_CFG);
            w.attach_script(seg, 0);
            refm = Some(m);
        } else {
            let mut ms = NodeSpec::default();
            ms.id = [0x01, 0, 0, 0, 0, 0, 0, 0x77];
            ms.priority1 = 10;
            ms.class = 6;
            ms.clock_start = base;
            ms.drift_ppt = master_drift_ppt;
            ms.quantum_ns = quantum;
            ms.ports = vec![ports.clone()];
            ms.bmca_phase_pm = ch.range(S_CFG, 1, 999);
            master_node = Some(w.add_node(ms, ch));
        }
        let mut ss = NodeSpec::default();
        ss.id = [0x09, 0, 0, 0, 0, 0, 0, 0x99];
        ss.priority1 = 200;
        ss.clock_start = base + offset_ns as i128 * NS as i128;
        ss.drift_ppt = if one_step_ref { rel_drift_ppt } else { master_drift_ppt + rel_drift_ppt };
        ss.quantum_ns = quantum;
        ss.ports = vec![ports.clone()];
        ss.bmca_phase_pm = ch.range(S_CFG, 1, 999);
        if self.servo_stress {
            ss.kalman.precision_hysteresis = *ch.pick(S_CFG, &[127u8, 16, 1, 2]);
            ss.kalman.difference_estimation_boundary = *ch.pick(S_CFG, &[4usize, 1, 32]);
            ss.kalman.statistical_estimation_boundary = *ch.pick(S_CFG, &[8usize, 2, 32]);
            ss.kalman.deadzone = *ch.pick(S_CFG, &[0.0, 1.0, 2.0]);
            ss.kalman.initial_wander = *ch.pick(S_CFG, &[1e-16, 1e-20, 1e-12]);
        }
        let sn = w.add_node(ss, ch);
        let wander_step_ppt: i64 = if self.servo_stress { *ch.pick(S_CFG, &[300_000i64, 1_000_000, 50_000]) } else { 0 };
        if wander_step_ppt > 0 {
            w.schedule_script(SEC, 300, 0, 0);
        }
        if let Some(m) = &refm {
            m.start(&mut w, ch.range(S_CFG, 1, 999) as u128 * MS);
        }

        // fault plan (separate configuration)
        let mut fault_until: Tt = 0;
        let mut ext_step_at: Option<(Tt, i128)> = None;
        if self.faults {
            w.net = NetFaults { drop_ppm: 80_000, dup_ppm: 40_000, reorder_ppm: 60_000, reorder_extra: 30 * MS, corrupt_ppm: 0 };
            fault_until = ch.range(S_FAULT, 20, 120) as u128 * SEC;
            if ch.boolean(S_FAULT) {
                ext_step_at = Some((ch.range(S_FAULT, 5, 100) as u128 * SEC, ch.irange(S_FAULT, -2_000_000_000, 2_000_000_000) as i128 * NS as i128));
            }
            // intermittent clock command failures during the fault phase
            w.nodes[sn].clock.borrow_mut().fail_pattern = ch.bits(S_FAULT) & ch.bits(S_FAULT);
        } else {
            w.faults_on = false;
        }

        let bound = bound_units(jitter, quantum) as i128;
        let mut t_slave: Option<Tt> = None;
        let mut check_from: Option<Tt> = None;
        let mut check_until: Tt = Tt::MAX;
        let calib = std::env::var("VERIF_C02_CALIB").is_ok();
        let horizon = if calib { Tt::MAX / 2 } else { 0 } + 40 * SEC + fault_until + t_settle(sync_units) + 100 * sync_units + 60 * SEC + 30 * SEC;
        let mut worst: i128 = 0;
        let mut evals = 0u64;
        let mut steps_after = 0u64;
        let mut first_bad: Option<(Tt, i128)> = None;
        let mut log_seen = 0usize;
        let trace = std::env::var("VERIF_TRACE").is_ok();
        let mut last_bad: Tt = 0;
        let mut last_bad_any: Tt = 0;
        let mut last_trace = u128::MAX;
        let ref_offset: Option<i128> = refm.as_ref().map(|r| r.offset);
        let offset_now = move |w: &World| -> i128 {
            let s = w.nodes[sn].clock.borrow().local_at(w.now());
            let m = match (ref_offset, master_node) {
                (Some(o), _) => w.now() as i128 + REF_EPOCH as i128 + o,
                (None, Some(mn)) => w.nodes[mn].clock.borrow().local_at(w.now()),
                _ => unreachable!(),
            };
            s - m
        };
        loop {
            let stepped = w.step(ch, horizon.min(check_until));
            match stepped {
                None => break,
                Some(Stepped::Script { tag: 300, .. }) => {
                    // the oscillator's frequency takes a random-walk step once a second
                    let now = w.now();
                    let cur = w.nodes[sn].clock.borrow().drift_ppt;
                    let next = (cur + ch.irange(S_FAULT, -wander_step_ppt, wander_step_ppt)).clamp(-150_000_000, 150_000_000);
                    w.nodes[sn].clock.borrow_mut().set_drift(now, next);
                    w.out.fault("oscillator_frequency_random_walk_step");
                    w.schedule_script(now + SEC, 300, 0, 0);
                }
                Some(Stepped::Script { tag, a, .. }) => {
                    if let Some(m) = refm.as_mut() {
                        m.on_script(&mut w, tag, a, ch);
                    }
                }
                Some(Stepped::ScriptRx { endpoint, event, frame, .. }) => {
                    if let Some(m) = refm.as_mut() {
                        m.on_rx(&mut w, endpoint, event, &frame, ch);
                    }
                }
                _ => {}
            }
            let now = w.now();
            if trace && now / (10 * SEC) != last_trace {
                last_trace = now / (10 * SEC);
                eprintln!("t={:.1} off_ns={:.1} state={:?} adj_ppm={:.3} cmds={}", tt_to_secs(now), offset_now(&w) as f64 / NS as f64, w.nodes[sn].ports[0].state(), w.nodes[sn].clock.borrow().adj_ppt as f64 / 1e6, w.nodes[sn].clock.borrow().log.len());
            }
            if w.faults_on && self.faults && now >= fault_until {
                w.faults_on = false;
                w.nodes[sn].clock.borrow_mut().fail_pattern = 0;
                // the settle time is re-armed after the last fault
                if t_slave.is_some() {
                    t_slave = Some(now);
                    check_from = None;
                }
            }
            if let Some((at, by)) = ext_step_at {
                if now >= at && now < fault_until {
                    w.nodes[sn].clock.borrow_mut().external_step(now, by);
                    w.out.fault("external_clock_step");
                    ext_step_at = None;
                }
            }
            if t_slave.is_none() && w.nodes[sn].ports[0].state() == PState::Slave && !(self.faults && now < fault_until) {
                t_slave = Some(now);
            }
            if let (Some(ts), None) = (t_slave, check_from) {
                let from = if calib { ts } else { ts + t_settle(sync_units) };
                check_from = Some(from);
                check_until = if calib { ts + 4 * t_settle(sync_units) } else { from + 100 * sync_units + 60 * SEC };
            }
            if let Some(ts) = t_slave {
                if now >= ts && now <= check_until {
                    let off = offset_now(&w);
                    if off.abs() > bound {
                        last_bad_any = now - ts;
                    }
                }
            }
            if let Some(from) = check_from {
                if now >= from {
                    let off = offset_now(&w);
                    evals += 1;
                    if off.abs() > worst {
                        worst = off.abs();
                    }
                    if off.abs() > bound && first_bad.is_none() {
                        first_bad = Some((now, off));
                    }
                    if off.abs() > bound {
                        last_bad = now - t_slave.unwrap_or(0);
                    }
                    let m = w.nodes[sn].clock.borrow();
                    for e in &m.log[log_seen..] {
                        if matches!(e.cmd, ClockCmd::Step { .. }) && e.at >= from {
                            steps_after += 1;
                        }
                    }
                    log_seen = m.log.len();
                } else {
                    log_seen = w.nodes[sn].clock.borrow().log.len();
                }
            }
        }
        // ---- phase 2 (master-change family): a better master whose clock differs by a small amount
        let mut switch_desc = serde_json::Value::Null;
        if self.switch && t_slave.is_some() && evals > 0 {
            let delta_ns: i128 = *ch.pick(S_WORK, &[300_000i128, 5_000, 50_000, -700_000, 900_000, 5_000_000, -20_000, 0]);
            let a_off = refm.as_ref().map(|r| r.offset).unwrap_or(0);
            let b_id = [0x00, 0, 0, 0, 0, 0, 0, 0x55];
            let mut b = RefMaster::new(1, seg, Pid::new(b_id, 1), GmData::simple(b_id, 5), announce_log);
            b.sync_log = sync_log;
            b.two_step = ch.boolean(S_WORK);
            b.offset = a_off + delta_ns * NS as i128;
            w.attach_script(seg, 1);
            b.start(&mut w, ch.range(S_WORK, 1, 999) as u128 * MS);
            // the old master falls silent a few intervals later, or keeps going
            let a_silent_at: Option<Tt> = if ch.boolean(S_WORK) { Some(w.now() + ch.range(S_WORK, 0, 8) as u128 * sync_units) } else { None };
            w.out.fault("better_master_takes_over");
            let t0 = w.now();
            let b_off = b.offset;
            let mut t_b: Option<Tt> = None;
            let mut from2: Option<Tt> = None;
            let mut until2: Tt = t0 + 60 * SEC + 40 * sync_units + t_settle(sync_units) + 100 * sync_units + 60 * SEC;
            let mut worst2: i128 = 0;
            let mut evals2 = 0u64;
            let mut steps2 = 0u64;
            let mut first_bad2: Option<(Tt, i128)> = None;
            let mut log_seen2 = w.nodes[sn].clock.borrow().log.len();
            loop {
                let Some(st) = w.step(ch, until2) else { break };
                match st {
                    Stepped::Script { tag, a, .. } => {
                        let handled = refm.as_mut().map(|m| m.on_script(&mut w, tag, a, ch)).unwrap_or(false);
                        if !handled {
                            b.on_script(&mut w, tag, a, ch);
                        }
                    }
                    Stepped::ScriptRx { endpoint, event, frame, .. } => {
                        if let Some(m) = refm.as_mut() {
                            m.on_rx(&mut w, endpoint, event, &frame, ch);
                        }
                        b.on_rx(&mut w, endpoint, event, &frame, ch);
                    }
                    _ => {}
                }
                let now = w.now();
                if let (Some(at), Some(m)) = (a_silent_at, refm.as_mut()) {
                    if now >= at {
                        m.active = false;
                    }
                }
                if t_b.is_none() {
                    let pd = w.nodes[sn].inst.parent_ds();
                    if w.nodes[sn].ports[0].state() == PState::Slave && pd.parent_port_identity.clock_identity.0 == b_id {
                        t_b = Some(now);
                        from2 = Some(now + t_settle(sync_units));
                        until2 = now + t_settle(sync_units) + 100 * sync_units + 60 * SEC;
                    }
                }
                if let Some(from) = from2 {
                    let m = w.nodes[sn].clock.borrow();
                    if now >= from {
                        let off = m.local_at(now) - (now as i128 + REF_EPOCH as i128 + b_off);
                        evals2 += 1;
                        worst2 = worst2.max(off.abs());
                        if off.abs() > bound && first_bad2.is_none() {
                            first_bad2 = Some((now, off));
                        }
                        for e in &m.log[log_seen2..] {
                            if matches!(e.cmd, ClockCmd::Step { .. }) && e.at >= from {
                                steps2 += 1;
                            }
                        }
                    }
                    log_seen2 = m.log.len();
                }
            }
            let key2 = format!("sync_log={sync_log} phase=after_master_change");
            switch_desc = json!({"new_master_clock_ahead_ns": delta_ns as i64, "old_master_silent": a_silent_at.is_some(), "slave_of_new_master_at_s": t_b.map(tt_to_secs), "worst_offset_ns_after_settle": worst2 as f64 / NS as f64, "evaluations": evals2});
            if t_b.is_none() || evals2 == 0 {
                w.out.violate("C02", "C02.never_became_slave_or_never_checked", key2, format!("the port never became slave of the better master within {:.0} s: {switch_desc}", tt_to_secs(until2 - t0)));
            } else {
                w.out.probe("checked_after_master_change");
                if let Some((at, off)) = first_bad2 {
                    w.out.violate("C02", "C02.offset_exceeds_bound_after_settle", key2.clone(), format!("after the change of master: true offset to the new master {:.1} ns at t={:.3}s exceeds bound {:.1} ns (worst {:.1} ns); {switch_desc}", off as f64 / NS as f64, tt_to_secs(at), bound as f64 / NS as f64, worst2 as f64 / NS as f64));
                }
                if steps2 > 0 {
                    w.out.violate("C02", "C02.clock_stepped_after_settle", key2, format!("{steps2} step_clock calls after the settle time that follows the change of master; {switch_desc}"));
                }
                evals += evals2;
            }
        }
        let params = json!({
            "master_change": switch_desc,
            "delay_us": (delay / US) as u64, "jitter_us": (jitter / US) as u64, "sync_log": sync_log, "delay_log": delay_log, "announce_log": announce_log,
            "quantum_ns": quantum, "one_step_reference_master": one_step_ref, "initial_offset_ns": offset_ns, "relative_drift_ppm": rel_drift_ppt as f64 / 1e6,
            "faults": self.faults, "p2p": p2p, "bound_ns": bound as f64 / NS as f64, "worst_offset_ns_after_settle": worst as f64 / NS as f64,
            "slave_at_s": t_slave.map(tt_to_secs), "checked_from_s": check_from.map(tt_to_secs), "evaluations": evals,
        });
        let key = format!("sync_log={sync_log} one_step={one_step_ref} faults={}", self.faults);
        if calib {
            let frac = last_bad * 20 / t_settle(sync_units);
            w.out.probe(&format!("calib.last_exceed_over_tsettle_20ths.{:03}.synclog{}", frac, sync_log.max(delay_log)));
            w.out.nontrivial = true;
            return w.finish();
        }
        if t_slave.is_none() || evals == 0 {
            w.out.violate("C02", "C02.never_became_slave_or_never_checked", key.clone(), format!("slave port never reached the checked phase: {params}"));
        } else {
            w.out.nontrivial = true;
            if let Some((at, off)) = first_bad {
                w.out.violate(
                    "C02",
                    "C02.offset_exceeds_bound_after_settle",
                    key.clone(),
                    format!("true offset {:.1} ns at t={:.3}s exceeds bound {:.1} ns (worst {:.1} ns); {params}", off as f64 / NS as f64, tt_to_secs(at), bound as f64 / NS as f64, worst as f64 / NS as f64),
                );
            }
            if steps_after > 0 {
                w.out.violate("C02", "C02.clock_stepped_after_settle", key, format!("{steps_after} step_clock calls after the settle time; {params}"));
            }
        }
        // settle-time statistic for the batch-level oracle: last instant (since slave) at which the
        // bound was exceeded, in 20ths of the nominal time 60 s + 150 I
        if !self.faults && !self.p2p && !self.switch && t_slave.is_some() {
            let nominal = 60 * SEC + 150 * sync_units;
            let bin = (last_bad_any * 20 / nominal).min(99);
            let class = sync_log.max(delay_log);
            w.out.probe(&format!("settle.class{}.n", class));
            if bin >= 10 {
                w.out.probe(&format!("settle.class{}.slow", class));
            }
        }
        // margin histogram probe (worst / bound in tenths)
        let ratio = if bound > 0 { (worst * 10 / bound).min(20) } else { 0 };
        w.out.probe(&format!("worst_over_bound_tenths.{:02}", ratio));
        w.out.oracle_evals = evals;
        w.shape.byte(sync_log as u8);
        w.shape.byte(delay_log as u8);
        w.shape.byte(one_step_ref as u8);
        w.shape.byte(quantum as u8);
        w.shape.byte((offset_ns.signum() + 1) as u8);
        w.shape.byte((rel_drift_ppt / 30_000_000) as u8);
        w.shape.byte((jitter / (4 * US)) as u8);
        w.out.sample = Some(params);
        w.finish()
    }
}
