//! Harness implementations of statime's public seams: the instance-state lock
//! (nesting detector), the RNG, the filter (real filters behind one enum, plus
//! a recording filter) and a counting logger.

use rand::RngCore;
use statime::filters::{BasicFilter, Filter, FilterEstimate, FilterUpdate, KalmanConfiguration, KalmanFilter};
use statime::port::Measurement;
use statime::time::Duration;
use statime::{Clock, PtpInstanceState, PtpInstanceStateMutex};
use std::cell::{Cell, RefCell};
use std::collections::BTreeMap;
use std::rc::Rc;
use vcommon::Rng64;

// ---------------------------------------------------------------- lock

thread_local! {
    static NESTED: Cell<u64> = const { Cell::new(0) };
    static ACQUISITIONS: Cell<u64> = const { Cell::new(0) };
    static MAX_DEPTH: Cell<u32> = const { Cell::new(0) };
}

/// Lock that counts acquisition depth. A second `with_ref`/`with_mut` entered
/// while one is active would deadlock a blocking writer-preferring RwLock (and
/// panic a RefCell for `with_mut`), so it is recorded as a C17 violation.
pub struct DetectLock {
    inner: RefCell<PtpInstanceState>,
    depth: Cell<u32>,
}

impl std::fmt::Debug for DetectLock {
    fn fmt(&self, f: &mut std::fmt::Formatter<'_>) -> std::fmt::Result {
        match self.inner.try_borrow() {
            Ok(s) => write!(f, "{:?}", &*s),
            Err(_) => write!(f, "<locked>"),
        }
    }
}

impl PtpInstanceStateMutex for DetectLock {
    fn new(state: PtpInstanceState) -> Self {
        DetectLock { inner: RefCell::new(state), depth: Cell::new(0) }
    }
    fn with_ref<R, F: FnOnce(&PtpInstanceState) -> R>(&self, f: F) -> R {
        let d = self.depth.get();
        if d > 0 {
            NESTED.with(|n| n.set(n.get() + 1));
        }
        ACQUISITIONS.with(|n| n.set(n.get() + 1));
        self.depth.set(d + 1);
        MAX_DEPTH.with(|m| m.set(m.get().max(d + 1)));
        struct Reset<'a>(&'a Cell<u32>, u32);
        impl Drop for Reset<'_> {
            fn drop(&mut self) {
                self.0.set(self.1);
            }
        }
        let _g = Reset(&self.depth, d);
        // a nested read inside a write would panic the RefCell; report instead
        match self.inner.try_borrow() {
            Ok(b) => f(&b),
            Err(_) => {
                NESTED.with(|n| n.set(n.get() + 1000));
                // cannot proceed safely: this is a re-borrow panic under RefCell
                panic!("DetectLock: with_ref while with_mut active (re-borrow)");
            }
        }
    }
    fn with_mut<R, F: FnOnce(&mut PtpInstanceState) -> R>(&self, f: F) -> R {
        let d = self.depth.get();
        if d > 0 {
            NESTED.with(|n| n.set(n.get() + 1));
        }
        ACQUISITIONS.with(|n| n.set(n.get() + 1));
        self.depth.set(d + 1);
        MAX_DEPTH.with(|m| m.set(m.get().max(d + 1)));
        struct Reset<'a>(&'a Cell<u32>, u32);
        impl Drop for Reset<'_> {
            fn drop(&mut self) {
                self.0.set(self.1);
            }
        }
        let _g = Reset(&self.depth, d);
        match self.inner.try_borrow_mut() {
            Ok(mut b) => f(&mut b),
            Err(_) => {
                NESTED.with(|n| n.set(n.get() + 1000));
                panic!("DetectLock: with_mut while another borrow active (re-borrow)");
            }
        }
    }
}

pub fn lock_stats_reset() {
    NESTED.with(|n| n.set(0));
    ACQUISITIONS.with(|n| n.set(0));
    MAX_DEPTH.with(|n| n.set(0));
}
pub fn lock_nested() -> u64 {
    NESTED.with(|n| n.get())
}
pub fn lock_acquisitions() -> u64 {
    ACQUISITIONS.with(|n| n.get())
}
pub fn lock_max_depth() -> u32 {
    MAX_DEPTH.with(|n| n.get())
}

// ---------------------------------------------------------------- rng

/// The library's RNG (announce receipt jitter, delay request spacing), seeded
/// from the tape.
#[derive(Clone, Debug)]
pub struct SimRng(pub Rng64);

impl SimRng {
    pub fn new(seed: u64) -> Self {
        SimRng(Rng64::new(seed))
    }
}

impl RngCore for SimRng {
    fn next_u32(&mut self) -> u32 {
        (self.0.next_u64() >> 32) as u32
    }
    fn next_u64(&mut self) -> u64 {
        self.0.next_u64()
    }
    fn fill_bytes(&mut self, dest: &mut [u8]) {
        for c in dest.chunks_mut(8) {
            let v = self.0.next_u64().to_le_bytes();
            c.copy_from_slice(&v[..c.len()]);
        }
    }
    fn try_fill_bytes(&mut self, dest: &mut [u8]) -> Result<(), rand::Error> {
        self.fill_bytes(dest);
        Ok(())
    }
}

// ---------------------------------------------------------------- filters

#[derive(Clone, Debug)]
pub struct RecEntry {
    pub seq: u64,
    pub m: Measurement,
}

/// Shared log of a recording filter.
#[derive(Debug, Default)]
pub struct RecLog {
    pub entries: Vec<RecEntry>,
    pub demobilized: u64,
    pub updates: u64,
    pub created: u64,
}

#[derive(Clone)]
pub enum FilterCfg {
    Kalman(KalmanConfiguration),
    Basic(f64),
    /// records every measurement; answers with the given mean delay (units of
    /// 2^-32 ns) so that the `offset` path of the port is live
    Recording { log: Rc<RefCell<RecLog>>, mean_delay_units: Option<i128>, seq: Rc<crate::clock::SimTime> },
    /// any of the above; additionally notes the last mean delay the filter handed back to the
    /// port (units of 2^-32 ns) in a cell that outlives the filter instance. That value is what
    /// the port keeps as its live mean (link) delay and subtracts from every later Sync
    /// measurement, no matter how often the port replaces its filter (C19 compares the exposed
    /// meanLinkDelay of a P2P port with it).
    Tracked { inner: Box<FilterCfg>, live: Rc<std::cell::Cell<Option<i128>>> },
}

impl std::fmt::Debug for FilterCfg {
    fn fmt(&self, f: &mut std::fmt::Formatter<'_>) -> std::fmt::Result {
        match self {
            FilterCfg::Kalman(_) => write!(f, "KalmanCfg"),
            FilterCfg::Basic(g) => write!(f, "BasicCfg({g})"),
            FilterCfg::Recording { mean_delay_units, .. } => write!(f, "RecordingCfg({mean_delay_units:?})"),
            FilterCfg::Tracked { inner, .. } => inner.fmt(f),
        }
    }
}

pub enum AnyFilter {
    Kalman(Box<KalmanFilter>),
    Basic(BasicFilter),
    Recording { log: Rc<RefCell<RecLog>>, mean_delay_units: Option<i128>, seq: Rc<crate::clock::SimTime>, last: Option<Measurement> },
    Tracked { inner: Box<AnyFilter>, live: Rc<std::cell::Cell<Option<i128>>> },
}

impl std::fmt::Debug for AnyFilter {
    fn fmt(&self, f: &mut std::fmt::Formatter<'_>) -> std::fmt::Result {
        match self {
            AnyFilter::Kalman(_) => write!(f, "Kalman(..)"),
            AnyFilter::Basic(b) => write!(f, "{b:?}"),
            AnyFilter::Recording { last, .. } => write!(f, "Recording(last={last:?})"),
            AnyFilter::Tracked { inner, .. } => inner.fmt(f),
        }
    }
}

impl Filter for AnyFilter {
    type Config = FilterCfg;

    fn new(config: Self::Config) -> Self {
        match config {
            FilterCfg::Kalman(c) => AnyFilter::Kalman(Box::new(KalmanFilter::new(c))),
            FilterCfg::Basic(g) => AnyFilter::Basic(BasicFilter::new(g)),
            FilterCfg::Recording { log, mean_delay_units, seq } => {
                log.borrow_mut().created += 1;
                AnyFilter::Recording { log, mean_delay_units, seq, last: None }
            }
            FilterCfg::Tracked { inner, live } => AnyFilter::Tracked { inner: Box::new(AnyFilter::new(*inner)), live },
        }
    }

    fn measurement<C: Clock>(&mut self, m: Measurement, clock: &mut C) -> FilterUpdate {
        match self {
            AnyFilter::Kalman(k) => k.measurement(m, clock),
            AnyFilter::Basic(b) => b.measurement(m, clock),
            AnyFilter::Recording { log, mean_delay_units, seq, last } => {
                log.borrow_mut().entries.push(RecEntry { seq: seq.seq.get(), m });
                *last = Some(m);
                FilterUpdate {
                    next_update: None,
                    mean_delay: mean_delay_units.map(crate::clock::units_to_duration),
                }
            }
            AnyFilter::Tracked { inner, live } => {
                let u = inner.measurement(m, clock);
                if let Some(d) = u.mean_delay {
                    live.set(Some(crate::clock::duration_to_units(d)));
                }
                u
            }
        }
    }

    fn update<C: Clock>(&mut self, clock: &mut C) -> FilterUpdate {
        match self {
            AnyFilter::Kalman(k) => k.update(clock),
            AnyFilter::Basic(b) => b.update(clock),
            AnyFilter::Recording { log, .. } => {
                log.borrow_mut().updates += 1;
                FilterUpdate::default()
            }
            AnyFilter::Tracked { inner, live } => {
                let u = inner.update(clock);
                if let Some(d) = u.mean_delay {
                    live.set(Some(crate::clock::duration_to_units(d)));
                }
                u
            }
        }
    }

    fn demobilize<C: Clock>(self, clock: &mut C) {
        match self {
            AnyFilter::Kalman(k) => k.demobilize(clock),
            AnyFilter::Basic(b) => b.demobilize(clock),
            AnyFilter::Recording { log, .. } => {
                log.borrow_mut().demobilized += 1;
            }
            AnyFilter::Tracked { inner, .. } => inner.demobilize(clock),
        }
    }

    fn current_estimates(&self) -> FilterEstimate {
        match self {
            AnyFilter::Kalman(k) => k.current_estimates(),
            AnyFilter::Basic(b) => b.current_estimates(),
            AnyFilter::Recording { last, .. } => FilterEstimate {
                offset_from_master: last.and_then(|m| m.offset).unwrap_or(Duration::ZERO),
                mean_delay: last.and_then(|m| m.delay).unwrap_or(Duration::ZERO),
            },
            AnyFilter::Tracked { inner, .. } => inner.current_estimates(),
        }
    }
}

// ---------------------------------------------------------------- logger

thread_local! {
    static LOG_COUNTS: RefCell<BTreeMap<&'static str, u64>> = const { RefCell::new(BTreeMap::new()) };
}

/// Prefixes of statime's own warn/error records harvested as probes. Neither
/// draws from the tape nor reads a clock.
const LOG_PROBES: &[(&str, &str)] = &[
    ("Clock loop detected", "log.clock_loop_detected"),
    ("Duplicate sync", "log.duplicate_sync"),
    ("Duplicate FollowUp", "log.duplicate_follow_up"),
    ("Duplicate DelayResp", "log.duplicate_delay_resp"),
    ("Unexpected DelayResp", "log.unexpected_delay_resp"),
    ("Duplicate PDelayRespFollowUp", "log.duplicate_pdelay_resp_follow_up"),
    ("Duplicate PDelayResp", "log.duplicate_pdelay_resp"),
    ("Unexpected PDelayRespFollowUp", "log.unexpected_pdelay_resp_follow_up"),
    ("Unexpected PDelayResp", "log.unexpected_pdelay_resp"),
    ("Responses from multiple devices", "log.multiple_pdelay_responders"),
    ("Double send timestamp", "log.double_send_timestamp"),
    ("Late timestamp", "log.late_timestamp"),
    ("Could not parse packet", "log.parse_error"),
    ("Received event message over general", "log.event_on_general"),
    ("Statime bug", "log.statime_bug"),
    ("Could not serialize", "log.serialize_error"),
    ("Could not adjust clock", "log.clock_adjust_failed"),
    ("Could not step clock", "log.clock_step_failed"),
    ("Could not update clock", "log.clock_update_failed"),
    ("Could not initialize clock", "log.clock_init_failed"),
];

struct CountingLogger;

impl log::Log for CountingLogger {
    fn enabled(&self, m: &log::Metadata) -> bool {
        m.level() <= log::Level::Warn
    }
    fn log(&self, record: &log::Record) {
        if record.level() > log::Level::Warn {
            return;
        }
        let s = match record.args().as_str() {
            Some(s) => std::borrow::Cow::Borrowed(s),
            None => std::borrow::Cow::Owned(format!("{}", record.args())),
        };
        for (prefix, name) in LOG_PROBES {
            if s.starts_with(prefix) {
                LOG_COUNTS.with(|c| *c.borrow_mut().entry(name).or_insert(0) += 1);
                return;
            }
        }
        LOG_COUNTS.with(|c| *c.borrow_mut().entry("log.other_warn_or_error").or_insert(0) += 1);
    }
    fn flush(&self) {}
}

static LOGGER: CountingLogger = CountingLogger;

pub fn install_logger() {
    let _ = log::set_logger(&LOGGER);
    log::set_max_level(log::LevelFilter::Warn);
}

pub fn log_counts_take() -> BTreeMap<&'static str, u64> {
    LOG_COUNTS.with(|c| std::mem::take(&mut *c.borrow_mut()))
}
pub fn log_count(name: &str) -> u64 {
    LOG_COUNTS.with(|c| c.borrow().get(name).copied().unwrap_or(0))
}
