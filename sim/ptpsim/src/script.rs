//! Scripted (non-statime) PTP peers speaking through the reference codec.

use crate::clock::*;
use crate::host::*;
use crate::wire::*;
use std::rc::Rc;
use vcommon::Chooser;

pub const TAG_ANNOUNCE: u64 = 1;
pub const TAG_SYNC: u64 = 2;
pub const TAG_FOLLOW_UP: u64 = 3;
pub const TAG_USER: u64 = 100;

/// Local time base of scripted peers: true time + this offset (so that their
/// timestamps are in the same range as the simulated clocks).
pub const REF_EPOCH: u128 = 1_700_000_000 * SEC;

#[derive(Clone, Debug)]
pub struct GmData {
    pub priority1: u8,
    pub class: u8,
    pub accuracy: u8,
    pub variance: u16,
    pub priority2: u8,
    pub identity: [u8; 8],
    pub steps_removed: u16,
    pub utc_offset: i16,
    pub time_source: u8,
    /// announce flagField bits (leap61, leap59, utcValid, ptpTimescale, timeTraceable, freqTraceable)
    pub flags: u16,
}

impl GmData {
    pub fn body(&self) -> AnnounceBody {
        AnnounceBody {
            origin: Ts::default(),
            utc_offset: self.utc_offset,
            gm_priority1: self.priority1,
            gm_class: self.class,
            gm_accuracy: self.accuracy,
            gm_variance: self.variance,
            gm_priority2: self.priority2,
            gm_identity: self.identity,
            steps_removed: self.steps_removed,
            time_source: self.time_source,
        }
    }
    pub fn simple(identity: [u8; 8], priority1: u8) -> Self {
        GmData { priority1, class: 248, accuracy: 0xfe, variance: 0xffff, priority2: 128, identity, steps_removed: 0, utc_offset: 37, time_source: 0xa0, flags: 0 }
    }
}

pub fn announce_frame(src: Pid, seq: u16, gm: &GmData, domain: u8, sdo: u16, log_interval: i8) -> Frame {
    let mut f = Frame::new(MsgType::Announce, src, seq, Body::Announce(gm.body()));
    f.hdr.flags = gm.flags;
    f.hdr.domain = domain;
    f.hdr.sdo_id = sdo;
    f.hdr.log_interval = log_interval;
    f
}

/// Scripted master: announces, syncs (one- or two-step), answers Delay_Req
/// and Pdelay_Req. Its clock is true time + REF_EPOCH + `offset`.
#[derive(Clone, Debug)]
pub struct RefMaster {
    pub endpoint: usize,
    pub seg: usize,
    pub pid: Pid,
    pub gm: GmData,
    pub domain: u8,
    pub sdo: u16,
    pub announce_log: i8,
    pub sync_log: i8,
    pub two_step: bool,
    pub seq_announce: u16,
    pub seq_sync: u16,
    pub active: bool,
    pub announce_on: bool,
    pub sync_on: bool,
    pub answer_delay: bool,
    pub answer_pdelay: bool,
    pub offset: i128,
    pub announces_sent: u64,
    pub syncs_sent: u64,
    pub delay_reqs_seen: u64,
    pub pdelay_reqs_seen: u64,
    pub last_delay_req_at: Option<Tt>,
    pub max_delay_req_gap: Tt,
    pub tlvs: Vec<Tlv>,
}

impl RefMaster {
    pub fn new(endpoint: usize, seg: usize, pid: Pid, gm: GmData, log: i8) -> Self {
        RefMaster {
            endpoint,
            seg,
            pid,
            gm,
            domain: 0,
            sdo: 0,
            announce_log: log,
            sync_log: log,
            two_step: true,
            seq_announce: 0,
            seq_sync: 0,
            active: true,
            announce_on: true,
            sync_on: true,
            answer_delay: true,
            answer_pdelay: true,
            offset: 0,
            announces_sent: 0,
            syncs_sent: 0,
            delay_reqs_seen: 0,
            pdelay_reqs_seen: 0,
            last_delay_req_at: None,
            max_delay_req_gap: 0,
            tlvs: Vec::new(),
        }
    }
    pub fn local(&self, t: Tt) -> u128 {
        (t as i128 + REF_EPOCH as i128 + self.offset).max(0) as u128
    }
    pub fn start(&self, w: &mut World, phase: Tt) {
        w.schedule_script(w.now() + phase, TAG_ANNOUNCE, self.endpoint as u64, 0);
        w.schedule_script(w.now() + phase + HostPort::interval_units(self.sync_log) / 3, TAG_SYNC, self.endpoint as u64, 0);
    }
    pub fn send_announce(&mut self, w: &mut World, ch: &mut Chooser) {
        let mut f = announce_frame(self.pid, self.seq_announce, &self.gm, self.domain, self.sdo, self.announce_log);
        f.tlvs = self.tlvs.clone();
        self.seq_announce = self.seq_announce.wrapping_add(1);
        self.announces_sent += 1;
        w.script_send(self.seg, self.endpoint, false, f.encode(), ch);
    }
    pub fn send_sync(&mut self, w: &mut World, ch: &mut Chooser) {
        let t = self.local(w.now());
        let ns = t / NS;
        let sub = (t % NS) as i64; // 2^-32 ns
        let seq = self.seq_sync;
        self.seq_sync = self.seq_sync.wrapping_add(1);
        self.syncs_sent += 1;
        if self.two_step {
            let mut s = Frame::new(MsgType::Sync, self.pid, seq, Body::Sync { origin: Ts::default() });
            s.hdr.flags = flag::TWO_STEP;
            s.hdr.domain = self.domain;
            s.hdr.sdo_id = self.sdo;
            s.hdr.log_interval = self.sync_log;
            w.script_send(self.seg, self.endpoint, true, s.encode(), ch);
            let mut fu = Frame::new(MsgType::FollowUp, self.pid, seq, Body::FollowUp { precise_origin: Ts::from_ns(ns) });
            fu.hdr.correction = sub >> 16;
            fu.hdr.domain = self.domain;
            fu.hdr.sdo_id = self.sdo;
            fu.hdr.log_interval = self.sync_log;
            w.script_send(self.seg, self.endpoint, false, fu.encode(), ch);
        } else {
            let mut s = Frame::new(MsgType::Sync, self.pid, seq, Body::Sync { origin: Ts::from_ns(ns) });
            s.hdr.correction = sub >> 16;
            s.hdr.domain = self.domain;
            s.hdr.sdo_id = self.sdo;
            s.hdr.log_interval = self.sync_log;
            w.script_send(self.seg, self.endpoint, true, s.encode(), ch);
        }
    }
    /// handle a script timer event addressed to this master; returns true if consumed
    pub fn on_script(&mut self, w: &mut World, tag: u64, a: u64, ch: &mut Chooser) -> bool {
        if a != self.endpoint as u64 {
            return false;
        }
        match tag {
            TAG_ANNOUNCE => {
                if self.active && self.announce_on {
                    self.send_announce(w, ch);
                }
                w.schedule_script(w.now() + HostPort::interval_units(self.announce_log), TAG_ANNOUNCE, a, 0);
                true
            }
            TAG_SYNC => {
                if self.active && self.sync_on {
                    self.send_sync(w, ch);
                }
                w.schedule_script(w.now() + HostPort::interval_units(self.sync_log), TAG_SYNC, a, 0);
                true
            }
            _ => false,
        }
    }
    /// handle a frame received from the segment
    pub fn on_rx(&mut self, w: &mut World, endpoint: usize, event: bool, frame: &Rc<Vec<u8>>, ch: &mut Chooser) {
        if endpoint != self.endpoint || !self.active {
            return;
        }
        let Ok(f) = Frame::decode(frame) else { return };
        let now_local = self.local(w.now());
        match (&f.body, event) {
            (Body::DelayReq { .. }, true) => {
                self.delay_reqs_seen += 1;
                if let Some(l) = self.last_delay_req_at {
                    self.max_delay_req_gap = self.max_delay_req_gap.max(w.now() - l);
                }
                self.last_delay_req_at = Some(w.now());
                if self.answer_delay {
                    let mut r = Frame::new(
                        MsgType::DelayResp,
                        self.pid,
                        f.hdr.seq,
                        Body::DelayResp { receive: Ts::from_ns(now_local / NS), requesting: f.hdr.source },
                    );
                    r.hdr.correction = f.hdr.correction + ((now_local % NS) as i64 >> 16);
                    r.hdr.domain = self.domain;
                    r.hdr.sdo_id = self.sdo;
                    r.hdr.log_interval = self.sync_log;
                    w.script_send(self.seg, self.endpoint, false, r.encode(), ch);
                }
            }
            (Body::PdelayReq { .. }, true) => {
                self.pdelay_reqs_seen += 1;
                if let Some(l) = self.last_delay_req_at {
                    self.max_delay_req_gap = self.max_delay_req_gap.max(w.now() - l);
                }
                self.last_delay_req_at = Some(w.now());
                if self.answer_pdelay {
                    // one-step responder: turnaround folded into the correction field (zero residence here)
                    let mut r = Frame::new(
                        MsgType::PdelayResp,
                        self.pid,
                        f.hdr.seq,
                        Body::PdelayResp { request_receipt: Ts::from_ns(now_local / NS), requesting: f.hdr.source },
                    );
                    r.hdr.flags = flag::TWO_STEP;
                    r.hdr.domain = self.domain;
                    r.hdr.sdo_id = self.sdo;
                    w.script_send(self.seg, self.endpoint, true, r.encode(), ch);
                    let mut fu = Frame::new(
                        MsgType::PdelayRespFollowUp,
                        self.pid,
                        f.hdr.seq,
                        Body::PdelayRespFollowUp { response_origin: Ts::from_ns(now_local / NS), requesting: f.hdr.source },
                    );
                    fu.hdr.domain = self.domain;
                    fu.hdr.sdo_id = self.sdo;
                    w.script_send(self.seg, self.endpoint, false, fu.encode(), ch);
                }
            }
            _ => {}
        }
    }
}
