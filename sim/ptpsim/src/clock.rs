//! Simulated oscillators. True time is a u128 count of 2^-32 ns (the
//! resolution of statime::time::Time), so every oracle can use exact integers.

use fixed::types::{I96F32, U96F32};
use statime::config::TimePropertiesDS;
use statime::time::{Duration, Time};
use statime::Clock;
use std::cell::{Cell, RefCell};
use std::rc::Rc;

/// true time / local time in units of 2^-32 ns
pub type Tt = u128;
pub const NS: u128 = 1 << 32;
pub const US: u128 = 1000 * NS;
pub const MS: u128 = 1000 * US;
pub const SEC: u128 = 1000 * MS;

pub fn tt_to_secs(t: Tt) -> f64 {
    t as f64 / SEC as f64
}
pub fn units_to_time(u: u128) -> Time {
    Time::from_fixed_nanos(U96F32::from_bits(u))
}
pub fn time_to_units(t: Time) -> u128 {
    t.nanos().to_bits()
}
pub fn units_to_duration(u: i128) -> Duration {
    Duration::from_fixed_nanos(I96F32::from_bits(u))
}
pub fn duration_to_units(d: Duration) -> i128 {
    d.nanos().to_bits()
}
pub fn core_to_units(d: core::time::Duration) -> u128 {
    d.as_nanos() * NS
}

#[derive(Clone, Debug, PartialEq)]
pub enum ClockCmd {
    SetFrequency { ppm: f64, ok: bool },
    Step { offset_units: i128, ok: bool },
    SetProperties,
}

#[derive(Clone, Debug)]
pub struct ClockLogEntry {
    pub at: Tt,
    pub seq: u64,
    /// tag of the handle (port) that issued the command
    pub by: u32,
    pub cmd: ClockCmd,
}

#[derive(Debug)]
pub struct ClockModel {
    pub anchor_true: Tt,
    pub anchor_local: i128,
    /// oscillator error in parts per 10^12
    pub drift_ppt: i64,
    /// programmed adjustment in parts per 10^12
    pub adj_ppt: i64,
    /// timestamp quantum in ns (0 = none)
    pub quantum_ns: u64,
    pub log: Vec<ClockLogEntry>,
    /// fail the next n-th commands: bit pattern consumed from the low end
    pub fail_pattern: u64,
    pub fail_count: u64,
    pub cmd_count: u64,
}

impl ClockModel {
    pub fn new(start_local: i128, drift_ppt: i64) -> Self {
        ClockModel {
            anchor_true: 0,
            anchor_local: start_local,
            drift_ppt,
            adj_ppt: 0,
            quantum_ns: 0,
            log: Vec::new(),
            fail_pattern: 0,
            fail_count: 0,
            cmd_count: 0,
        }
    }
    /// local reading (unquantised) at true time t, in 2^-32 ns units
    pub fn local_at(&self, t: Tt) -> i128 {
        let el = t as i128 - self.anchor_true as i128;
        let rate = (self.drift_ppt + self.adj_ppt) as i128;
        self.anchor_local + el + (el * rate) / 1_000_000_000_000i128
    }
    pub fn reanchor(&mut self, t: Tt) {
        self.anchor_local = self.local_at(t);
        self.anchor_true = t;
    }
    /// local reading as a timestamp would capture it (quantised)
    pub fn stamp_at(&self, t: Tt) -> u128 {
        let l = self.local_at(t).max(0) as u128;
        if self.quantum_ns > 1 {
            let q = self.quantum_ns as u128 * NS;
            (l / q) * q
        } else if self.quantum_ns == 1 {
            (l / NS) * NS
        } else {
            l
        }
    }
    fn next_cmd_fails(&mut self) -> bool {
        self.cmd_count += 1;
        let f = self.fail_pattern & 1 == 1;
        self.fail_pattern >>= 1;
        if f {
            self.fail_count += 1;
        }
        f
    }
    /// someone else jumps the clock
    pub fn external_step(&mut self, t: Tt, by: i128) {
        self.reanchor(t);
        self.anchor_local += by;
    }
    pub fn set_drift(&mut self, t: Tt, drift_ppt: i64) {
        self.reanchor(t);
        self.drift_ppt = drift_ppt;
    }
}

#[derive(Debug)]
pub struct SimTime {
    pub now: Cell<Tt>,
    pub seq: Cell<u64>,
}

pub type SharedClock = Rc<RefCell<ClockModel>>;

/// The `statime::Clock` a port sees. Several handles (one per port) may share
/// one model; each carries the tag of its port so commands are attributable.
pub struct SimClockHandle {
    pub model: SharedClock,
    pub time: Rc<SimTime>,
    pub tag: u32,
}

impl std::fmt::Debug for SimClockHandle {
    fn fmt(&self, f: &mut std::fmt::Formatter<'_>) -> std::fmt::Result {
        write!(f, "SimClock#{}", self.tag)
    }
}

impl SimClockHandle {
    pub fn new(model: SharedClock, time: Rc<SimTime>, tag: u32) -> Self {
        SimClockHandle { model, time, tag }
    }
    pub fn dup(&self, tag: u32) -> Self {
        SimClockHandle { model: self.model.clone(), time: self.time.clone(), tag }
    }
}

#[derive(Debug)]
pub struct SimClockError;

impl Clock for SimClockHandle {
    type Error = SimClockError;

    fn now(&self) -> Time {
        let t = self.time.now.get();
        units_to_time(self.model.borrow().local_at(t).max(0) as u128)
    }

    fn step_clock(&mut self, offset: Duration) -> Result<Time, Self::Error> {
        let t = self.time.now.get();
        let mut m = self.model.borrow_mut();
        let fail = m.next_cmd_fails();
        let off = duration_to_units(offset);
        m.log.push(ClockLogEntry {
            at: t,
            seq: self.time.seq.get(),
            by: self.tag,
            cmd: ClockCmd::Step { offset_units: off, ok: !fail },
        });
        if fail {
            return Err(SimClockError);
        }
        m.reanchor(t);
        m.anchor_local += off;
        Ok(units_to_time(m.local_at(t).max(0) as u128))
    }

    fn set_frequency(&mut self, ppm: f64) -> Result<Time, Self::Error> {
        let t = self.time.now.get();
        let mut m = self.model.borrow_mut();
        let fail = m.next_cmd_fails();
        m.log.push(ClockLogEntry {
            at: t,
            seq: self.time.seq.get(),
            by: self.tag,
            cmd: ClockCmd::SetFrequency { ppm, ok: !fail },
        });
        if fail {
            return Err(SimClockError);
        }
        m.reanchor(t);
        if ppm.is_finite() {
            m.adj_ppt = (ppm * 1e6).round().clamp(-9e17, 9e17) as i64;
        }
        Ok(units_to_time(m.local_at(t).max(0) as u128))
    }

    fn set_properties(&mut self, _ds: &TimePropertiesDS) -> Result<(), Self::Error> {
        let t = self.time.now.get();
        let mut m = self.model.borrow_mut();
        m.log.push(ClockLogEntry { at: t, seq: self.time.seq.get(), by: self.tag, cmd: ClockCmd::SetProperties });
        Ok(())
    }
}
