#!/bin/bash
# Sensitivity proof for c17 (C17 part 2). Nothing in /repo's working tree or in
# /verif/replays, /verif/evidence is touched:
#   * /repo is checked out a second time as a detached worktree in /tmp/c17-mut,
#   * a scratch copy of this crate in /tmp/c17-scratch has its manifest pointed at
#     /tmp/c17-mut/statime (that IS the override mechanism: copy the crate, edit the one
#     `statime = { path = ... }` line and the target-dir),
#   * the scratch binary writes below $VERIF_C17_OUT=/tmp/c17-scratch/out.
# For every mutants/*.diff: apply, rebuild, run the QUICK tier with seeds 1,2,... until a
# violation is reported, replay the persisted schedule in a fresh process, revert.
# Result table: mutants/sensitivity.json. Everything in /tmp is removed at the end.
set -u
HERE=/verif/c17
MUT=/tmp/c17-mut
SCR=/tmp/c17-scratch
MAXSEEDS=${MAXSEEDS:-20}
OUTJSON=$HERE/mutants/sensitivity.json

cleanup() {
    git -C /repo worktree remove --force $MUT 2>/dev/null
    git -C /repo worktree prune 2>/dev/null
    rm -rf $SCR $MUT
}
trap cleanup EXIT
cleanup

git -C /repo worktree add --detach $MUT HEAD >/dev/null 2>&1 || { echo "cannot create worktree"; exit 2; }
mkdir -p $SCR/out
cp -r $HERE/Cargo.toml $HERE/Cargo.lock $HERE/src $HERE/.cargo $SCR/
sed -i 's#path = "/repo/statime"#path = "/tmp/c17-mut/statime"#' $SCR/Cargo.toml
sed -i 's#/verif/target/c17#/tmp/c17-scratch/target#' $SCR/.cargo/config.toml
grep -q '/tmp/c17-mut/statime' $SCR/Cargo.toml || { echo "manifest override failed"; exit 2; }
BIN=$SCR/target/release/c17
export VERIF_C17_OUT=$SCR/out

build() { (cd $SCR && cargo build --release 2>&1 | tail -2); }

echo '[' > $OUTJSON.tmp
first=1
run_case() { # name, expected exit
    local name=$1 expect=$2 seed rc found=0
    rm -rf $SCR/out/replays $SCR/out/evidence
    for seed in $(seq 1 $MAXSEEDS); do
        VERIF_SEED=$seed $BIN check C17 quick > $SCR/out/stdout.txt 2> $SCR/out/stderr.txt
        rc=$?
        if [ $rc -ne 0 ]; then found=1; break; fi
        [ "$expect" = 0 ] && [ $seed -ge 5 ] && break
    done
    local replay_rc=-1 file=""
    if [ $found = 1 ]; then
        file=$(grep -m1 '^VIOLATION property=C17 replay=' $SCR/out/stdout.txt | sed 's/.*replay=//')
        if [ -n "$file" ]; then $BIN replay "$file" > $SCR/out/replay.txt 2>/dev/null; replay_rc=$?; fi
    fi
    [ $first = 1 ] || echo ',' >> $OUTJSON.tmp
    first=0
    python3 - "$name" "$expect" "$found" "$seed" "$rc" "$replay_rc" "$file" >> $OUTJSON.tmp <<'EOF'
import json, sys
name, expect, found, seed, rc, replay_rc, file = sys.argv[1:8]
out = {"case": name, "expected_exit": int(expect), "exit": int(rc), "detected": found == "1",
       "seeds_to_detection": int(seed) if found == "1" else None, "seeds_tried": int(seed),
       "replay_exit_in_fresh_process": int(replay_rc), "tier": "quick"}
try:
    e = json.load(open("/tmp/c17-scratch/out/evidence/C17.part2.json"))
    out["schedules_in_detecting_run"] = e["schedules"]
    out["wall_s_of_detecting_run"] = round(e["wall_s"], 2)
    out["classes"] = [{"oracle": c["oracle"], "site": c["site"], "message": c["message"][:400],
                       "found_by_workers": c["found_by_workers"], "scheduler": c["scheduler"],
                       "schedules_of_that_worker_until_detection": c["schedules_of_this_worker_until_detection"],
                       "earliest_detection_in_any_worker_after_schedules": c.get("earliest_detection_in_any_worker_after_schedules"),
                       "replay_reproduced": c["replay_reproduced_in_fresh_process"]} for c in e["violation_classes"]]
except Exception as ex:
    out["evidence_error"] = str(ex)
try:
    out["statime_own_tests_with_this_mutant"] = open("/tmp/c17-scratch/out/upstream-%s.txt" % name).read().strip().splitlines()
except Exception:
    pass
try:
    out["replay_last_lines"] = open("/tmp/c17-scratch/out/replay.txt").read().strip().splitlines()[-2:] if found == "1" else []
except Exception:
    pass
print(json.dumps(out, indent=1))
EOF
    echo "== $name: detected=$found seed=$seed exit=$rc replay_exit=$replay_rc"
}

echo "== baseline (unchanged worktree)"
build
run_case baseline_unmodified 0
for d in $HERE/mutants/*.diff; do
    n=$(basename $d .diff)
    echo "== mutant $n"
    git -C $MUT apply $d || { echo "patch $n does not apply"; exit 2; }
    if [ "${RUN_UPSTREAM_TESTS:-0}" = 1 ]; then
        # is the mutant invisible to statime's own (single-threaded, RefCell) test suite?
        (cd $MUT && CARGO_TARGET_DIR=$SCR/target-upstream cargo test -p statime --offline 2>&1 | grep -E "^test result|FAILED|panicked" | head -5) | tee $SCR/out/upstream-$n.txt
    fi
    build
    run_case $n 1
    git -C $MUT checkout -- .
done
echo ']' >> $OUTJSON.tmp
python3 -c "import json;json.dump(json.load(open('$OUTJSON.tmp')),open('$OUTJSON','w'),indent=1)" && rm -f $OUTJSON.tmp
echo "wrote $OUTJSON"
