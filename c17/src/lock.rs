//! `DetectLock`: the daemon's `RwLock<PtpInstanceState>` behind the public
//! `PtpInstanceStateMutex` trait, over `shuttle::sync::RwLock`, plus a monitor that
//!  (a) counts the acquisition depth per thread and reports `C17.nested_acquisition`
//!      as soon as `with_ref`/`with_mut` is entered by a thread that is already inside
//!      one (a deadlock on a writer-preferring RwLock as soon as a writer queues up,
//!      and an immediate self-deadlock for every combination involving a write);
//!  (b) logs the order in which threads got the lock (read/write), so every explored
//!      schedule has an observable lock-order fingerprint and a snapshot can be
//!      attributed to the write that preceded it.

use std::cell::RefCell;
use std::sync::{Arc, Mutex};

use statime::{PtpInstanceState, PtpInstanceStateMutex};

#[derive(Clone, Copy, Debug, PartialEq, Eq)]
pub enum Kind {
    Read,
    Write,
}

#[derive(Default, Debug)]
pub struct MonState {
    /// (task, depth, kind of the outermost acquisition, BMCA epoch of its last acquisition)
    depth: Vec<(usize, u32, Option<Kind>, u64)>,
    /// task that runs instance.bmca(); its writes start a new epoch
    pub coordinator: Option<usize>,
    pub bmca_epoch: u64,
    pub max_depth: u32,
    /// order in which the lock was obtained: (task, kind)
    pub order: Vec<(u8, Kind)>,
    pub reads: u64,
    pub writes: u64,
    /// number of writes so far; a reader can tag its snapshot with it
    pub write_seq: u64,
}

/// One per execution. Only ever locked for a few instructions and never across a
/// shuttle scheduling point, so a plain std Mutex is fine inside shuttle tasks.
#[derive(Default, Debug)]
pub struct Monitor {
    pub st: Mutex<MonState>,
}

thread_local! {
    /// The monitor of the execution currently running on this runner (OS) thread.
    /// `PtpInstanceStateMutex::new` has no parameter to pass it through.
    static CURRENT: RefCell<Option<Arc<Monitor>>> = const { RefCell::new(None) };
}

pub fn install_monitor(m: Arc<Monitor>) {
    CURRENT.with(|c| *c.borrow_mut() = Some(m));
}

fn me() -> usize {
    usize::from(shuttle::current::me())
}

impl Monitor {
    fn enter(&self, kind: Kind) {
        let t = me();
        let mut st = self.st.lock().unwrap_or_else(|e| e.into_inner());
        let idx = match st.depth.iter().position(|d| d.0 == t) {
            Some(i) => i,
            None => {
                st.depth.push((t, 0, None, 0));
                st.depth.len() - 1
            }
        };
        st.depth[idx].1 += 1;
        let d = st.depth[idx].1;
        if d > st.max_depth {
            st.max_depth = d;
        }
        if d > 1 {
            let outer = st.depth[idx].2;
            drop(st);
            crate::oracle::violation(
                "C17.nested_acquisition",
                &format!(
                    "task {t} entered {} while already inside {} of the same instance state (depth {d}); \
                     on the daemon's RwLock this self-deadlocks (write involved) or deadlocks as soon as a writer is queued (read in read)",
                    name(kind),
                    outer.map(name).unwrap_or("?"),
                ),
            );
        }
        st.depth[idx].2 = Some(kind);
    }

    fn acquired(&self, kind: Kind) {
        let t = me();
        let mut st = self.st.lock().unwrap_or_else(|e| e.into_inner());
        st.order.push((t as u8, kind));
        if kind == Kind::Write && st.coordinator == Some(t) {
            st.bmca_epoch += 1;
        }
        let e = st.bmca_epoch;
        if let Some(d) = st.depth.iter_mut().find(|d| d.0 == t) {
            d.3 = e;
        }
        match kind {
            Kind::Read => st.reads += 1,
            Kind::Write => {
                st.writes += 1;
                st.write_seq += 1;
            }
        }
    }

    /// The calling thread runs the BMCA from now on.
    pub fn i_am_coordinator(&self) {
        self.st.lock().unwrap_or_else(|e| e.into_inner()).coordinator = Some(me());
    }

    /// Number of BMCA writes that had happened when the calling thread last got the lock
    /// (taken while it held the lock, so it is exact).
    pub fn epoch_of_my_last_acquisition(&self) -> u64 {
        let t = me();
        let st = self.st.lock().unwrap_or_else(|e| e.into_inner());
        st.depth.iter().find(|d| d.0 == t).map(|d| d.3).unwrap_or(0)
    }

    fn exit(&self) {
        let t = me();
        let mut st = self.st.lock().unwrap_or_else(|e| e.into_inner());
        if let Some(d) = st.depth.iter_mut().find(|d| d.0 == t) {
            d.1 -= 1;
            if d.1 == 0 {
                d.2 = None;
            }
        }
    }
}

fn name(k: Kind) -> &'static str {
    match k {
        Kind::Read => "with_ref",
        Kind::Write => "with_mut",
    }
}

struct ExitGuard<'a>(&'a Monitor);
impl Drop for ExitGuard<'_> {
    fn drop(&mut self) {
        // also while unwinding; `exit` cannot panic
        self.0.exit();
    }
}

#[derive(Debug)]
pub struct DetectLock {
    inner: shuttle::sync::RwLock<PtpInstanceState>,
    mon: Arc<Monitor>,
}

impl PtpInstanceStateMutex for DetectLock {
    fn new(state: PtpInstanceState) -> Self {
        let mon = CURRENT
            .with(|c| c.borrow().clone())
            .expect("harness: install_monitor must run before PtpInstance::new");
        DetectLock { inner: shuttle::sync::RwLock::new(state), mon }
    }

    fn with_ref<R, F: FnOnce(&PtpInstanceState) -> R>(&self, f: F) -> R {
        self.mon.enter(Kind::Read);
        let _exit = ExitGuard(&self.mon);
        // scheduling point: shuttle may run any other thread before we get the lock
        let g = self.inner.read().unwrap();
        self.mon.acquired(Kind::Read);
        f(&g)
    }

    fn with_mut<R, F: FnOnce(&mut PtpInstanceState) -> R>(&self, f: F) -> R {
        self.mon.enter(Kind::Write);
        let _exit = ExitGuard(&self.mon);
        let mut g = self.inner.write().unwrap();
        self.mon.acquired(Kind::Write);
        f(&mut g)
    }
}
