//! The workload: a miniature of statime-linux's main.rs.
//!
//!  * one `PtpInstance<BasicFilter, DetectLock>` shared by reference,
//!  * 2-3 port threads, each owning its `Port` while Running and executing one script
//!    segment of host calls between two BMCA rounds,
//!  * a coordinator that collects all ports over mpsc channels, runs
//!    `instance.bmca`, reads the data sets like `run()` does and hands the ports back,
//!  * an observer thread calling the five data set getters,
//!  * a setter thread calling `set_clock_quality` / `set_slave_only`.
//!
//! The whole script is a pure function of ONE u64 drawn from `shuttle::rand` at the
//! start of the execution, so it is part of the persisted schedule and replays.

use std::sync::Arc;
use std::time::Duration as StdDuration;

use rand::RngCore;
use shuttle::sync::mpsc;
use shuttle::thread;
use statime::config::{
    AcceptAnyMaster, ClockIdentity, DelayMechanism, InstanceConfig, PortConfig, PtpMinorVersion, TimePropertiesDS,
};
use statime::filters::BasicFilter;
use statime::port::{InBmca, NoForwardedTLVs, Port, PortAction, PortActionIterator, Running, TimestampContext};
use statime::time::{Duration, Interval, Time};
use statime::{Clock, PtpInstance};

use crate::gen::{self, Expl};
use crate::lock::{DetectLock, Kind, Monitor};
use crate::oracle::{violation, ExecCtx};
use crate::wire;

// ---------------------------------------------------------------- script

#[derive(Clone, Copy, Debug, PartialEq, Eq)]
pub enum Op {
    /// Announce of generation k from master m (delivered with handle_general_receive)
    Ann { k: u16 },
    AnnounceTimer,
    SyncTimer,
    DelayTimer,
    ReceiptTimer,
    FilterTimer,
}

#[derive(Clone, Copy, Debug, PartialEq, Eq)]
pub enum Get {
    Parent,
    Current,
    TimeProperties,
    PathTrace,
    Default,
}

#[derive(Clone, Copy, Debug, PartialEq, Eq)]
pub enum Set {
    Quality(u16),
    SlaveOnly(bool),
}

#[derive(Clone, Debug)]
pub struct Script {
    pub seed: u64,
    pub n_ports: usize,
    pub path_trace: bool,
    pub p2p: Vec<bool>,
    /// number of BMCA rounds; every port runs rounds + 1 segments
    pub rounds: usize,
    /// [port][segment] -> ops
    pub ports: Vec<Vec<Vec<Op>>>,
    /// [burst] -> getters; burst r is released when segment r starts
    pub observer: Vec<Vec<Get>>,
    pub setter: Vec<Set>,
    /// highest local quality number that can ever be installed
    pub max_local_j: u16,
}

pub struct SplitMix(pub u64);
impl SplitMix {
    pub fn next(&mut self) -> u64 {
        self.0 = self.0.wrapping_add(0x9e37_79b9_7f4a_7c15);
        let mut z = self.0;
        z = (z ^ (z >> 30)).wrapping_mul(0xbf58_476d_1ce4_e5b9);
        z = (z ^ (z >> 27)).wrapping_mul(0x94d0_49bb_1331_11eb);
        z ^ (z >> 31)
    }
    pub fn below(&mut self, n: u64) -> u64 {
        self.next() % n
    }
    pub fn chance(&mut self, percent: u64) -> bool {
        self.below(100) < percent
    }
}

impl Script {
    pub fn generate(seed: u64) -> Script {
        let mut r = SplitMix(seed);
        let n_ports = 2 + r.below(2) as usize;
        let path_trace = r.chance(40);
        let p2p = (0..n_ports).map(|_| r.chance(25)).collect();
        let rounds = 2 + r.below(2) as usize;
        // masters: one per port, sometimes a second one on a random port
        let n_masters = (n_ports + r.below(2) as usize).min(gen::MAX_MASTERS);
        let attach: Vec<usize> = (0..n_masters).map(|m| if m < n_ports { m } else { r.below(n_ports as u64) as usize }).collect();
        let mut next_j = vec![1u16; n_masters];
        let mut ports = Vec::new();
        for p in 0..n_ports {
            let mine: Vec<usize> = (0..n_masters).filter(|m| attach[*m] == p).collect();
            let mut segs = Vec::new();
            for s in 0..=rounds {
                let mut ops = Vec::new();
                // most scripts make port 0 a Slave quickly: two Announces of its master
                // before the first BMCA
                let head = if s == 0 && ((p == 0 && r.chance(80)) || r.chance(30)) { 2 } else { 0 };
                let len = head + 1 + r.below(4) as usize;
                for i in 0..len {
                    let x = r.below(100);
                    let op = if i < head || x < 55 {
                        let m = mine[r.below(mine.len() as u64) as usize];
                        let m = if i < head { mine[0] } else { m };
                        let k = gen::k_of(m, next_j[m]);
                        next_j[m] += 1;
                        Op::Ann { k }
                    } else if x < 72 {
                        Op::AnnounceTimer
                    } else if x < 82 {
                        Op::SyncTimer
                    } else if x < 91 {
                        Op::DelayTimer
                    } else if x < 96 {
                        Op::ReceiptTimer
                    } else {
                        Op::FilterTimer
                    };
                    ops.push(op);
                }
                segs.push(ops);
            }
            ports.push(segs);
        }
        let observer = (0..=rounds)
            .map(|_| {
                (0..2 + r.below(4))
                    .map(|_| match r.below(10) {
                        0..=3 => Get::Parent,
                        4..=6 => Get::TimeProperties,
                        7 => Get::Current,
                        8 => Get::PathTrace,
                        _ => Get::Default,
                    })
                    .collect()
            })
            .collect();
        let mut j = 0u16;
        let setter = (0..2 + r.below(3))
            .map(|_| {
                if r.chance(75) {
                    j += 1;
                    Set::Quality(j)
                } else {
                    Set::SlaveOnly(r.chance(50))
                }
            })
            .collect();
        Script { seed, n_ports, path_trace, p2p, rounds, ports, observer, setter, max_local_j: j }
    }

    pub fn describe(&self) -> serde_json::Value {
        let op = |o: &Op| match o {
            Op::Ann { k } => format!("announce(master={},k={})", gen::master_of(*k).unwrap(), k),
            Op::AnnounceTimer => "announce_timer".into(),
            Op::SyncTimer => "sync_timer".into(),
            Op::DelayTimer => "delay_request_timer".into(),
            Op::ReceiptTimer => "announce_receipt_timer".into(),
            Op::FilterTimer => "filter_update_timer".into(),
        };
        serde_json::json!({
            "workload_seed": self.seed,
            "ports": self.n_ports,
            "path_trace": self.path_trace,
            "p2p": self.p2p,
            "bmca_rounds": self.rounds,
            "port_scripts": self.ports.iter().map(|segs| segs.iter().map(|s| s.iter().map(op).collect::<Vec<_>>()).collect::<Vec<_>>()).collect::<Vec<_>>(),
            "observer_bursts": self.observer.iter().map(|b| b.iter().map(|g| format!("{g:?}")).collect::<Vec<_>>()).collect::<Vec<_>>(),
            "setter": self.setter.iter().map(|s| format!("{s:?}")).collect::<Vec<_>>(),
        })
    }

}

// ---------------------------------------------------------------- host side stubs

/// Deterministic clock: time advances by 1 ms per query. `set_properties` is called by
/// statime INSIDE the BMCA's with_mut with the time properties it just installed, so it
/// is one more place where a value must belong to a single generation.
pub struct ScriptClock {
    t: std::cell::Cell<u64>,
    ctx: Arc<ExecCtx>,
}

impl Clock for ScriptClock {
    type Error = ();
    fn now(&self) -> Time {
        self.t.set(self.t.get() + 1);
        Time::from_millis(1_000_000 + self.t.get())
    }
    fn step_clock(&mut self, _offset: Duration) -> Result<Time, ()> {
        Ok(self.now())
    }
    fn set_frequency(&mut self, _ppm: f64) -> Result<Time, ()> {
        Ok(self.now())
    }
    fn set_properties(&mut self, t: &TimePropertiesDS) -> Result<(), ()> {
        match gen::explain_time_properties(t) {
            Ok(_) => self.ctx.count_snapshot("clock.set_properties"),
            Err(e) => violation("C17.torn_snapshot", &format!("time properties handed to Clock::set_properties: {e}")),
        }
        Ok(())
    }
}

/// Deterministic RngCore for the port (announce receipt timeout jitter etc.)
pub struct PortRng(SplitMix);
impl RngCore for PortRng {
    fn next_u32(&mut self) -> u32 {
        (self.0.next() >> 32) as u32
    }
    fn next_u64(&mut self) -> u64 {
        self.0.next()
    }
    fn fill_bytes(&mut self, dest: &mut [u8]) {
        for b in dest {
            *b = self.0.next() as u8;
        }
    }
    fn try_fill_bytes(&mut self, dest: &mut [u8]) -> Result<(), rand::Error> {
        self.fill_bytes(dest);
        Ok(())
    }
}

type Inst = PtpInstance<BasicFilter, DetectLock>;
type RunPort<'a> = Port<'a, Running, AcceptAnyMaster, PortRng, ScriptClock, BasicFilter, DetectLock>;
type BmcaPort<'a> = Port<'a, InBmca, AcceptAnyMaster, PortRng, ScriptClock, BasicFilter, DetectLock>;

/// scheduling point that PCT does not treat as a yield
fn pause() {
    thread::sleep(StdDuration::ZERO);
}

// ---------------------------------------------------------------- checks on what threads see

fn check_parent(ctx: &ExecCtx, who: &str, inst: &Inst, script: &Script, last: &mut Vec<(u64, usize, u16)>) {
    let p = inst.parent_ds();
    match gen::explain_parent(&p, script.max_local_j) {
        Ok(e) => {
            ctx.count_snapshot(match e {
                Expl::Gen(_) => "parent_ds/generation",
                _ => "parent_ds/local",
            });
            forward_only(ctx, who, "parent_ds", e, last);
        }
        Err(e) => violation("C17.torn_snapshot", &format!("parent_ds() seen by {who}: {e}; snapshot {p:?}")),
    }
}

fn check_time_properties(ctx: &ExecCtx, who: &str, inst: &Inst, last: &mut Vec<(u64, usize, u16)>) {
    let t = inst.time_properties_ds();
    match gen::explain_time_properties(&t) {
        Ok(e) => {
            ctx.count_snapshot(match e {
                Expl::Gen(_) => "time_properties_ds/generation",
                Expl::Init => "time_properties_ds/init",
                _ => "time_properties_ds/local",
            });
            forward_only(ctx, who, "time_properties_ds", e, last);
        }
        Err(e) => violation("C17.torn_snapshot", &format!("time_properties_ds() seen by {who}: {e}")),
    }
}

/// Oracle 4: as long as no BMCA ran in between, one observer never sees an older
/// generation of the same master after a newer one (between two BMCA runs the only
/// writer of these data sets is the Slave port, which receives its parent's Announces
/// in order). Across a BMCA run the rule does NOT hold and is not demanded: statime
/// drops the newest Announce of a master that lost the comparison from its foreign
/// master list and may later select an older one of the same master (see README,
/// corrections log).
/// `last` = (BMCA epoch, master, k) of the previous snapshot.
fn forward_only(ctx: &ExecCtx, who: &str, ds: &str, e: Expl, last: &mut Vec<(u64, usize, u16)>) {
    let epoch = ctx.monitor().epoch_of_my_last_acquisition();
    last.retain(|x| x.0 == epoch);
    if let Expl::Gen(k) = e {
        let m = gen::master_of(k).unwrap();
        match last.iter_mut().find(|x| x.1 == m) {
            Some(x) => {
                if k < x.2 {
                    violation(
                        "C17.generation_regressed",
                        &format!("{ds} seen by {who} went back from k={} to k={k} of the same master with no BMCA run in between", x.2),
                    );
                }
                x.2 = k;
            }
            None => last.push((epoch, m, k)),
        }
    }
}

fn check_current(ctx: &ExecCtx, who: &str, inst: &Inst) {
    let c = inst.current_ds(None);
    // a single k-derived field: cannot be torn on its own, but must belong to some update
    if c.steps_removed > 200 {
        violation("C17.torn_snapshot", &format!("current_ds() seen by {who}: steps_removed={} belongs to no update", c.steps_removed));
    }
    ctx.count_snapshot("current_ds");
}

fn check_path_trace(ctx: &ExecCtx, who: &str, inst: &Inst) {
    let p = inst.path_trace_ds();
    match gen::explain_path_trace(&p.list) {
        Ok(Some(_)) => ctx.count_snapshot("path_trace_ds/generation"),
        Ok(None) => ctx.count_snapshot("path_trace_ds/empty"),
        Err(e) => violation("C17.torn_snapshot", &format!("path_trace_ds() seen by {who}: {e}")),
    }
}

fn check_default(ctx: &ExecCtx, who: &str, inst: &Inst, script: &Script) {
    let d = inst.default_ds();
    match gen::explain_default(&d, script.max_local_j, script.n_ports as u16) {
        Ok(_) => ctx.count_snapshot("default_ds"),
        Err(e) => violation("C17.torn_snapshot", &format!("default_ds() seen by {who}: {e}")),
    }
}

/// Consume the actions of one host call like `handle_actions` in main.rs: frames are
/// "sent" (decoded with the reference codec and checked), timers are ignored (the script
/// decides when timers fire), send timestamps are fed back.
fn consume<'b>(ctx: &ExecCtx, script: &Script, port_no: usize, actions: PortActionIterator<'b>) -> Vec<TimestampContext> {
    let mut pending = Vec::new();
    for a in actions {
        match a {
            PortAction::SendGeneral { data, .. } => check_frame(ctx, script, port_no, data),
            PortAction::SendEvent { context, data, .. } => {
                check_frame(ctx, script, port_no, data);
                pending.push(context);
            }
            _ => {}
        }
    }
    pending
}

fn check_frame(ctx: &ExecCtx, script: &Script, port_no: usize, data: &[u8]) {
    let fr = match wire::Frame::decode(data) {
        Ok(f) => f,
        Err(e) => violation("C17.harness", &format!("port {port_no} emitted an undecodable frame: {e:?}")),
    };
    ctx.count_frame();
    if fr.hdr.msg_type == wire::MsgType::Announce {
        match gen::explain_emitted_announce(&fr, script.max_local_j) {
            Ok(Expl::Gen(_)) => ctx.count_snapshot("emitted_announce/generation"),
            Ok(_) => ctx.count_snapshot("emitted_announce/local"),
            Err(e) => violation(
                "C17.torn_snapshot",
                &format!("Announce emitted by port {port_no} (parent+current+time properties read in one with_ref): {e}"),
            ),
        }
    }
}

fn run_segment(ctx: &ExecCtx, script: &Script, p: usize, seg: usize, port: &mut RunPort<'_>) {
    let mut ts = 0u64;
    for op in &script.ports[p][seg] {
        pause();
        let pending = match *op {
            Op::Ann { k } => {
                let frame = gen::announce_frame(k, script.path_trace);
                let acts = port.handle_general_receive(&frame);
                consume(ctx, script, p + 1, acts)
            }
            Op::AnnounceTimer => {
                let acts = port.handle_announce_timer(&mut NoForwardedTLVs);
                consume(ctx, script, p + 1, acts)
            }
            Op::SyncTimer => {
                let acts = port.handle_sync_timer();
                consume(ctx, script, p + 1, acts)
            }
            Op::DelayTimer => {
                let acts = port.handle_delay_request_timer();
                consume(ctx, script, p + 1, acts)
            }
            Op::ReceiptTimer => {
                let acts = port.handle_announce_receipt_timer();
                consume(ctx, script, p + 1, acts)
            }
            Op::FilterTimer => {
                let acts = port.handle_filter_update_timer();
                consume(ctx, script, p + 1, acts)
            }
        };
        ctx.count_op();
        for c in pending {
            pause();
            ts += 1;
            let acts = port.handle_send_timestamp(c, Time::from_millis(2_000_000 + ts));
            let more = consume(ctx, script, p + 1, acts);
            debug_assert!(more.is_empty());
        }
    }
}

// ---------------------------------------------------------------- one execution

/// Half of the executions use one of POOL fixed scripts, so that the same script is
/// explored under many different schedules; the other half use a fresh script.
pub const POOL: u64 = 32;
pub fn is_pool_draw(r: u64) -> bool {
    r & 1 == 0
}
pub fn workload_seed(r: u64) -> u64 {
    if is_pool_draw(r) {
        (r >> 1) % POOL
    } else {
        r
    }
}

/// Runs inside a shuttle execution (root task).
pub fn execute(ctx: Arc<ExecCtx>) {
    let seed = workload_seed(shuttle::rand::thread_rng().next_u64());
    let script = Script::generate(seed);
    let mon = Arc::new(Monitor::default());
    crate::lock::install_monitor(mon.clone());
    ctx.begin(&script, mon.clone());

    let instance: Inst = PtpInstance::new(
        InstanceConfig {
            clock_identity: ClockIdentity(gen::OWN_CLOCK),
            priority_1: gen::OWN_P1,
            priority_2: gen::OWN_P2,
            domain_number: 0,
            slave_only: false,
            sdo_id: Default::default(),
            path_trace: script.path_trace,
            clock_quality: gen::local_quality(0),
        },
        gen::init_time_properties(),
    );
    let inst = &instance;
    let script_ref = &script;
    let ctx_ref = &ctx;

    thread::scope(|s| {
        // like main.rs: create all ports first (add_port takes the write lock) ...
        let mut to_port = Vec::new(); // coordinator -> port thread
        let mut from_port = Vec::new(); // port thread -> coordinator
        let mut port_ends = Vec::new();
        let mut fresh = Vec::new();
        for p in 0..script.n_ports {
            let interval = Interval::from_log_2(0);
            let cfg = PortConfig {
                acceptable_master_list: AcceptAnyMaster,
                delay_mechanism: if script.p2p[p] { DelayMechanism::P2P { interval } } else { DelayMechanism::E2E { interval } },
                announce_interval: interval,
                announce_receipt_timeout: 3,
                sync_interval: interval,
                master_only: false,
                delay_asymmetry: Duration::ZERO,
                minor_ptp_version: PtpMinorVersion::One,
            };
            let clock = ScriptClock { t: Default::default(), ctx: ctx.clone() };
            let rng = PortRng(SplitMix(seed ^ (0x1000 + p as u64)));
            fresh.push(inst.add_port(cfg, 0.25, clock, rng));
            let (tx_down, rx_down) = mpsc::channel::<BmcaPort<'_>>();
            let (tx_up, rx_up) = mpsc::channel::<BmcaPort<'_>>();
            to_port.push(tx_down);
            from_port.push(rx_up);
            port_ends.push((rx_down, tx_up));
        }

        // ... then start the port threads
        for (p, (rx, tx)) in port_ends.into_iter().enumerate() {
            s.spawn(move || {
                let mut seg = 0usize;
                // ends when the coordinator drops its sender
                while let Ok(in_bmca) = rx.recv() {
                    let (mut port, actions) = in_bmca.end_bmca();
                    let pending = consume(ctx_ref, script_ref, p + 1, actions);
                    debug_assert!(pending.is_empty());
                    if seg < script_ref.ports[p].len() {
                        run_segment(ctx_ref, script_ref, p, seg, &mut port);
                    }
                    seg += 1;
                    pause();
                    if tx.send(port.start_bmca()).is_err() {
                        break;
                    }
                }
            });
        }

        // observer (metrics/observation side)
        let (tick_tx, tick_rx) = mpsc::channel::<()>();
        s.spawn(move || {
            let mut last_parent = Vec::new();
            let mut last_tp = Vec::new();
            for burst in &script_ref.observer {
                // released when the ports start their next segment, so that the reads
                // spread over the whole run instead of all happening before the first BMCA
                if tick_rx.recv().is_err() {
                    break;
                }
                for g in burst {
                    pause();
                    match g {
                        Get::Parent => check_parent(ctx_ref, "observer", inst, script_ref, &mut last_parent),
                        Get::TimeProperties => check_time_properties(ctx_ref, "observer", inst, &mut last_tp),
                        Get::Current => check_current(ctx_ref, "observer", inst),
                        Get::PathTrace => check_path_trace(ctx_ref, "observer", inst),
                        Get::Default => check_default(ctx_ref, "observer", inst, script_ref),
                    }
                }
            }
        });

        // setter (e.g. a GNSS supervisor changing the advertised quality)
        s.spawn(move || {
            for op in &script_ref.setter {
                pause();
                match *op {
                    Set::Quality(j) => inst.set_clock_quality(gen::local_quality(j)),
                    Set::SlaveOnly(b) => inst.set_slave_only(b),
                }
                ctx_ref.count_op();
            }
        });

        // coordinator: run() of main.rs
        s.spawn(move || {
            ctx_ref.monitor().i_am_coordinator();
            for (tx, port) in to_port.iter().zip(fresh) {
                tx.send(port).expect("port thread alive");
            }
            let _ = tick_tx.send(());
            let mut last_parent = Vec::new();
            let mut last_tp = Vec::new();
            for _round in 0..script_ref.rounds {
                pause();
                let mut ports: Vec<BmcaPort<'_>> = Vec::with_capacity(from_port.len());
                for rx in &from_port {
                    ports.push(rx.recv().expect("port thread alive"));
                }
                {
                    let mut refs: Vec<&mut BmcaPort<'_>> = ports.iter_mut().collect();
                    inst.bmca(&mut refs);
                    // "Update instance state for observability"
                    check_default(ctx_ref, "coordinator", inst, script_ref);
                    let _ = inst.current_ds(refs.iter().filter_map(|p| p.port_current_ds_contribution()).next());
                    check_parent(ctx_ref, "coordinator", inst, script_ref, &mut last_parent);
                    check_time_properties(ctx_ref, "coordinator", inst, &mut last_tp);
                    check_path_trace(ctx_ref, "coordinator", inst);
                    let steering = refs.iter().filter(|p| p.is_steering()).count();
                    ctx_ref.note_states(steering, refs.iter().filter(|p| p.is_master()).count());
                }
                ctx_ref.count_bmca();
                for (port, tx) in ports.into_iter().zip(to_port.iter()) {
                    tx.send(port).expect("port thread alive");
                }
                let _ = tick_tx.send(());
            }
            // last segment runs, then the ports come back one final time
            for rx in &from_port {
                let _ = rx.recv().expect("port thread alive");
            }
            drop(to_port);
        });
    });

    // all threads joined
    let st = mon.st.lock().unwrap();
    if st.max_depth > 1 {
        violation("C17.nested_acquisition", &format!("max acquisition depth {} at end of run", st.max_depth));
    }
    ctx.end(&script, &st);
}

/// Short text of an observed lock order, e.g. "0W 0W 3R 1R 1W ..."
pub fn order_text(order: &[(u8, Kind)]) -> String {
    order
        .iter()
        .map(|(t, k)| format!("{t}{}", if *k == Kind::Read { 'R' } else { 'W' }))
        .collect::<Vec<_>>()
        .join(" ")
}
