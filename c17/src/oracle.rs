//! Violation signalling and per-worker bookkeeping.
//!
//! A violation is a panic inside the shuttle execution whose message starts with the
//! oracle id (`C17.torn_snapshot: ...`). Shuttle then persists the schedule and
//! re-raises the panic on the runner thread, where the worker catches it.

use std::collections::{BTreeMap, HashSet};
use std::sync::{Arc, Mutex};

use crate::lock::{MonState, Monitor};
use crate::workload::Script;

pub fn violation(oracle: &str, msg: &str) -> ! {
    panic!("{oracle}: {msg}")
}

/// Message (and for foreign panics the location) of the FIRST panic of this process.
/// After a task has panicked shuttle lets the other tasks drain, which can raise
/// secondary panics (poisoned lock, closed semaphore); the payload that finally reaches
/// the runner thread may be one of those, so the verdict is taken from the first one.
static FIRST_PANIC: Mutex<Option<String>> = Mutex::new(None);

/// Install before the first shuttle Runner is created: shuttle chains to the hook that
/// is installed at that time after persisting the schedule. Keeps stderr quiet.
pub fn install_first_panic_hook() {
    std::panic::set_hook(Box::new(|info| {
        let p = info.payload();
        let text = if let Some(s) = p.downcast_ref::<String>() {
            s.clone()
        } else if let Some(s) = p.downcast_ref::<&str>() {
            s.to_string()
        } else {
            "<non-string panic payload>".into()
        };
        let mut slot = FIRST_PANIC.lock().unwrap_or_else(|e| e.into_inner());
        if slot.is_none() {
            let at_oracle = text.starts_with("C17.");
            *slot = Some(match info.location() {
                Some(l) if !at_oracle => format!("{text} [at {}:{}]", l.file(), l.line()),
                _ => text,
            });
        }
    }));
}

pub fn take_first_panic() -> Option<String> {
    FIRST_PANIC.lock().unwrap_or_else(|e| e.into_inner()).take()
}

pub fn fnv1a(h: &mut u64, bytes: &[u8]) {
    for b in bytes {
        *h ^= *b as u64;
        *h = h.wrapping_mul(0x0000_0100_0000_01b3);
    }
}
pub const FNV_INIT: u64 = 0xcbf2_9ce4_8422_2325;

#[derive(Default)]
pub struct Stats {
    pub executions_started: u64,
    pub executions_completed: u64,
    pub snapshots: BTreeMap<&'static str, u64>,
    pub frames_decoded: u64,
    pub host_calls: u64,
    pub bmca_runs: u64,
    pub lock_reads: u64,
    pub lock_writes: u64,
    pub max_depth: u32,
    pub lock_orders: HashSet<u64>,
    pub scripts: HashSet<u64>,
    /// rounds in which some port was Slave / Master after the BMCA (reachability probes)
    pub rounds_with_slave: u64,
    pub rounds_with_master: u64,
    /// with_mut by a port thread after start-up = a Slave port adopting its parent's Announce
    pub slave_announce_updates: u64,
    pub executions_with_slave_update: u64,
    pub samples: Vec<serde_json::Value>,
    pub current: Option<(Script, Arc<Monitor>)>,
}

/// Shared between the worker and the executions it runs (one at a time).
#[derive(Default)]
pub struct ExecCtx {
    pub st: Mutex<Stats>,
    pub want_samples: usize,
}

impl ExecCtx {
    pub fn begin(&self, s: &Script, mon: Arc<Monitor>) {
        let mut st = self.st.lock().unwrap();
        st.executions_started += 1;
        st.scripts.insert(s.seed);
        st.current = Some((s.clone(), mon));
    }
    pub fn monitor(&self) -> Arc<Monitor> {
        self.st.lock().unwrap().current.as_ref().expect("inside an execution").1.clone()
    }
    pub fn count_snapshot(&self, what: &'static str) {
        *self.st.lock().unwrap().snapshots.entry(what).or_insert(0) += 1;
    }
    pub fn count_frame(&self) {
        self.st.lock().unwrap().frames_decoded += 1;
    }
    pub fn count_op(&self) {
        self.st.lock().unwrap().host_calls += 1;
    }
    pub fn count_bmca(&self) {
        self.st.lock().unwrap().bmca_runs += 1;
    }
    pub fn note_states(&self, slaves: usize, masters: usize) {
        let mut st = self.st.lock().unwrap();
        if slaves > 1 {
            drop(st);
            violation("C17.harness", &format!("{slaves} ports steering after one BMCA"));
        }
        st.rounds_with_slave += (slaves > 0) as u64;
        st.rounds_with_master += (masters > 0) as u64;
    }
    pub fn end(&self, s: &Script, mon: &MonState) {
        let mut st = self.st.lock().unwrap();
        st.executions_completed += 1;
        st.lock_reads += mon.reads;
        st.lock_writes += mon.writes;
        st.max_depth = st.max_depth.max(mon.max_depth);
        let upd = mon.order.iter().filter(|(t, k)| (1..=s.n_ports as u8).contains(t) && *k == crate::lock::Kind::Write).count() as u64;
        st.slave_announce_updates += upd;
        st.executions_with_slave_update += (upd > 0) as u64;
        let mut h = FNV_INIT;
        fnv1a(&mut h, &s.seed.to_le_bytes());
        for (t, k) in &mon.order {
            fnv1a(&mut h, &[*t, *k as u8]);
        }
        st.lock_orders.insert(h);
        if st.samples.len() < self.want_samples {
            let mut d = s.describe();
            d["threads"] = thread_names(s);
            d["observed_lock_order"] = crate::workload::order_text(&mon.order).into();
            d["lock_acquisitions"] = mon.order.len().into();
            st.samples.push(d);
        }
        st.current = None;
    }
}

/// task ids are assigned in spawn order: 0 = root (creates instance and ports)
pub fn thread_names(s: &Script) -> serde_json::Value {
    let mut m = serde_json::Map::new();
    m.insert("0".into(), "root(add_port)".into());
    for p in 0..s.n_ports {
        m.insert(format!("{}", p + 1), format!("port{}", p + 1).into());
    }
    m.insert(format!("{}", s.n_ports + 1), "observer".into());
    m.insert(format!("{}", s.n_ports + 2), "setter".into());
    m.insert(format!("{}", s.n_ports + 3), "coordinator(bmca)".into());
    m.into()
}
