//! A scheduler wrapper that measures what was explored: number of executions, steps
//! (scheduling decisions), real choice points (more than one runnable task) and the
//! fingerprint of every schedule = hash of the workload script seed and of the sequence
//! of task ids the scheduler chose.

use std::collections::HashSet;
use std::sync::{Arc, Mutex};

use shuttle::scheduler::{Schedule, Scheduler, Task, TaskId};

use crate::oracle::{fnv1a, FNV_INIT};

#[derive(Default, Debug)]
pub struct SchedStats {
    pub executions: u64,
    pub steps: u64,
    pub choice_points: u64,
    pub max_runnable: usize,
    pub context_switches: u64,
    pub fingerprints: HashSet<u64>,
    /// executions that drew one of the fixed pool scripts, and their fingerprints
    pub pool_executions: u64,
    pub pool_fingerprints: HashSet<u64>,
    pub max_steps_in_one: u64,
}

pub struct Recording<S> {
    inner: S,
    pub stats: Arc<Mutex<SchedStats>>,
    cur: u64,
    cur_steps: u64,
    open: bool,
    randoms: u64,
    pool: bool,
}

impl<S> Recording<S> {
    pub fn new(inner: S, stats: Arc<Mutex<SchedStats>>) -> Self {
        Recording { inner, stats, cur: FNV_INIT, cur_steps: 0, open: false, randoms: 0, pool: false }
    }
    fn flush(&mut self) {
        if self.open {
            let mut st = self.stats.lock().unwrap();
            st.fingerprints.insert(self.cur);
            if self.pool {
                st.pool_executions += 1;
                st.pool_fingerprints.insert(self.cur);
            }
            st.max_steps_in_one = st.max_steps_in_one.max(self.cur_steps);
            self.open = false;
        }
    }
}

impl<S> Drop for Recording<S> {
    fn drop(&mut self) {
        self.flush();
    }
}

impl<S: Scheduler> Scheduler for Recording<S> {
    fn new_execution(&mut self) -> Option<Schedule> {
        self.flush();
        let r = self.inner.new_execution();
        if r.is_some() {
            self.open = true;
            self.cur = FNV_INIT;
            self.cur_steps = 0;
            self.randoms = 0;
            self.pool = false;
            self.stats.lock().unwrap().executions += 1;
        }
        r
    }

    fn next_task(&mut self, runnable: &[&Task], current: Option<TaskId>, is_yielding: bool) -> Option<TaskId> {
        let t = self.inner.next_task(runnable, current, is_yielding);
        if let Some(t) = t {
            fnv1a(&mut self.cur, &[usize::from(t) as u8]);
            self.cur_steps += 1;
            let mut st = self.stats.lock().unwrap();
            st.steps += 1;
            if runnable.len() > 1 {
                st.choice_points += 1;
            }
            st.max_runnable = st.max_runnable.max(runnable.len());
            if current.is_some() && current != Some(t) {
                st.context_switches += 1;
            }
        }
        t
    }

    fn next_u64(&mut self) -> u64 {
        let v = self.inner.next_u64();
        if self.randoms == 0 {
            // the first random value of an execution is the workload draw
            self.pool = crate::workload::is_pool_draw(v);
        }
        // hash what the random value is used for: the first one selects the script
        let used = if self.randoms == 0 { crate::workload::workload_seed(v) } else { v };
        self.randoms += 1;
        fnv1a(&mut self.cur, &[0xff]);
        fnv1a(&mut self.cur, &used.to_le_bytes());
        v
    }
}
