//! Generations.
//!
//! Every Announce a scripted foreign master sends carries a generation number
//! `k = 256 * (m + 1) + j` (m = master index, j = 1.. its announce counter).
//! Every field that statime copies into parentDS / currentDS / timePropertiesDS
//! is a function of `k`, so a snapshot of a data set is either explained by ONE
//! generation (all k-derived fields agree), by the local clock (after M1/M2 or at
//! start-up), or it is a mixture of two updates: `C17.torn_snapshot`.

use statime::config::{
    ClockAccuracy, ClockIdentity, ClockQuality, LeapIndicator, TimePropertiesDS, TimeSource,
};
use statime::observability::{default::DefaultDS, parent::ParentDS};

use crate::wire;

pub const OWN_CLOCK: [u8; 8] = [0x02, 0x17, 0x17, 0xff, 0xfe, 0x17, 0x17, 0x01];
/// own priorities: worse than every scripted master (their priority1 is <= 100)
pub const OWN_P1: u8 = 200;
pub const OWN_P2: u8 = 201;
pub const MAX_MASTERS: usize = 4;

/// clock identity of scripted master `m`; its port number is `m + 1`
pub fn master_clock(m: usize) -> [u8; 8] {
    let b = 0xa0 + m as u8;
    [b, 0x4d, 0x41, 0x53, 0x54, 0x45, 0x52, b]
}

pub fn master_pid(m: usize) -> wire::Pid {
    wire::Pid::new(master_clock(m), m as u16 + 1)
}

pub fn k_of(m: usize, j: u16) -> u16 {
    debug_assert!(m < MAX_MASTERS && (1..=255).contains(&j));
    256 * (m as u16 + 1) + j
}

pub fn master_of(k: u16) -> Option<usize> {
    let m = (k >> 8) as usize;
    if (1..=MAX_MASTERS).contains(&m) && (k & 0xff) != 0 {
        Some(m - 1)
    } else {
        None
    }
}

/// All k-derived values, in wire terms (raw numbers), written from the mapping
/// alone - nothing here looks at statime.
#[derive(Clone, Copy, Debug, PartialEq, Eq)]
pub struct Fields {
    pub k: u16,
    pub gm_identity: [u8; 8],
    pub p1: u8,
    pub p2: u8,
    pub class: u8,
    pub accuracy: u8,
    pub variance: u16,
    pub steps_removed: u16,
    pub utc_offset: i16,
    pub leap61: bool,
    pub leap59: bool,
    pub ptp_timescale: bool,
    pub time_traceable: bool,
    pub freq_traceable: bool,
    pub time_source: u8,
}

pub fn fields(k: u16) -> Fields {
    let kk = k as u32;
    let [hi, lo] = k.to_be_bytes();
    Fields {
        k,
        gm_identity: [0x47, 0x4d, hi, lo, !hi, !lo, 0x17, lo.wrapping_mul(29)],
        p1: (kk * 37 % 101) as u8,
        p2: (kk * 53 % 256) as u8,
        class: (kk * 11 % 251) as u8,
        accuracy: 0x20 + (kk % 18) as u8, // 0x20..=0x31: all distinct named accuracies
        variance: (kk.wrapping_mul(40503) & 0xffff) as u16,
        steps_removed: (kk % 200) as u16,
        utc_offset: k as i16,
        leap61: k & 1 != 0,
        leap59: k & 2 != 0,
        ptp_timescale: k & 4 != 0,
        time_traceable: k & 8 != 0,
        freq_traceable: k & 16 != 0,
        time_source: 0xf0 + (kk % 15) as u8, // profile specific range: round-trips exactly
    }
}

/// path trace list carried by generation k (when the script uses path trace)
pub fn path_trace(k: u16) -> Vec<[u8; 8]> {
    let m = master_of(k).expect("valid k");
    vec![fields(k).gm_identity, master_clock(m)]
}

/// The Announce frame of generation k (sequence id = j so it always increases per master).
pub fn announce_frame(k: u16, with_path_trace: bool) -> Vec<u8> {
    let m = master_of(k).expect("valid k");
    let f = fields(k);
    let body = wire::Body::Announce(wire::AnnounceBody {
        origin: wire::Ts::default(),
        utc_offset: f.utc_offset,
        gm_priority1: f.p1,
        gm_class: f.class,
        gm_accuracy: f.accuracy,
        gm_variance: f.variance,
        gm_priority2: f.p2,
        gm_identity: f.gm_identity,
        steps_removed: f.steps_removed,
        time_source: f.time_source,
    });
    let mut fr = wire::Frame::new(wire::MsgType::Announce, master_pid(m), k & 0xff, body);
    let mut flags = wire::flag::UTC_VALID;
    if f.leap61 {
        flags |= wire::flag::LEAP61;
    }
    if f.leap59 {
        flags |= wire::flag::LEAP59;
    }
    if f.ptp_timescale {
        flags |= wire::flag::PTP_TIMESCALE;
    }
    if f.time_traceable {
        flags |= wire::flag::TIME_TRACEABLE;
    }
    if f.freq_traceable {
        flags |= wire::flag::FREQ_TRACEABLE;
    }
    fr.hdr.flags = flags;
    fr.hdr.log_interval = 0;
    if with_path_trace {
        let mut value = Vec::new();
        for ci in path_trace(k) {
            value.extend_from_slice(&ci);
        }
        fr.tlvs.push(wire::Tlv { typ: wire::TLV_PATH_TRACE, value });
    }
    fr.encode()
}

/// Local clock quality number j (j = 0 is the configured one, j >= 1 are the values
/// the setter thread installs with set_clock_quality).
pub fn local_quality_raw(j: u16) -> (u8, u8, u16) {
    (200 + (j % 40) as u8, 0x20 + (j % 18) as u8, 0x6000 + j)
}

pub fn accuracy_from_raw(raw: u8) -> ClockAccuracy {
    use ClockAccuracy::*;
    match raw {
        0x20 => NS25,
        0x21 => NS100,
        0x22 => NS250,
        0x23 => US1,
        0x24 => US2_5,
        0x25 => US10,
        0x26 => US25,
        0x27 => US100,
        0x28 => US250,
        0x29 => MS1,
        0x2a => MS2_5,
        0x2b => MS10,
        0x2c => MS25,
        0x2d => MS100,
        0x2e => MS250,
        0x2f => S1,
        0x30 => S10,
        0x31 => SGT10,
        _ => panic!("harness: accuracy {raw:#x} outside the scripted range"),
    }
}

pub fn local_quality(j: u16) -> ClockQuality {
    let (c, a, v) = local_quality_raw(j);
    ClockQuality { clock_class: c, clock_accuracy: accuracy_from_raw(a), offset_scaled_log_variance: v }
}

fn quality_raw(q: &ClockQuality) -> (u8, u8, u16) {
    (q.clock_class, q.clock_accuracy.to_primitive(), q.offset_scaled_log_variance)
}

/// timePropertiesDS the instance is created with (like the daemon)
pub fn init_time_properties() -> TimePropertiesDS {
    TimePropertiesDS::new_arbitrary_time(false, false, TimeSource::InternalOscillator)
}

/// How a snapshot is explained.
#[derive(Clone, Copy, Debug, PartialEq, Eq, Hash)]
pub enum Expl {
    /// values the instance was created with
    Init,
    /// local clock is grandmaster (M1/M2), quality number j where known
    Local(u16),
    /// one foreign generation
    Gen(u16),
}

impl std::fmt::Display for Expl {
    fn fmt(&self, f: &mut std::fmt::Formatter<'_>) -> std::fmt::Result {
        match self {
            Expl::Init => write!(f, "init"),
            Expl::Local(j) => write!(f, "local(q{j})"),
            Expl::Gen(k) => write!(f, "k={k}"),
        }
    }
}

/// Which generation does a raw quality triple belong to among the local ones?
fn local_quality_index(q: (u8, u8, u16), max_j: u16) -> Option<u16> {
    (0..=max_j).find(|j| local_quality_raw(*j) == q)
}

/// Explain a parentDS snapshot or describe the mixture.
pub fn explain_parent(p: &ParentDS, max_local_j: u16) -> Result<Expl, String> {
    let gm = p.grandmaster_identity.0;
    let q = quality_raw(&p.grandmaster_clock_quality);
    if gm == OWN_CLOCK {
        let mut bad = Vec::new();
        if p.parent_port_identity.clock_identity.0 != OWN_CLOCK || p.parent_port_identity.port_number != 0 {
            bad.push(format!("parent_port_identity={:?}", p.parent_port_identity));
        }
        if p.grandmaster_priority_1 != OWN_P1 {
            bad.push(format!("priority_1={}", p.grandmaster_priority_1));
        }
        if p.grandmaster_priority_2 != OWN_P2 {
            bad.push(format!("priority_2={}", p.grandmaster_priority_2));
        }
        let j = local_quality_index(q, max_local_j);
        if j.is_none() {
            bad.push(format!("clock_quality={q:?} is no single local quality"));
        }
        if bad.is_empty() {
            return Ok(Expl::Local(j.unwrap()));
        }
        return Err(format!(
            "grandmaster_identity is the local clock but {} (values of another update)",
            bad.join(", ")
        ));
    }
    // foreign: the identity names k
    let k = u16::from_be_bytes([gm[2], gm[3]]);
    let Some(m) = master_of(k) else {
        return Err(format!("grandmaster_identity {gm:02x?} belongs to no generation"));
    };
    let f = fields(k);
    let mut bad = Vec::new();
    if gm != f.gm_identity {
        bad.push(format!("grandmaster_identity={gm:02x?} (k={k} has {:02x?})", f.gm_identity));
    }
    if p.parent_port_identity.clock_identity.0 != master_clock(m) || p.parent_port_identity.port_number != m as u16 + 1 {
        bad.push(format!("parent_port_identity={:?} (k={k} comes from master {m})", p.parent_port_identity));
    }
    if p.grandmaster_priority_1 != f.p1 {
        bad.push(format!("priority_1={} (k={k} has {}{})", p.grandmaster_priority_1, f.p1, who_has(|g| g.p1 == p.grandmaster_priority_1, k)));
    }
    if p.grandmaster_priority_2 != f.p2 {
        bad.push(format!("priority_2={} (k={k} has {}{})", p.grandmaster_priority_2, f.p2, who_has(|g| g.p2 == p.grandmaster_priority_2, k)));
    }
    if q != (f.class, f.accuracy, f.variance) {
        bad.push(format!(
            "clock_quality={q:?} (k={k} has {:?}{})",
            (f.class, f.accuracy, f.variance),
            who_has(|g| (g.class, g.accuracy, g.variance) == q, k)
        ));
    }
    if bad.is_empty() {
        Ok(Expl::Gen(k))
    } else {
        Err(format!("grandmaster_identity says k={k} but {}", bad.join(", ")))
    }
}

/// name a nearby generation that has the odd value (diagnostics only)
fn who_has(pred: impl Fn(&Fields) -> bool, k: u16) -> String {
    let m = (k >> 8) << 8;
    for j in 1..=255u16 {
        let f = fields(m + j);
        if m + j != k && pred(&f) {
            return format!("; k={} has that value", m + j);
        }
    }
    String::new()
}

fn leap_of(f: &Fields) -> LeapIndicator {
    // statime: leap59 wins over leap61
    if f.leap59 {
        LeapIndicator::Leap59
    } else if f.leap61 {
        LeapIndicator::Leap61
    } else {
        LeapIndicator::NoLeap
    }
}

pub fn local_time_properties() -> TimePropertiesDS {
    // what M1/M2 installs
    TimePropertiesDS::new_ptp_time(None, LeapIndicator::NoLeap, false, false, TimeSource::InternalOscillator)
}

pub fn gen_time_properties(k: u16) -> TimePropertiesDS {
    let f = fields(k);
    TimePropertiesDS {
        current_utc_offset: Some(f.utc_offset),
        leap_indicator: leap_of(&f),
        time_traceable: f.time_traceable,
        frequency_traceable: f.freq_traceable,
        ptp_timescale: f.ptp_timescale,
        time_source: TimeSource::ProfileSpecific(f.time_source - 0xf0),
    }
}

/// Explain a timePropertiesDS snapshot or describe the mixture.
pub fn explain_time_properties(t: &TimePropertiesDS) -> Result<Expl, String> {
    if *t == init_time_properties() {
        return Ok(Expl::Init);
    }
    if *t == local_time_properties() {
        return Ok(Expl::Local(0));
    }
    match t.current_utc_offset {
        Some(o) if master_of(o as u16).is_some() => {
            let k = o as u16;
            let want = gen_time_properties(k);
            if *t == want {
                Ok(Expl::Gen(k))
            } else {
                Err(format!("current_utc_offset says k={k} but snapshot is {t:?}, k={k} has {want:?}"))
            }
        }
        _ => Err(format!("{t:?} is neither init, local nor any generation")),
    }
}

pub fn explain_default(d: &DefaultDS, max_local_j: u16, n_ports: u16) -> Result<Expl, String> {
    let q = quality_raw(&d.clock_quality);
    let Some(j) = local_quality_index(q, max_local_j) else {
        return Err(format!("default_ds.clock_quality={q:?} is no single value ever set"));
    };
    if d.clock_identity.0 != OWN_CLOCK || d.priority_1 != OWN_P1 || d.priority_2 != OWN_P2 || d.number_ports != n_ports {
        return Err(format!("default_ds static fields changed: {d:?}"));
    }
    Ok(Expl::Local(j))
}

/// Explain a path trace list: empty, or the list of one generation.
pub fn explain_path_trace(list: &[ClockIdentity]) -> Result<Option<u16>, String> {
    if list.is_empty() {
        return Ok(None);
    }
    let k = u16::from_be_bytes([list[0].0[2], list[0].0[3]]);
    if master_of(k).is_some() {
        let want = path_trace(k);
        if list.len() == want.len() && list.iter().zip(&want).all(|(a, b)| a.0 == *b) {
            return Ok(Some(k));
        }
    }
    Err(format!("path trace list {list:02x?} is not the list of one generation"))
}

/// An Announce emitted by one of our Master ports is built inside ONE with_ref from
/// parentDS, currentDS and timePropertiesDS: a cross-data-set snapshot.
/// (grandmasterPriority2 is taken from defaultDS by statime, so it is not compared.)
pub fn explain_emitted_announce(fr: &wire::Frame, max_local_j: u16) -> Result<Expl, String> {
    let a = fr.announce().expect("announce");
    let h = &fr.hdr;
    // time properties as carried
    let tp_expl = {
        let leap = if h.flag(wire::flag::LEAP59) {
            LeapIndicator::Leap59
        } else if h.flag(wire::flag::LEAP61) {
            LeapIndicator::Leap61
        } else {
            LeapIndicator::NoLeap
        };
        let ts = match a.time_source {
            0xa0 => TimeSource::InternalOscillator,
            v @ 0xf0..=0xfe => TimeSource::ProfileSpecific(v - 0xf0),
            v => return Err(format!("emitted time_source {v:#x} belongs to no update")),
        };
        let t = TimePropertiesDS {
            current_utc_offset: h.flag(wire::flag::UTC_VALID).then_some(a.utc_offset),
            leap_indicator: leap,
            time_traceable: h.flag(wire::flag::TIME_TRACEABLE),
            frequency_traceable: h.flag(wire::flag::FREQ_TRACEABLE),
            ptp_timescale: h.flag(wire::flag::PTP_TIMESCALE),
            time_source: ts,
        };
        explain_time_properties(&t).map_err(|e| format!("time properties part: {e}"))?
    };
    let q = (a.gm_class, a.gm_accuracy, a.gm_variance);
    let parent_expl = if a.gm_identity == OWN_CLOCK {
        if a.gm_priority1 != OWN_P1 {
            return Err(format!("gm is local but priority1={}", a.gm_priority1));
        }
        match local_quality_index(q, max_local_j) {
            Some(j) => Expl::Local(j),
            None => return Err(format!("gm is local but quality {q:?} is no single local quality")),
        }
    } else {
        let k = u16::from_be_bytes([a.gm_identity[2], a.gm_identity[3]]);
        if master_of(k).is_none() {
            return Err(format!("gm identity {:02x?} belongs to no generation", a.gm_identity));
        }
        let f = fields(k);
        if a.gm_identity != f.gm_identity || a.gm_priority1 != f.p1 || q != (f.class, f.accuracy, f.variance) {
            return Err(format!(
                "parent part: identity says k={k} but p1={} quality={q:?} (k={k} has p1={} quality={:?})",
                a.gm_priority1,
                f.p1,
                (f.class, f.accuracy, f.variance)
            ));
        }
        Expl::Gen(k)
    };
    match (parent_expl, tp_expl) {
        (Expl::Gen(k), Expl::Gen(k2)) if k == k2 => {
            let want = fields(k).steps_removed + 1;
            if a.steps_removed == want {
                Ok(Expl::Gen(k))
            } else {
                Err(format!("parent and time properties are k={k} but steps_removed={} (k={k} gives {want})", a.steps_removed))
            }
        }
        (Expl::Local(j), Expl::Local(_)) | (Expl::Local(j), Expl::Init) => {
            if a.steps_removed == 0 {
                Ok(Expl::Local(j))
            } else {
                Err(format!("parent is local but steps_removed={}", a.steps_removed))
            }
        }
        (p, t) => Err(format!("parent part is {p} but time properties part is {t} (steps_removed={})", a.steps_removed)),
    }
}

#[cfg(test)]
mod tests {
    use super::*;

    #[test]
    fn generations_are_pairwise_distinguishable() {
        // every pair of generations of the same or different masters differs in every
        // multi-valued field group used by the oracles
        let mut ks = Vec::new();
        for m in 0..MAX_MASTERS {
            for j in 1..=40u16 {
                ks.push(k_of(m, j));
            }
        }
        for &a in &ks {
            for &b in &ks {
                if a == b {
                    continue;
                }
                let (fa, fb) = (fields(a), fields(b));
                assert_ne!(fa.gm_identity, fb.gm_identity);
                assert_ne!((fa.class, fa.accuracy, fa.variance), (fb.class, fb.accuracy, fb.variance));
                assert_ne!(gen_time_properties(a), gen_time_properties(b));
            }
        }
    }
}
