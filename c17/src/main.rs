//! c17 - part 2 of property C17: thread interleavings of a shared PtpInstance.
//!
//!   c17 check C17 <quick|thorough>     exit 0 held / 1 violation / 2 harness error
//!   c17 replay <schedule file>         exit 1 if the violation reproduces, 0 if clean
//!   c17 script <workload seed>         print the script a workload seed expands to
//!
//! See README.md.

#[allow(dead_code)]
#[path = "/verif/sim/ptpsim/src/wire.rs"]
mod wire;

mod gen;
mod lock;
mod oracle;
mod sched;
mod workload;

use std::collections::{BTreeMap, HashSet};
use std::panic::{catch_unwind, AssertUnwindSafe};
use std::path::{Path, PathBuf};
use std::process::{Command, ExitCode, Stdio};
use std::sync::{Arc, Mutex};
use std::time::{Duration, Instant};

use serde_json::{json, Value};
use shuttle::scheduler::{PctScheduler, RandomScheduler, ReplayScheduler, Scheduler};
use shuttle::{Config, FailurePersistence, MaxSteps, Runner};

use oracle::ExecCtx;
use sched::{Recording, SchedStats};

const KNOWN_DEFAULT: &str = "/verif/known_findings.json";
/// read-only; VERIF_C17_KNOWN overrides the location (used only to test the matching)
fn known_path() -> String {
    std::env::var("VERIF_C17_KNOWN").unwrap_or_else(|_| KNOWN_DEFAULT.into())
}

/// Output root, /verif unless VERIF_C17_OUT is set (only the sensitivity script sets it,
/// so that runs against mutants never touch /verif/replays and /verif/evidence).
fn out_root() -> PathBuf {
    PathBuf::from(std::env::var("VERIF_C17_OUT").unwrap_or_else(|_| "/verif".into()))
}
fn replay_dir() -> PathBuf {
    out_root().join("replays")
}
fn evidence_path() -> PathBuf {
    out_root().join("evidence").join("C17.part2.json")
}
const WORKERS: usize = 16;
const MAX_STEPS: usize = 200_000;
const STACK: usize = 1 << 20; // a Port is ~11.5 KB and moved by value; shuttle's default 60 KiB overflows

fn usage() -> ExitCode {
    eprintln!("usage: c17 check C17 <quick|thorough> | c17 replay <file> | c17 script <seed>");
    ExitCode::from(2)
}

fn main() -> ExitCode {
    let args: Vec<String> = std::env::args().skip(1).collect();
    let a: Vec<&str> = args.iter().map(|s| s.as_str()).collect();
    match a.as_slice() {
        ["check", "C17", tier @ ("quick" | "thorough")] => match check(tier) {
            Ok(code) => code,
            Err(e) => {
                eprintln!("c17: harness error: {e}");
                ExitCode::from(2)
            }
        },
        ["check", other, ..] => {
            eprintln!("c17: this binary only checks C17 (got {other})");
            ExitCode::from(2)
        }
        ["replay", file] => replay(file),
        ["script", seed] => match seed.parse::<u64>() {
            Ok(s) => {
                println!("{}", serde_json::to_string_pretty(&workload::Script::generate(s).describe()).unwrap());
                ExitCode::SUCCESS
            }
            Err(_) => usage(),
        },
        ["worker", rest @ ..] => match worker(rest) {
            Ok(()) => ExitCode::SUCCESS,
            Err(e) => {
                eprintln!("c17 worker: harness error: {e}");
                ExitCode::from(2)
            }
        },
        _ => usage(),
    }
}

fn mix(a: u64, b: u64, c: u64) -> u64 {
    let mut s = workload::SplitMix(a ^ b.wrapping_mul(0x9e37_79b9_7f4a_7c15) ^ c.wrapping_mul(0xc2b2_ae3d_27d4_eb4f));
    s.next();
    s.next()
}

fn base_config(persist: FailurePersistence) -> Config {
    let mut c = Config::new();
    c.stack_size = STACK;
    c.failure_persistence = persist;
    c.max_steps = MaxSteps::FailAfter(MAX_STEPS);
    c.silence_warnings = true;
    c
}

fn payload_text(p: &(dyn std::any::Any + Send)) -> String {
    if let Some(s) = p.downcast_ref::<String>() {
        s.clone()
    } else if let Some(s) = p.downcast_ref::<&str>() {
        s.to_string()
    } else {
        "<non-string panic payload>".into()
    }
}

/// (oracle id, is_harness_error)
fn classify(msg: &str) -> (String, bool) {
    if msg.starts_with("C17.harness") || msg.starts_with("harness:") || msg.contains("harness:") {
        return ("C17.harness".into(), true);
    }
    // nondeterminism during replay is a harness problem, never a verdict
    for m in ["schedule ended early", "scheduled task is not runnable", "expected context switch", "expected random choice", "could not load schedule"] {
        if msg.contains(m) {
            return ("C17.harness".into(), true);
        }
    }
    if let Some(rest) = msg.strip_prefix("C17.") {
        let id: String = rest.chars().take_while(|c| c.is_ascii_alphanumeric() || *c == '_').collect();
        return (format!("C17.{id}"), false);
    }
    if msg.contains("deadlock") {
        return ("C17.deadlock".into(), false);
    }
    if msg.contains("exceeded max_steps") {
        return ("C17.step_limit".into(), false);
    }
    ("C17.panic".into(), false)
}

/// the place a violation was seen at, without the observer's name: part of the class key
fn site(msg: &str) -> String {
    let body = msg.splitn(2, ": ").nth(1).unwrap_or(msg);
    let s = body.split(':').next().unwrap_or("");
    let s = s.split(" seen by ").next().unwrap_or(s);
    let s = s.split(" emitted by ").next().unwrap_or(s);
    let s = if s.starts_with("task ") { "" } else { s };
    s.chars().take(60).collect()
}

fn list_dir(d: &Path) -> HashSet<PathBuf> {
    std::fs::read_dir(d).map(|it| it.filter_map(|e| e.ok().map(|e| e.path())).collect()).unwrap_or_default()
}

// ------------------------------------------------------------------ worker process

fn worker(a: &[&str]) -> Result<(), String> {
    let [idx, kind, depth, seed, schedules, max_secs, workdir, samples, attempt0] = a else {
        return Err("worker: bad arguments".into());
    };
    let idx: u64 = idx.parse().map_err(|_| "idx")?;
    let depth: usize = depth.parse().map_err(|_| "depth")?;
    let seed: u64 = seed.parse().map_err(|_| "seed")?;
    let schedules: u64 = schedules.parse().map_err(|_| "schedules")?;
    let max_secs: f64 = max_secs.parse().map_err(|_| "max_secs")?;
    let want_samples: usize = samples.parse().map_err(|_| "samples")?;
    let workdir = PathBuf::from(workdir);

    let start = Instant::now();
    oracle::install_first_panic_hook();
    let ctx = Arc::new(ExecCtx { st: Default::default(), want_samples });
    let sstats = Arc::new(Mutex::new(SchedStats::default()));
    let mut violations: Vec<Value> = Vec::new();
    let mut harness_errors: Vec<String> = Vec::new();
    let mut remaining = schedules;
    // One failure per process: shuttle keeps per-thread state about what it persisted
    // last, so after a failure the parent continues the budget in a fresh process.
    let mut attempt: u64 = attempt0.parse().map_err(|_| "attempt")?;
    let mut attempt_seeds = Vec::new();

    while remaining > 0 && violations.is_empty() && harness_errors.is_empty() {
        let left = max_secs - start.elapsed().as_secs_f64();
        if left <= 0.0 {
            break;
        }
        let s = mix(seed, idx, attempt);
        attempt_seeds.push(s);
        let inner: Box<dyn Scheduler + Send> = match *kind {
            "random" => Box::new(RandomScheduler::new_from_seed(s, remaining as usize)),
            "pct" => Box::new(PctScheduler::new_from_seed(s, depth, remaining as usize)),
            _ => return Err("worker: scheduler kind".into()),
        };
        let rec = Recording::new(inner, sstats.clone());
        let mut cfg = base_config(FailurePersistence::File(Some(workdir.clone())));
        cfg.max_time = Some(Duration::from_secs_f64(left));
        let before_files = list_dir(&workdir);
        let before_exec = sstats.lock().unwrap().executions;
        let c2 = ctx.clone();
        let res = catch_unwind(AssertUnwindSafe(move || {
            Runner::new(rec, cfg).run(move || workload::execute(c2.clone()));
        }));
        let done = sstats.lock().unwrap().executions - before_exec;
        remaining = remaining.saturating_sub(done.max(1));
        if let Err(p) = res {
            let msg = oracle::take_first_panic().unwrap_or_else(|| payload_text(&*p));
            let (oracle, harness) = classify(&msg);
            // Shuttle persists when the panic hook runs and once more when the execution is
            // torn down if unwinding took further scheduling steps (a guard dropped while
            // panicking); the later file is a prefix-extension of the earlier one and is the
            // one that replays to the end, so keep the last and drop the others.
            let mut new: Vec<PathBuf> = list_dir(&workdir).difference(&before_files).cloned().collect();
            new.sort();
            while new.len() > 1 {
                let _ = std::fs::remove_file(new.remove(0));
            }
            let (script, order) = {
                let st = ctx.st.lock().unwrap();
                match &st.current {
                    Some((s, mon)) => {
                        let m = mon.st.lock().map(|m| workload::order_text(&m.order)).unwrap_or_default();
                        (s.describe(), m)
                    }
                    None => (Value::Null, String::new()),
                }
            };
            if harness {
                harness_errors.push(msg.clone());
            }
            if new.len() != 1 {
                harness_errors.push(format!("expected exactly one persisted schedule after a failure, found {new:?} (failure: {msg})"));
            } else if !harness {
                let text = std::fs::read(&new[0]).map_err(|e| e.to_string())?;
                let mut h = oracle::FNV_INIT;
                oracle::fnv1a(&mut h, &text);
                let short = oracle.trim_start_matches("C17.");
                let dest = replay_dir().join(format!("C17-{short}-{seed}-w{idx}a{attempt}-{:08x}.txt", h as u32));
                std::fs::rename(&new[0], &dest).map_err(|e| format!("rename {:?}: {e}", new[0]))?;
                let total_before = schedules - remaining;
                violations.push(json!({
                    "oracle": oracle,
                    "site": site(&msg),
                    "message": msg,
                    "replay": dest.to_string_lossy(),
                    "schedule_bytes": text.len(),
                    "worker": idx,
                    "scheduler": kind,
                    "pct_depth": if *kind == "pct" { json!(depth) } else { Value::Null },
                    "scheduler_seed": s,
                    "schedules_of_this_worker_until_detection": total_before,
                    "script": script,
                    "threads": Value::Null,
                    "observed_lock_order_until_failure": order,
                }));
            }
        }
        attempt += 1;
    }

    let st = ctx.st.lock().unwrap();
    let ss = sstats.lock().unwrap();
    let out = json!({
        "idx": idx,
        "scheduler": {"kind": kind, "pct_depth": if *kind == "pct" { json!(depth) } else { Value::Null }, "seeds": attempt_seeds},
        "planned": schedules,
        "remaining": remaining,
        "schedules": ss.executions,
        "completed": st.executions_completed,
        "steps": ss.steps,
        "choice_points": ss.choice_points,
        "context_switches": ss.context_switches,
        "max_runnable": ss.max_runnable,
        "max_steps_in_one": ss.max_steps_in_one,
        "fingerprints": ss.fingerprints.iter().collect::<Vec<_>>(),
        "pool_fingerprints": ss.pool_fingerprints.iter().collect::<Vec<_>>(),
        "pool_executions": ss.pool_executions,
        "slave_announce_updates": st.slave_announce_updates,
        "executions_with_slave_update": st.executions_with_slave_update,
        "lock_orders": st.lock_orders.iter().collect::<Vec<_>>(),
        "scripts": st.scripts.iter().collect::<Vec<_>>(),
        "snapshots": st.snapshots,
        "frames_decoded": st.frames_decoded,
        "host_calls": st.host_calls,
        "bmca_runs": st.bmca_runs,
        "lock_reads": st.lock_reads,
        "lock_writes": st.lock_writes,
        "max_depth": st.max_depth,
        "rounds_with_slave": st.rounds_with_slave,
        "rounds_with_master": st.rounds_with_master,
        "samples": st.samples,
        "violations": violations,
        "harness_errors": harness_errors,
        "wall_s": start.elapsed().as_secs_f64(),
    });
    std::fs::write(workdir.join("result.json"), serde_json::to_vec(&out).unwrap()).map_err(|e| e.to_string())?;
    Ok(())
}

// ------------------------------------------------------------------ replay

fn replay(file: &str) -> ExitCode {
    let mut path = PathBuf::from(file);
    if path.extension().map(|e| e == "json").unwrap_or(false) {
        // sidecar: points at the schedule
        match std::fs::read(&path).ok().and_then(|b| serde_json::from_slice::<Value>(&b).ok()) {
            Some(v) => match v["replay"].as_str() {
                Some(p) => path = PathBuf::from(p),
                None => {
                    eprintln!("c17 replay: {file} has no \"replay\" entry");
                    return ExitCode::from(2);
                }
            },
            None => {
                eprintln!("c17 replay: cannot read {file}");
                return ExitCode::from(2);
            }
        }
    }
    // shuttle::replay_from_file(f, path) is exactly this with Config::default(); the
    // default 60 KiB task stack overflows for this workload, so the same two steps are
    // done here with the stack size raised.
    let scheduler = match ReplayScheduler::new_from_file(&path) {
        Ok(s) => s,
        Err(e) => {
            eprintln!("c17 replay: cannot load {}: {e}", path.display());
            return ExitCode::from(2);
        }
    };
    oracle::install_first_panic_hook();
    let ctx = Arc::new(ExecCtx { st: Default::default(), want_samples: 1 });
    let c2 = ctx.clone();
    let res = catch_unwind(AssertUnwindSafe(move || {
        Runner::new(scheduler, base_config(FailurePersistence::None)).run(move || workload::execute(c2.clone()));
    }));
    let st = ctx.st.lock().unwrap();
    match res {
        Ok(()) => {
            println!("replay of {} ran to completion without a violation", path.display());
            if let Some(s) = st.samples.first() {
                println!("script: {s}");
            }
            ExitCode::SUCCESS
        }
        Err(p) => {
            let msg = oracle::take_first_panic().unwrap_or_else(|| payload_text(&*p));
            let (oracle, harness) = classify(&msg);
            if let Some((s, mon)) = &st.current {
                println!("script: {}", s.describe());
                println!("threads: {}", oracle::thread_names(s));
                if let Ok(m) = mon.st.lock() {
                    println!("lock order until failure: {}", workload::order_text(&m.order));
                }
            }
            if harness {
                println!("HARNESS-ERROR during replay: {msg}");
                return ExitCode::from(2);
            }
            println!("REPRODUCED oracle={oracle} message={msg}");
            println!("VIOLATION property=C17 replay={}", path.display());
            ExitCode::from(1)
        }
    }
}

// ------------------------------------------------------------------ check (parent)

struct Known {
    oracle: String,
    key_contains: Vec<String>,
    status: String,
    what: String,
}

fn load_known() -> Result<Vec<Known>, String> {
    let known = known_path();
    let Ok(bytes) = std::fs::read(&known) else { return Ok(vec![]) };
    let v: Value = serde_json::from_slice(&bytes).map_err(|e| format!("{known}: {e}"))?;
    let list = v.as_array().cloned().or_else(|| v["findings"].as_array().cloned()).ok_or(format!("{known}: not a list"))?;
    let mut out = Vec::new();
    for e in list {
        if e["property"].as_str() != Some("C17") {
            continue;
        }
        let oracle = e["oracle"].as_str().or(e["signature"]["oracle"].as_str()).unwrap_or("").to_string();
        let mut key: Vec<String> =
            e["key_contains"].as_array().map(|a| a.iter().filter_map(|x| x.as_str().map(String::from)).collect()).unwrap_or_default();
        if let Some(m) = e["signature"]["message"].as_str() {
            key.push(m.to_string());
        }
        out.push(Known {
            oracle,
            key_contains: key,
            status: e["status"].as_str().unwrap_or("").to_string(),
            what: e["what"].as_str().unwrap_or("").to_string(),
        });
    }
    Ok(out)
}

fn check(tier: &str) -> Result<ExitCode, String> {
    let start = Instant::now();
    let seed: u64 = match std::env::var("VERIF_SEED") {
        Ok(s) => s.trim().parse().map_err(|_| format!("VERIF_SEED={s} is not a u64"))?,
        Err(_) => 1,
    };
    let (mut total, max_secs): (u64, f64) = if tier == "quick" { (2_000, 50.0) } else { (200_000, 540.0) };
    if let Ok(s) = std::env::var("VERIF_C17_SCHEDULES") {
        total = s.trim().parse().map_err(|_| "VERIF_C17_SCHEDULES")?;
    }
    let known = load_known()?;
    std::fs::create_dir_all(replay_dir()).map_err(|e| format!("{}: {e}", replay_dir().display()))?;
    std::fs::create_dir_all(evidence_path().parent().unwrap()).map_err(|e| e.to_string())?;
    let exe = std::env::current_exe().map_err(|e| e.to_string())?;
    let pid = std::process::id();

    // 16 worker processes (one shuttle Runner each; a process per worker keeps the
    // persisted schedule files apart and contains a crash). Always 16, so that what is
    // explored depends on the seed only, not on the machine.
    let mut slots = Vec::new();
    for i in 0..WORKERS {
        let n = total / WORKERS as u64 + ((i as u64) < total % WORKERS as u64) as u64;
        let (kind, depth) = if i % 2 == 0 { ("random", 0) } else { ("pct", 2 + (i / 2) % 4) };
        let exe = exe.clone();
        slots.push(std::thread::spawn(move || -> (Vec<Value>, Vec<String>) {
            let mut results = Vec::new();
            let mut harness = Vec::new();
            let mut remaining = n;
            let mut attempt = 0u64;
            let t0 = Instant::now();
            // after a violation the rest of the budget continues in a fresh process
            // (at most 3 violations per slot)
            while remaining > 0 && attempt < 3 && harness.is_empty() {
                let left = max_secs - t0.elapsed().as_secs_f64();
                if left <= 0.0 {
                    break;
                }
                let workdir = replay_dir().join(format!(".c17-work-{pid}-{i}-{attempt}"));
                let _ = std::fs::remove_dir_all(&workdir);
                let run = (|| -> Result<Value, String> {
                    std::fs::create_dir_all(&workdir).map_err(|e| e.to_string())?;
                    let errlog = std::fs::File::create(workdir.join("stderr.log")).map_err(|e| e.to_string())?;
                    let status = Command::new(&exe)
                        .args(["worker", &i.to_string(), kind, &depth.to_string(), &seed.to_string(), &remaining.to_string(), &left.to_string()])
                        .arg(&workdir)
                        .arg(if i < 4 && attempt == 0 { "1" } else { "0" })
                        .arg(attempt.to_string())
                        .env_remove("SHUTTLE_RANDOM_SEED")
                        .stdin(Stdio::null())
                        .stdout(Stdio::null())
                        .stderr(errlog)
                        .status()
                        .map_err(|e| format!("spawn worker: {e}"))?;
                    let res = std::fs::read(workdir.join("result.json")).ok().and_then(|b| serde_json::from_slice::<Value>(&b).ok());
                    match (status.success(), res) {
                        (true, Some(v)) => Ok(v),
                        _ => {
                            let log = std::fs::read_to_string(workdir.join("stderr.log")).unwrap_or_default();
                            let tail: Vec<&str> = log.lines().rev().take(15).collect();
                            Err(format!(
                                "worker {i} (attempt {attempt}) ended with {status} and no usable result; stderr tail: {}",
                                tail.into_iter().rev().collect::<Vec<_>>().join(" | ")
                            ))
                        }
                    }
                })();
                let _ = std::fs::remove_dir_all(&workdir);
                match run {
                    Ok(v) => {
                        let failed = v["violations"].as_array().map(|a| !a.is_empty()).unwrap_or(false);
                        remaining = if failed { v["remaining"].as_u64().unwrap_or(0) } else { 0 };
                        results.push(v);
                    }
                    Err(e) => harness.push(e),
                }
                attempt += 1;
            }
            (results, harness)
        }));
    }

    let mut harness: Vec<String> = Vec::new();
    let mut results: Vec<Value> = Vec::new();
    for t in slots {
        match t.join() {
            Ok((r, h)) => {
                results.extend(r);
                harness.extend(h);
            }
            Err(_) => harness.push("a supervisor thread panicked".into()),
        }
    }

    // ---- merge
    let mut fingerprints: HashSet<u64> = HashSet::new();
    let mut lock_orders: HashSet<u64> = HashSet::new();
    let mut scripts: HashSet<u64> = HashSet::new();
    let mut pool_fps: HashSet<u64> = HashSet::new();
    let mut snapshots: BTreeMap<String, u64> = BTreeMap::new();
    let mut sum: BTreeMap<&str, u64> = BTreeMap::new();
    let mut maxes: BTreeMap<&str, u64> = BTreeMap::new();
    let mut samples = Vec::new();
    let mut per_worker = Vec::new();
    let mut all_violations: Vec<Value> = Vec::new();
    let (mut n_random, mut n_pct) = (0u64, 0u64);
    for r in &results {
        for (set, key) in [(&mut fingerprints, "fingerprints"), (&mut lock_orders, "lock_orders"), (&mut scripts, "scripts"), (&mut pool_fps, "pool_fingerprints")] {
            for x in r[key].as_array().into_iter().flatten() {
                set.insert(x.as_u64().unwrap_or(0));
            }
        }
        for (k, v) in r["snapshots"].as_object().into_iter().flatten() {
            *snapshots.entry(k.clone()).or_insert(0) += v.as_u64().unwrap_or(0);
        }
        for k in [
            "schedules", "completed", "steps", "choice_points", "context_switches", "frames_decoded", "host_calls", "bmca_runs", "lock_reads",
            "lock_writes", "rounds_with_slave", "rounds_with_master", "pool_executions", "slave_announce_updates", "executions_with_slave_update",
        ] {
            *sum.entry(k).or_insert(0) += r[k].as_u64().unwrap_or(0);
        }
        for k in ["max_depth", "max_runnable", "max_steps_in_one"] {
            let e = maxes.entry(k).or_insert(0);
            *e = (*e).max(r[k].as_u64().unwrap_or(0));
        }
        if r["scheduler"]["kind"] == "random" {
            n_random += r["schedules"].as_u64().unwrap_or(0);
        } else {
            n_pct += r["schedules"].as_u64().unwrap_or(0);
        }
        samples.extend(r["samples"].as_array().cloned().unwrap_or_default());
        per_worker.push(json!({"worker": r["idx"], "scheduler": r["scheduler"], "schedules": r["schedules"], "wall_s": r["wall_s"]}));
        all_violations.extend(r["violations"].as_array().cloned().unwrap_or_default());
        for h in r["harness_errors"].as_array().into_iter().flatten() {
            harness.push(format!("worker {}: {}", r["idx"], h.as_str().unwrap_or("?")));
        }
    }

    // ---- violation classes: keep the shortest schedule of each
    let mut classes: BTreeMap<String, Value> = BTreeMap::new();
    let mut class_counts: BTreeMap<String, u64> = BTreeMap::new();
    let mut class_earliest: BTreeMap<String, u64> = BTreeMap::new();
    for v in all_violations {
        let key = format!("{} {}", v["oracle"].as_str().unwrap_or(""), v["site"].as_str().unwrap_or("")).trim().to_string();
        *class_counts.entry(key.clone()).or_insert(0) += 1;
        let at = v["schedules_of_this_worker_until_detection"].as_u64().unwrap_or(u64::MAX);
        let e = class_earliest.entry(key.clone()).or_insert(u64::MAX);
        *e = (*e).min(at);
        let better = match classes.get(&key) {
            None => true,
            Some(old) => v["schedule_bytes"].as_u64() < old["schedule_bytes"].as_u64(),
        };
        let drop_file = if better { classes.insert(key, v).map(|o| o["replay"].clone()) } else { Some(v["replay"].clone()) };
        if let Some(Value::String(f)) = drop_file {
            let _ = std::fs::remove_file(f);
        }
    }

    let mut unlisted = 0u64;
    let mut known_matched = Vec::new();
    let mut reported = Vec::new();
    for (key, v) in classes.iter_mut() {
        let oracle = v["oracle"].as_str().unwrap_or("").to_string();
        let msg = v["message"].as_str().unwrap_or("").to_string();
        let file = v["replay"].as_str().unwrap_or("").to_string();
        v["found_by_workers"] = json!(class_counts[key]);
        v["earliest_detection_in_any_worker_after_schedules"] = json!(class_earliest[key]);
        if let Some(s) = v["script"].as_object() {
            if let (Some(p), true) = (s.get("ports").and_then(|p| p.as_u64()), true) {
                let mut names = serde_json::Map::new();
                names.insert("0".into(), "root(add_port)".into());
                for i in 1..=p {
                    names.insert(i.to_string(), format!("port{i}").into());
                }
                names.insert((p + 1).to_string(), "observer".into());
                names.insert((p + 2).to_string(), "setter".into());
                names.insert((p + 3).to_string(), "coordinator(bmca)".into());
                v["threads"] = names.into();
            }
        }
        let hit = known.iter().find(|k| k.oracle == oracle && k.status == "open" && k.key_contains.iter().all(|s| msg.contains(s.as_str())));
        // the replay must reproduce in a fresh process before anything is reported
        let rep = Command::new(&exe).args(["replay", &file]).stdin(Stdio::null()).output().map_err(|e| e.to_string())?;
        let reproduced = rep.status.code() == Some(1) && String::from_utf8_lossy(&rep.stdout).contains(&format!("REPRODUCED oracle={oracle} "));
        v["replay_reproduced_in_fresh_process"] = json!(reproduced);
        // sidecar with the written-out workload, next to the schedule
        let side = format!("{file}.json");
        let _ = std::fs::write(&side, serde_json::to_vec_pretty(&v).unwrap());
        if !reproduced {
            harness.push(format!("{key}: persisted schedule {file} did not reproduce ({:?}): {}", rep.status.code(), String::from_utf8_lossy(&rep.stdout).lines().last().unwrap_or("")));
        }
        match hit {
            Some(k) => {
                println!("KNOWN-FINDING: property=C17 {oracle} {}", k.what);
                known_matched.push(json!({"oracle": oracle, "what": k.what, "replay": file}));
            }
            None => {
                println!("VIOLATION property=C17 replay={file}");
                eprintln!("c17: {msg}");
                unlisted += 1;
            }
        }
        reported.push(v.clone());
    }

    let wall = start.elapsed().as_secs_f64();
    let schedules = sum.get("schedules").copied().unwrap_or(0);
    let snapshots_checked: u64 = snapshots.values().sum();
    // table produced by sensitivity.sh (mutant -> detected-by -> seeds-to-detection)
    let sensitivity: Value = std::fs::read("/verif/c17/mutants/sensitivity.json")
        .ok()
        .and_then(|b| serde_json::from_slice::<Value>(&b).ok())
        .map(|v| {
            v.as_array()
                .into_iter()
                .flatten()
                .map(|c| {
                    json!({
                        "case": c["case"], "tier": c["tier"], "detected": c["detected"], "seeds_to_detection": c["seeds_to_detection"],
                        "replay_exit_in_fresh_process": c["replay_exit_in_fresh_process"],
                        "detected_by": c["classes"].as_array().into_iter().flatten().map(|k| json!({
                            "oracle": k["oracle"], "site": k["site"],
                            "earliest_detection_in_any_worker_after_schedules": k["earliest_detection_in_any_worker_after_schedules"],
                        })).collect::<Vec<_>>(),
                        "statime_own_tests_with_this_mutant": c["statime_own_tests_with_this_mutant"],
                    })
                })
                .collect::<Vec<_>>()
                .into()
        })
        .unwrap_or(Value::Null);
    let evidence = json!({
        "property": "C17",
        "part": 2,
        "tier": tier,
        "seed": seed,
        "schedules": schedules,
        "schedules_planned": total,
        "schedules_completed": sum.get("completed"),
        "distinct_schedules": fingerprints.len(),
        "distinct_schedules_how": "hash of (workload script seed, sequence of task ids chosen by the scheduler at every step)",
        "distinct_lock_orders": lock_orders.len(),
        "distinct_lock_orders_how": "hash of workload seed plus the observed (thread, read|write) order in which the instance-state lock was obtained",
        "distinct_workload_scripts": scripts.len(),
        "fixed_script_pool": {
            "what": "half of the executions draw one of a fixed pool of scripts, so that one script meets many schedules; the rest draw a fresh script",
            "scripts": workload::POOL,
            "schedules": sum.get("pool_executions"),
            "distinct_schedules": pool_fps.len(),
        },
        "probes": {
            "slave_port_adopted_parent_announce (with_mut in handle_announce)": sum.get("slave_announce_updates"),
            "schedules_with_such_an_update": sum.get("executions_with_slave_update"),
            "bmca_rounds_with_a_slave_port": sum.get("rounds_with_slave"),
            "bmca_rounds_with_a_master_port": sum.get("rounds_with_master"),
        },
        "steps": sum.get("steps"),
        "choice_points": sum.get("choice_points"),
        "context_switches": sum.get("context_switches"),
        "max_runnable_threads": maxes.get("max_runnable"),
        "max_steps_in_one_schedule": maxes.get("max_steps_in_one"),
        "snapshots_checked": snapshots_checked,
        "snapshots_by_kind": snapshots,
        "frames_decoded": sum.get("frames_decoded"),
        "host_calls": sum.get("host_calls"),
        "bmca_runs": sum.get("bmca_runs"),
        "lock_reads": sum.get("lock_reads"),
        "lock_writes": sum.get("lock_writes"),
        "max_depth": maxes.get("max_depth"),
        "scheduler": {
            "engine": "shuttle 0.9.3",
            "workers": WORKERS,
            "random": {"workers": WORKERS / 2, "schedules": n_random},
            "pct": {"workers": WORKERS / 2, "depths": [2, 3, 4, 5], "schedules": n_pct},
            "stack_size": STACK,
            "max_steps": MAX_STEPS,
            "per_worker": per_worker,
        },
        "oracles": ["C17.deadlock", "C17.panic", "C17.step_limit", "C17.nested_acquisition", "C17.torn_snapshot", "C17.generation_regressed"],
        "components": {
            "real": ["statime::PtpInstance", "statime::port::Port (all handle_* used by the scripts, start_bmca/end_bmca)", "statime BMCA", "statime::filters::BasicFilter"],
            "stub": ["lock: shuttle::sync::RwLock behind PtpInstanceStateMutex (DetectLock)", "Clock", "RngCore", "network: scripted Announce frames from the reference codec", "timers: fired by script", "tokio tasks/channels of statime-linux main.rs: shuttle threads + mpsc"],
        },
        "not_modelled": "writer preference / fairness of std::sync::RwLock (shuttle's RwLock is unfair); the nested-read deadlock is therefore caught by the depth monitor, not by a hang",
        "sensitivity": {"source": "/verif/c17/mutants/sensitivity.json (written by /verif/c17/sensitivity.sh)", "cases": sensitivity},
        "corrections_log": [
            "oracle 4 (generations only move forward) first demanded monotonicity over the whole run and fired on the unchanged tree (seed 1, quick): after a BMCA in which master A's newest qualified Announce (k=259) lost against another master, statime removes it from the foreign master list; a later BMCA then selected the OLDER Announce k=258 of A, so parentDS/timePropertiesDS went from k=259 back to k=258. That is BMCA/foreign-master bookkeeping (C05/C06 territory), not a half-updated or re-entrantly locked state: the oracle demanded more than C17 states. It now only demands monotonicity between two BMCA runs (epoch taken under the lock)."
        ],
        "samples": samples,
        "violations": unlisted,
        "violation_classes": reported,
        "known_findings_matched": known_matched,
        "harness_errors": harness,
        "wall_s": wall,
        "schedules_per_second": if wall > 0.0 { schedules as f64 / wall } else { 0.0 },
    });
    std::fs::write(evidence_path(), serde_json::to_vec_pretty(&evidence).unwrap()).map_err(|e| format!("{}: {e}", evidence_path().display()))?;

    eprintln!(
        "c17: {tier}: {schedules} schedules ({} distinct, {} distinct lock orders), {} steps, {snapshots_checked} snapshots checked, max depth {}, {unlisted} violation class(es), {:.1}s",
        fingerprints.len(),
        lock_orders.len(),
        sum.get("steps").copied().unwrap_or(0),
        maxes.get("max_depth").copied().unwrap_or(0),
        wall
    );
    if !harness.is_empty() {
        for h in &harness {
            eprintln!("c17: harness error: {h}");
        }
        return Ok(ExitCode::from(2));
    }
    if schedules < total && unlisted == 0 && known_matched.is_empty() {
        eprintln!("c17: harness error: only {schedules} of {total} schedules ran within the time cap");
        return Ok(ExitCode::from(2));
    }
    Ok(if unlisted > 0 { ExitCode::from(1) } else { ExitCode::SUCCESS })
}
