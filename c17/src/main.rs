fn main() {
    let n = shuttle::Runner::new(shuttle::scheduler::RandomScheduler::new_from_seed(1, 10), shuttle::Config::new()).run(|| {
        let h = shuttle::thread::spawn(|| {});
        h.join().unwrap();
    });
    println!("{n}");
}
