//! `timestamped_socket::networkaddress`: the same public types; the sealed
//! conversion methods go to the simulated address form instead of sockaddr.
use std::net::{SocketAddrV4, SocketAddrV6};

use crate::interface::InterfaceName;
use crate::sim::SimAddr;

use self::sealed::{PrivateToken, SealedMC, SealedNA};

pub(crate) mod sealed {
    pub trait SealedNA {}
    pub trait SealedMC {}
    pub struct PrivateToken;
}

pub trait NetworkAddress: Sized + SealedNA {
    #[doc(hidden)]
    fn to_sim(&self, _token: PrivateToken) -> SimAddr;
    #[doc(hidden)]
    fn from_sim(addr: SimAddr, _token: PrivateToken) -> Option<Self>;
}

pub trait MulticastJoinable: NetworkAddress + SealedMC {
    #[doc(hidden)]
    fn join_multicast(&self, socket: usize, interface: InterfaceName, _token: PrivateToken) -> std::io::Result<()>;
    #[doc(hidden)]
    fn leave_multicast(&self, socket: usize, interface: InterfaceName, _token: PrivateToken) -> std::io::Result<()>;
}

impl SealedNA for SocketAddrV4 {}
impl NetworkAddress for SocketAddrV4 {
    fn to_sim(&self, _token: PrivateToken) -> SimAddr {
        SimAddr::V4(*self.ip(), self.port())
    }
    fn from_sim(addr: SimAddr, _token: PrivateToken) -> Option<Self> {
        match addr {
            SimAddr::V4(ip, port) => Some(SocketAddrV4::new(ip, port)),
            _ => None,
        }
    }
}

impl SealedNA for SocketAddrV6 {}
impl NetworkAddress for SocketAddrV6 {
    fn to_sim(&self, _token: PrivateToken) -> SimAddr {
        SimAddr::V6(*self.ip(), self.port())
    }
    fn from_sim(addr: SimAddr, _token: PrivateToken) -> Option<Self> {
        match addr {
            SimAddr::V6(ip, port) => Some(SocketAddrV6::new(ip, port, 0, 0)),
            _ => None,
        }
    }
}

fn join_leave(addr: SimAddr, socket: usize, interface: InterfaceName, join: bool) -> std::io::Result<()> {
    if crate::sim::iface_by_name(interface.as_str()).is_none() {
        return Err(std::io::ErrorKind::InvalidInput.into());
    }
    crate::sim::socket_group(socket, addr.group_key(), join);
    Ok(())
}

impl SealedMC for SocketAddrV4 {}
impl MulticastJoinable for SocketAddrV4 {
    fn join_multicast(&self, socket: usize, interface: InterfaceName, _token: PrivateToken) -> std::io::Result<()> {
        join_leave(self.to_sim(PrivateToken), socket, interface, true)
    }
    fn leave_multicast(&self, socket: usize, interface: InterfaceName, _token: PrivateToken) -> std::io::Result<()> {
        join_leave(self.to_sim(PrivateToken), socket, interface, false)
    }
}

impl SealedMC for SocketAddrV6 {}
impl MulticastJoinable for SocketAddrV6 {
    fn join_multicast(&self, socket: usize, interface: InterfaceName, _token: PrivateToken) -> std::io::Result<()> {
        join_leave(self.to_sim(PrivateToken), socket, interface, true)
    }
    fn leave_multicast(&self, socket: usize, interface: InterfaceName, _token: PrivateToken) -> std::io::Result<()> {
        join_leave(self.to_sim(PrivateToken), socket, interface, false)
    }
}

#[derive(Debug, Copy, Clone, PartialEq, Eq, PartialOrd, Ord, Hash)]
pub struct MacAddress([u8; 6]);

impl From<[u8; 6]> for MacAddress {
    fn from(value: [u8; 6]) -> Self {
        MacAddress(value)
    }
}

impl AsRef<[u8]> for MacAddress {
    fn as_ref(&self) -> &[u8] {
        &self.0
    }
}

impl MacAddress {
    pub const fn new(address: [u8; 6]) -> Self {
        MacAddress(address)
    }
}

#[derive(Debug, Copy, Clone, PartialEq, Eq, Hash)]
pub struct EthernetAddress {
    protocol: u16,
    mac_address: MacAddress,
    if_index: libc::c_int,
}

impl EthernetAddress {
    pub const fn new(protocol: u16, mac_address: MacAddress, if_index: libc::c_int) -> Self {
        EthernetAddress { protocol, mac_address, if_index }
    }

    pub const fn mac(&self) -> MacAddress {
        self.mac_address
    }

    pub const fn protocol(&self) -> u16 {
        self.protocol
    }

    pub const fn interface(&self) -> libc::c_int {
        self.if_index
    }
}

impl SealedNA for EthernetAddress {}
impl NetworkAddress for EthernetAddress {
    fn to_sim(&self, _token: PrivateToken) -> SimAddr {
        SimAddr::Eth { proto: self.protocol, mac: self.mac_address.0, ifindex: self.if_index }
    }
    fn from_sim(addr: SimAddr, _token: PrivateToken) -> Option<Self> {
        match addr {
            SimAddr::Eth { proto, mac, ifindex } => Some(EthernetAddress::new(proto, MacAddress(mac), ifindex)),
            _ => None,
        }
    }
}

impl SealedMC for EthernetAddress {}
impl MulticastJoinable for EthernetAddress {
    fn join_multicast(&self, socket: usize, interface: InterfaceName, _token: PrivateToken) -> std::io::Result<()> {
        join_leave(self.to_sim(PrivateToken), socket, interface, true)
    }
    fn leave_multicast(&self, socket: usize, interface: InterfaceName, _token: PrivateToken) -> std::io::Result<()> {
        join_leave(self.to_sim(PrivateToken), socket, interface, false)
    }
}
