//! The simulated network behind the facade: one registry per thread.
//!
//! * interfaces belong to segments; the code under test opens sockets on them;
//! * a frame sent by the code under test is logged (`Emitted`, with its true
//!   send instant) for the harness - scripted endpoints live in the harness and
//!   decide themselves when they "receive" it - and delivered to every OTHER
//!   matching socket of another interface on the same segment after
//!   `loop_delay_ns`;
//! * the harness injects frames with `inject(iface, dest, src, bytes, arrival)`;
//!   they reach the matching sockets at the first executor wake-up at or after
//!   `arrival`, but carry the receive timestamp of the true arrival instant,
//!   read from the interface's simulated clock;
//! * transmit timestamps are the clock reading at send instant + egress latency;
//!   the fault plan can withhold them (the real crate then gives up after
//!   200 ms and returns `None`) or make them late.
//!
//! tokio's timer wheel has 1 ms resolution; all "true" instants are computed
//! arithmetically in ns and never read back from a wake-up time.
use std::cell::RefCell;
use std::collections::{BTreeMap, VecDeque};
use std::net::{Ipv4Addr, Ipv6Addr, SocketAddr};
use std::sync::Arc;
use tokio::sync::Notify;

#[derive(Clone, Copy, Debug, PartialEq, Eq, Hash, PartialOrd, Ord)]
pub enum SimAddr {
    V4(Ipv4Addr, u16),
    V6(Ipv6Addr, u16),
    Eth { proto: u16, mac: [u8; 6], ifindex: i32 },
}

#[derive(Clone, Copy, Debug, PartialEq, Eq, Hash, PartialOrd, Ord)]
pub enum GroupKey {
    V4(Ipv4Addr),
    V6(Ipv6Addr),
    Mac([u8; 6]),
}

impl SimAddr {
    pub fn group_key(&self) -> GroupKey {
        match self {
            SimAddr::V4(ip, _) => GroupKey::V4(*ip),
            SimAddr::V6(ip, _) => GroupKey::V6(*ip),
            SimAddr::Eth { mac, .. } => GroupKey::Mac(*mac),
        }
    }
    pub fn is_multicast(&self) -> bool {
        match self {
            SimAddr::V4(ip, _) => ip.is_multicast(),
            SimAddr::V6(ip, _) => ip.is_multicast(),
            SimAddr::Eth { mac, .. } => mac[0] & 1 == 1,
        }
    }
    fn hash_into(&self, h: &mut Fnv) {
        match self {
            SimAddr::V4(ip, p) => {
                h.byte(4);
                h.bytes(&ip.octets());
                h.bytes(&p.to_le_bytes());
            }
            SimAddr::V6(ip, p) => {
                h.byte(6);
                h.bytes(&ip.octets());
                h.bytes(&p.to_le_bytes());
            }
            SimAddr::Eth { proto, mac, .. } => {
                h.byte(2);
                h.bytes(&proto.to_le_bytes());
                h.bytes(mac);
            }
        }
    }
}

#[derive(Clone, Copy, Debug, PartialEq, Eq, Hash, PartialOrd, Ord)]
pub enum SockKind {
    Udp4(u16),
    Udp6(u16),
    Eth(u16),
}

/// where receive / transmit timestamps of a socket come from
#[derive(Clone, Copy, Debug, PartialEq, Eq)]
pub enum TsSource {
    None,
    /// kernel software timestamps (system clock, every packet)
    Software,
    /// NIC timestamps for every packet
    HardwareAll,
    /// NIC timestamps for PTP event messages only
    HardwarePtp,
}

#[derive(Clone, Debug)]
pub struct Iface {
    pub name: String,
    pub index: u32,
    pub mac: [u8; 6],
    pub addrs: Vec<SocketAddr>,
    pub segment: usize,
    /// PTP hardware clock index reported by `lookup_phc`
    pub phc: Option<u32>,
    /// simulated clock id of that PHC
    pub phc_clock: Option<usize>,
    /// send call -> frame on the wire (and the instant the tx timestamp names)
    pub egress_ns: u64,
}

#[derive(Clone, Debug)]
pub struct Packet {
    pub bytes: Vec<u8>,
    pub src: SimAddr,
    pub ts: Option<(i64, u32)>,
}

struct Sock {
    iface: usize,
    kind: SockKind,
    ts: TsSource,
    tx_ts: bool,
    phc_clock: Option<usize>,
    groups: Vec<GroupKey>,
    rx: VecDeque<Packet>,
    notify: Arc<Notify>,
    sends: u64,
    open: bool,
}

#[derive(Clone, Copy, Debug, PartialEq, Eq)]
pub enum TxFaultKind {
    /// no transmit timestamp: `send` waits 200 ms and returns `None`
    NoTimestamp,
    /// transmit timestamp available only after this many ms (< 200)
    LateMs(u32),
    /// transmit timestamp belongs to another packet (wrong by this many ns)
    SkewNs(i64),
}

#[derive(Clone, Copy, Debug)]
pub struct TxFault {
    pub iface: usize,
    pub kind_of_socket: SockKind,
    /// n-th send on that socket (0-based)
    pub nth: u64,
    pub fault: TxFaultKind,
}

/// one frame sent by the code under test
#[derive(Clone, Debug)]
pub struct Emitted {
    pub seq: u64,
    /// virtual instant of the send call
    pub vt_ns: u64,
    /// true instant the frame leaves the interface
    pub wire_ns: u64,
    pub iface: usize,
    pub sock: SockKind,
    pub dest: SimAddr,
    pub bytes: Vec<u8>,
    pub tx_ts: Option<(i64, u32)>,
    pub tx_fault: Option<TxFaultKind>,
}

struct Pending {
    iface: usize,
    dest: SimAddr,
    src: SimAddr,
    bytes: Vec<u8>,
    /// socket that sent it (never delivered back to it)
    from_sock: Option<usize>,
}

#[derive(Clone, Copy, Debug)]
pub struct Fnv(pub u64);
impl Fnv {
    pub fn new() -> Self {
        Fnv(0xcbf29ce484222325)
    }
    #[inline]
    pub fn byte(&mut self, b: u8) {
        self.0 ^= b as u64;
        self.0 = self.0.wrapping_mul(0x100000001b3);
    }
    pub fn bytes(&mut self, b: &[u8]) {
        for x in b {
            self.byte(*x);
        }
    }
    pub fn u64(&mut self, v: u64) {
        self.bytes(&v.to_le_bytes());
    }
}
impl Default for Fnv {
    fn default() -> Self {
        Self::new()
    }
}

#[derive(Clone, Debug, Default)]
pub struct Stats {
    pub emitted: u64,
    pub injected: u64,
    pub delivered: u64,
    pub undeliverable: u64,
    pub rx_buffer_truncated: u64,
    pub tx_ts_withheld: u64,
    pub tx_ts_late: u64,
    pub tx_ts_skewed: u64,
    pub sockets_opened: u64,
}

struct Net {
    ifaces: Vec<Iface>,
    socks: Vec<Sock>,
    pending: BTreeMap<(u64, u64), Pending>,
    pending_seq: u64,
    pending_notify: Arc<Notify>,
    emitted: Vec<Emitted>,
    emit_seq: u64,
    emit_notify: Arc<Notify>,
    tx_faults: Vec<TxFault>,
    loop_delay_ns: u64,
    digest: Fnv,
    stats: Stats,
}

impl Net {
    fn new() -> Self {
        Net {
            ifaces: Vec::new(),
            socks: Vec::new(),
            pending: BTreeMap::new(),
            pending_seq: 0,
            pending_notify: Arc::new(Notify::new()),
            emitted: Vec::new(),
            emit_seq: 0,
            emit_notify: Arc::new(Notify::new()),
            tx_faults: Vec::new(),
            loop_delay_ns: 50_000,
            digest: Fnv::new(),
            stats: Stats::default(),
        }
    }
}

thread_local! {
    static NET: RefCell<Net> = RefCell::new(Net::new());
}

// ---------------------------------------------------------------- harness API

/// forget everything (new scenario)
pub fn reset() {
    NET.with(|n| *n.borrow_mut() = Net::new());
}

pub fn add_iface(i: Iface) -> usize {
    NET.with(|n| {
        let mut n = n.borrow_mut();
        n.ifaces.push(i);
        n.ifaces.len() - 1
    })
}

pub fn set_tx_faults(f: Vec<TxFault>) {
    NET.with(|n| n.borrow_mut().tx_faults = f);
}

pub fn set_loop_delay_ns(d: u64) {
    NET.with(|n| n.borrow_mut().loop_delay_ns = d);
}

pub fn iface_list() -> Vec<Iface> {
    NET.with(|n| n.borrow().ifaces.clone())
}

pub fn iface_by_name(name: &str) -> Option<Iface> {
    NET.with(|n| n.borrow().ifaces.iter().find(|i| i.name == name).cloned())
}

/// frames the code under test sent since the last call
pub fn take_emitted() -> Vec<Emitted> {
    NET.with(|n| std::mem::take(&mut n.borrow_mut().emitted))
}

/// notified (permit semantics) whenever a frame is emitted
pub fn emit_notify() -> Arc<Notify> {
    NET.with(|n| n.borrow().emit_notify.clone())
}

pub fn stats() -> Stats {
    NET.with(|n| n.borrow().stats.clone())
}

/// digest over every frame emitted and every frame delivered, with instants
pub fn digest() -> u64 {
    NET.with(|n| n.borrow().digest.0)
}

/// sockets currently open: (iface, kind)
pub fn open_sockets() -> Vec<(usize, SockKind)> {
    NET.with(|n| n.borrow().socks.iter().filter(|s| s.open).map(|s| (s.iface, s.kind)).collect())
}

/// Hand a frame to the network: it arrives at `iface` at virtual instant `arrival_ns`.
pub fn inject(iface: usize, dest: SimAddr, src: SimAddr, bytes: Vec<u8>, arrival_ns: u64) {
    NET.with(|n| {
        let mut n = n.borrow_mut();
        n.stats.injected += 1;
        let seq = n.pending_seq;
        n.pending_seq += 1;
        n.pending.insert((arrival_ns, seq), Pending { iface, dest, src, bytes, from_sock: None });
        n.pending_notify.notify_one();
    });
}

/// The delivery task: spawn it once per runtime, before the code under test starts.
pub async fn delivery_task() {
    let start = simclock::sim::start_instant();
    let notify = NET.with(|n| n.borrow().pending_notify.clone());
    loop {
        let next = NET.with(|n| n.borrow().pending.keys().next().copied());
        match next {
            None => notify.notified().await,
            Some((at, _)) => {
                let now = simclock::sim::vt_ns();
                if at <= now {
                    deliver_due(now);
                    continue;
                }
                tokio::select! {
                    biased;
                    _ = tokio::time::sleep_until(start + std::time::Duration::from_nanos(at)) => {}
                    _ = notify.notified() => {}
                }
            }
        }
    }
}

fn is_event_message(bytes: &[u8]) -> bool {
    !bytes.is_empty() && (bytes[0] & 0x0f) < 8
}

fn deliver_due(now: u64) {
    NET.with(|n| {
        let mut guard = n.borrow_mut();
        let n = &mut *guard;
        loop {
            let Some((&(at, seq), _)) = n.pending.iter().next() else { break };
            if at > now {
                break;
            }
            let p = n.pending.remove(&(at, seq)).unwrap();
            let mut hit = false;
            for sid in 0..n.socks.len() {
                let s = &n.socks[sid];
                if !s.open || s.iface != p.iface || Some(sid) == p.from_sock {
                    continue;
                }
                let port_ok = match (s.kind, p.dest) {
                    (SockKind::Udp4(port), SimAddr::V4(_, dp)) => port == dp,
                    (SockKind::Udp6(port), SimAddr::V6(_, dp)) => port == dp,
                    (SockKind::Eth(proto), SimAddr::Eth { proto: dp, .. }) => proto == dp,
                    _ => false,
                };
                if !port_ok {
                    continue;
                }
                let addr_ok = if p.dest.is_multicast() {
                    s.groups.contains(&p.dest.group_key())
                } else {
                    match p.dest {
                        SimAddr::Eth { mac, .. } => mac == n.ifaces[s.iface].mac,
                        SimAddr::V4(ip, _) => n.ifaces[s.iface].addrs.iter().any(|a| a.ip() == std::net::IpAddr::V4(ip)),
                        SimAddr::V6(ip, _) => n.ifaces[s.iface].addrs.iter().any(|a| a.ip() == std::net::IpAddr::V6(ip)),
                    }
                };
                if !addr_ok {
                    continue;
                }
                let clock = match s.ts {
                    TsSource::None => None,
                    TsSource::Software => Some(simclock::sim::SYSTEM),
                    TsSource::HardwareAll => s.phc_clock,
                    TsSource::HardwarePtp => {
                        if is_event_message(&p.bytes) {
                            s.phc_clock
                        } else {
                            None
                        }
                    }
                };
                let ts = clock.map(|c| {
                    let r = simclock::sim::read_at(c, at as i64);
                    (r.div_euclid(1_000_000_000) as i64, r.rem_euclid(1_000_000_000) as u32)
                });
                hit = true;
                let mut h = n.digest;
                h.byte(0xd1);
                h.u64(now);
                h.u64(at);
                h.u64(sid as u64);
                h.bytes(&p.bytes);
                if let Some((a, b)) = ts {
                    h.u64(a as u64);
                    h.u64(b as u64);
                }
                n.digest = h;
                n.stats.delivered += 1;
                let s = &mut n.socks[sid];
                s.rx.push_back(Packet { bytes: p.bytes.clone(), src: p.src, ts });
                s.notify.notify_one();
            }
            if !hit {
                n.stats.undeliverable += 1;
            }
        }
    });
}

// ----------------------------------------------------------------- facade side

pub(crate) fn open_socket(iface_name: &str, kind: SockKind, ts: TsSource, tx_ts: bool, bind_phc: Option<u32>) -> std::io::Result<(usize, Arc<Notify>)> {
    simclock::sim::tick();
    NET.with(|n| {
        let mut n = n.borrow_mut();
        let Some(ii) = n.ifaces.iter().position(|i| i.name == iface_name) else {
            return Err(std::io::Error::from_raw_os_error(libc::ENODEV));
        };
        let phc_clock = match ts {
            TsSource::HardwareAll | TsSource::HardwarePtp => {
                // an explicitly bound PHC wins, otherwise the interface's own
                let c = match bind_phc {
                    Some(idx) => simclock::sim::phc_by_path(&format!("/dev/ptp{idx}")),
                    None => n.ifaces[ii].phc_clock,
                };
                if c.is_none() {
                    // the driver refuses hardware timestamping
                    return Err(std::io::Error::from_raw_os_error(libc::EOPNOTSUPP));
                }
                c
            }
            _ => None,
        };
        let notify = Arc::new(Notify::new());
        n.socks.push(Sock { iface: ii, kind, ts, tx_ts, phc_clock, groups: Vec::new(), rx: VecDeque::new(), notify: notify.clone(), sends: 0, open: true });
        n.stats.sockets_opened += 1;
        Ok((n.socks.len() - 1, notify))
    })
}

pub(crate) fn close_socket(id: usize) {
    NET.with(|n| {
        if let Ok(mut n) = n.try_borrow_mut() {
            if let Some(s) = n.socks.get_mut(id) {
                s.open = false;
                s.rx.clear();
            }
        }
    });
}

pub(crate) fn socket_group(id: usize, g: GroupKey, join: bool) {
    NET.with(|n| {
        let mut n = n.borrow_mut();
        let s = &mut n.socks[id];
        if join {
            if !s.groups.contains(&g) {
                s.groups.push(g);
            }
        } else {
            s.groups.retain(|x| *x != g);
        }
    });
}

pub(crate) fn pop_rx(id: usize) -> Option<Packet> {
    simclock::sim::tick();
    NET.with(|n| n.borrow_mut().socks[id].rx.pop_front())
}

pub(crate) fn note_truncated() {
    NET.with(|n| n.borrow_mut().stats.rx_buffer_truncated += 1);
}

pub(crate) struct SendPlan {
    pub ts: Option<(i64, u32)>,
    pub fault: Option<TxFaultKind>,
    pub wants_ts: bool,
}

/// Everything a send does at the instant of the call: log, loop delivery, timestamp.
pub(crate) fn send(id: usize, bytes: &[u8], dest: SimAddr) -> SendPlan {
    simclock::sim::tick();
    let now = simclock::sim::vt_ns();
    NET.with(|n| {
        let mut guard = n.borrow_mut();
        let n = &mut *guard;
        let (iface, kind, tsrc, tx_ts, phc_clock, nth) = {
            let s = &mut n.socks[id];
            let nth = s.sends;
            s.sends += 1;
            (s.iface, s.kind, s.ts, s.tx_ts, s.phc_clock, nth)
        };
        let egress = n.ifaces[iface].egress_ns;
        let wire = now + egress;
        let fault = n.tx_faults.iter().find(|f| f.iface == iface && f.kind_of_socket == kind && f.nth == nth).map(|f| f.fault);
        let clock = match tsrc {
            TsSource::None => None,
            TsSource::Software => Some(simclock::sim::SYSTEM),
            TsSource::HardwareAll => phc_clock,
            // HWTSTAMP_TX_ON stamps every outgoing PTP frame the driver recognises; event only here
            TsSource::HardwarePtp => {
                if is_event_message(bytes) {
                    phc_clock
                } else {
                    None
                }
            }
        };
        let wants_ts = tx_ts && tsrc != TsSource::None;
        let mut ts = if wants_ts {
            clock.map(|c| {
                let r = simclock::sim::read_at(c, wire as i64);
                (r.div_euclid(1_000_000_000) as i64, r.rem_euclid(1_000_000_000) as u32)
            })
        } else {
            None
        };
        let mut applied = None;
        if wants_ts {
            match fault {
                Some(TxFaultKind::NoTimestamp) => {
                    ts = None;
                    n.stats.tx_ts_withheld += 1;
                    applied = fault;
                }
                Some(TxFaultKind::LateMs(_)) => {
                    n.stats.tx_ts_late += 1;
                    applied = fault;
                }
                Some(TxFaultKind::SkewNs(d)) => {
                    if let Some((s, ns)) = ts {
                        let t = s as i128 * 1_000_000_000 + ns as i128 + d as i128;
                        ts = Some((t.div_euclid(1_000_000_000) as i64, t.rem_euclid(1_000_000_000) as u32));
                        n.stats.tx_ts_skewed += 1;
                        applied = fault;
                    }
                }
                None => {}
            }
        }
        let seq = n.emit_seq;
        n.emit_seq += 1;
        let mut h = n.digest;
        h.byte(0xe1);
        h.u64(now);
        h.u64(iface as u64);
        dest.hash_into(&mut h);
        h.bytes(bytes);
        if let Some((a, b)) = ts {
            h.u64(a as u64);
            h.u64(b as u64);
        }
        n.digest = h;
        n.stats.emitted += 1;
        n.emitted.push(Emitted { seq, vt_ns: now, wire_ns: wire, iface, sock: kind, dest, bytes: bytes.to_vec(), tx_ts: ts, tx_fault: applied });
        n.emit_notify.notify_one();
        // other interfaces of the code under test on the same segment
        let seg = n.ifaces[iface].segment;
        let src = match kind {
            SockKind::Udp4(p) => SimAddr::V4(
                n.ifaces[iface].addrs.iter().find_map(|a| if let SocketAddr::V4(a) = a { Some(*a.ip()) } else { None }).unwrap_or(Ipv4Addr::UNSPECIFIED),
                p,
            ),
            SockKind::Udp6(p) => SimAddr::V6(
                n.ifaces[iface].addrs.iter().find_map(|a| if let SocketAddr::V6(a) = a { Some(*a.ip()) } else { None }).unwrap_or(Ipv6Addr::UNSPECIFIED),
                p,
            ),
            SockKind::Eth(proto) => SimAddr::Eth { proto, mac: n.ifaces[iface].mac, ifindex: n.ifaces[iface].index as i32 },
        };
        let others: Vec<usize> = (0..n.ifaces.len()).filter(|j| *j != iface && n.ifaces[*j].segment == seg).collect();
        for j in others {
            let at = wire + n.loop_delay_ns;
            let pseq = n.pending_seq;
            n.pending_seq += 1;
            n.pending.insert((at, pseq), Pending { iface: j, dest, src, bytes: bytes.to_vec(), from_sock: Some(id) });
            n.pending_notify.notify_one();
        }
        SendPlan { ts, fault: applied, wants_ts }
    })
}
