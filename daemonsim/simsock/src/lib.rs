//! Facade for `timestamped-socket` 0.2.8: the public API subset used by
//! /repo/statime-linux/src/{main.rs,socket.rs,clock/mod.rs,config/mod.rs}
//! (`interface`, `networkaddress`, `socket`) over a per-thread simulated
//! network (`sim`). No file descriptor, no real socket, no wall clock.
pub mod interface;
pub mod networkaddress;
pub mod sim;
pub mod socket;
