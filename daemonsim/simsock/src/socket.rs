//! `timestamped_socket::socket` over the simulated network: same public types
//! and signatures (`recv`, `send_to`, `send`, `join_multicast`, `open_interface_*`).
use std::{marker::PhantomData, net::{SocketAddrV4, SocketAddrV6}, sync::Arc};

use tokio::sync::Notify;

use crate::{
    interface::InterfaceName,
    networkaddress::{sealed::PrivateToken, EthernetAddress, MulticastJoinable, NetworkAddress},
    sim::{self, SockKind, TsSource, TxFaultKind},
};

#[derive(Debug, Clone, Copy, Eq, PartialEq, PartialOrd, Ord, Hash, Default)]
pub struct Timestamp {
    pub seconds: i64,
    pub nanos: u32,
}

#[derive(Debug, Clone, Copy, PartialEq, Eq, Hash, Default)]
pub enum GeneralTimestampMode {
    SoftwareAll,
    SoftwareRecv,
    #[default]
    None,
}

#[derive(Debug, Clone, Copy, PartialEq, Eq, Hash, Default)]
pub enum InterfaceTimestampMode {
    HardwareAll,
    HardwareRecv,
    HardwarePTPAll,
    HardwarePTPRecv,
    SoftwareAll,
    SoftwareRecv,
    #[default]
    None,
}

impl From<GeneralTimestampMode> for InterfaceTimestampMode {
    fn from(value: GeneralTimestampMode) -> Self {
        match value {
            GeneralTimestampMode::SoftwareAll => InterfaceTimestampMode::SoftwareAll,
            GeneralTimestampMode::SoftwareRecv => InterfaceTimestampMode::SoftwareRecv,
            GeneralTimestampMode::None => InterfaceTimestampMode::None,
        }
    }
}

#[derive(Debug, Clone, Copy, PartialEq, Eq, Hash)]
pub struct RecvResult<A> {
    pub bytes_read: usize,
    pub remote_addr: A,
    pub timestamp: Option<Timestamp>,
}

#[derive(Debug)]
pub struct Socket<A, S> {
    timestamp_mode: InterfaceTimestampMode,
    id: usize,
    notify: Arc<Notify>,
    _addr: PhantomData<A>,
    _state: PhantomData<S>,
}

pub struct Open;
pub struct Connected;

impl<A, S> Drop for Socket<A, S> {
    fn drop(&mut self) {
        sim::close_socket(self.id);
    }
}

impl<A: NetworkAddress, S> Socket<A, S> {
    pub async fn recv(&self, buf: &mut [u8]) -> std::io::Result<RecvResult<A>> {
        loop {
            if let Some(p) = sim::pop_rx(self.id) {
                // datagram semantics: what does not fit is cut off
                let n = p.bytes.len().min(buf.len());
                if n < p.bytes.len() {
                    sim::note_truncated();
                }
                buf[..n].copy_from_slice(&p.bytes[..n]);
                let remote_addr = A::from_sim(p.src, PrivateToken).ok_or(std::io::ErrorKind::Other)?;
                return Ok(RecvResult {
                    bytes_read: n,
                    remote_addr,
                    timestamp: p.ts.map(|(seconds, nanos)| Timestamp { seconds, nanos }),
                });
            }
            self.notify.notified().await;
        }
    }

    async fn send_inner(&mut self, buf: &[u8], addr: A) -> std::io::Result<Option<Timestamp>> {
        let plan = sim::send(self.id, buf, addr.to_sim(PrivateToken));
        if matches!(self.timestamp_mode, InterfaceTimestampMode::HardwarePTPAll | InterfaceTimestampMode::SoftwareAll) && plan.wants_ts {
            // the real crate waits for the error queue, at most 200 ms
            match plan.fault {
                Some(TxFaultKind::NoTimestamp) => {
                    tokio::time::sleep(std::time::Duration::from_millis(200)).await;
                    return Ok(None);
                }
                Some(TxFaultKind::LateMs(ms)) => {
                    tokio::time::sleep(std::time::Duration::from_millis(ms.min(199) as u64)).await;
                }
                _ => tokio::task::yield_now().await,
            }
            Ok(plan.ts.map(|(seconds, nanos)| Timestamp { seconds, nanos }))
        } else {
            Ok(None)
        }
    }
}

impl<A: NetworkAddress> Socket<A, Open> {
    pub async fn send_to(&mut self, buf: &[u8], addr: A) -> std::io::Result<Option<Timestamp>> {
        self.send_inner(buf, addr).await
    }
}

impl<A: MulticastJoinable, S> Socket<A, S> {
    pub fn join_multicast(&self, addr: A, interface: InterfaceName) -> std::io::Result<()> {
        addr.join_multicast(self.id, interface, PrivateToken)
    }

    pub fn leave_multicast(&self, addr: A, interface: InterfaceName) -> std::io::Result<()> {
        addr.leave_multicast(self.id, interface, PrivateToken)
    }
}

fn ts_source(mode: InterfaceTimestampMode) -> (TsSource, bool) {
    use InterfaceTimestampMode::*;
    match mode {
        HardwareAll => (TsSource::HardwareAll, true),
        HardwareRecv => (TsSource::HardwareAll, false),
        HardwarePTPAll => (TsSource::HardwarePtp, true),
        HardwarePTPRecv => (TsSource::HardwarePtp, false),
        SoftwareAll => (TsSource::Software, true),
        SoftwareRecv => (TsSource::Software, false),
        None => (TsSource::None, false),
    }
}

fn open<A>(interface: InterfaceName, kind: SockKind, timestamping: InterfaceTimestampMode, bind_phc: Option<u32>) -> std::io::Result<Socket<A, Open>> {
    let (src, tx) = ts_source(timestamping);
    let (id, notify) = sim::open_socket(interface.as_str(), kind, src, tx, bind_phc)?;
    Ok(Socket { timestamp_mode: timestamping, id, notify, _addr: PhantomData, _state: PhantomData })
}

pub fn open_interface_udp4(
    interface: InterfaceName,
    port: u16,
    timestamping: InterfaceTimestampMode,
    bind_phc: Option<u32>,
) -> std::io::Result<Socket<SocketAddrV4, Open>> {
    open(interface, SockKind::Udp4(port), timestamping, bind_phc)
}

pub fn open_interface_udp6(
    interface: InterfaceName,
    port: u16,
    timestamping: InterfaceTimestampMode,
    bind_phc: Option<u32>,
) -> std::io::Result<Socket<SocketAddrV6, Open>> {
    open(interface, SockKind::Udp6(port), timestamping, bind_phc)
}

pub fn open_interface_ethernet(
    interface: InterfaceName,
    protocol: u16,
    timestamping: InterfaceTimestampMode,
    bind_phc: Option<u32>,
) -> std::io::Result<Socket<EthernetAddress, Open>> {
    if interface.get_index().is_none() {
        return Err(std::io::ErrorKind::InvalidInput.into());
    }
    open(interface, SockKind::Eth(protocol), timestamping, bind_phc)
}
