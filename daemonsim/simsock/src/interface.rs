//! `timestamped_socket::interface`: names are the real type (copied), the
//! interface list and the PHC lookup come from the simulated registry.
use std::{
    collections::HashMap,
    net::{IpAddr, SocketAddr},
    str::FromStr,
};

pub fn interfaces() -> std::io::Result<HashMap<InterfaceName, InterfaceData>> {
    simclock::sim::tick();
    let mut elements = HashMap::default();
    for i in crate::sim::iface_list() {
        let name = InterfaceName::from_str(&i.name).expect("simulated interface name");
        elements.insert(name, InterfaceData { socket_addrs: i.addrs.clone(), mac: Some(i.mac) });
    }
    Ok(elements)
}

pub fn lookup_phc(interface: InterfaceName) -> Option<u32> {
    simclock::sim::tick();
    crate::sim::iface_by_name(interface.as_str()).and_then(|i| i.phc)
}

#[derive(Default, Debug)]
pub struct InterfaceData {
    socket_addrs: Vec<SocketAddr>,
    mac: Option<[u8; 6]>,
}

impl InterfaceData {
    pub fn has_ip_addr(&self, address: IpAddr) -> bool {
        self.socket_addrs.iter().any(|socket_addr| socket_addr.ip() == address)
    }

    pub fn ips(&self) -> impl Iterator<Item = IpAddr> + '_ {
        self.socket_addrs.iter().map(|a| a.ip())
    }

    pub fn mac(&self) -> Option<[u8; 6]> {
        self.mac
    }
}

#[derive(Clone, Copy, PartialEq, Eq, Hash)]
pub struct InterfaceName {
    bytes: [u8; libc::IFNAMSIZ],
}

impl InterfaceName {
    pub fn as_str(&self) -> &str {
        std::str::from_utf8(self.bytes.as_slice()).unwrap_or_default().trim_end_matches('\0')
    }

    pub fn as_cstr(&self) -> &std::ffi::CStr {
        let first_null = self.bytes.iter().position(|b| *b == 0).unwrap();
        std::ffi::CStr::from_bytes_with_nul(&self.bytes[..=first_null]).unwrap()
    }

    pub fn to_ifr_name(self) -> [libc::c_char; libc::IFNAMSIZ] {
        let mut it = self.bytes.iter().copied();
        [0; libc::IFNAMSIZ].map(|_| it.next().unwrap_or(0) as libc::c_char)
    }

    pub fn from_socket_addr(local_addr: SocketAddr) -> std::io::Result<Option<Self>> {
        for i in crate::sim::iface_list() {
            if i.addrs.iter().any(|a| a.ip() == local_addr.ip()) {
                return Ok(InterfaceName::from_str(&i.name).ok());
            }
        }
        Ok(None)
    }

    pub fn get_index(&self) -> Option<libc::c_uint> {
        simclock::sim::tick();
        crate::sim::iface_by_name(self.as_str()).map(|i| i.index as libc::c_uint)
    }

    /// Do a lookup for the Physical Hardware Clock index for this interface.
    pub fn lookup_phc(&self) -> Option<u32> {
        lookup_phc(*self)
    }
}

impl std::fmt::Debug for InterfaceName {
    fn fmt(&self, f: &mut std::fmt::Formatter<'_>) -> std::fmt::Result {
        f.debug_tuple("InterfaceName").field(&self.as_str()).finish()
    }
}

impl std::fmt::Display for InterfaceName {
    fn fmt(&self, f: &mut std::fmt::Formatter<'_>) -> std::fmt::Result {
        self.as_str().fmt(f)
    }
}

impl std::str::FromStr for InterfaceName {
    type Err = ();

    fn from_str(s: &str) -> Result<Self, Self::Err> {
        let mut bytes = [0; libc::IFNAMSIZ];

        // >= so that we always retain a NUL byte at the end
        if s.len() >= bytes.len() {
            return Err(());
        }

        if s.is_empty() {
            return Err(());
        }

        let mut it = s.bytes();
        bytes = bytes.map(|_| it.next().unwrap_or_default());

        Ok(Self { bytes })
    }
}

impl<'de> serde::Deserialize<'de> for InterfaceName {
    fn deserialize<D>(deserializer: D) -> Result<Self, D::Error>
    where
        D: serde::Deserializer<'de>,
    {

        let s = <String as serde::Deserialize>::deserialize(deserializer)?;
        FromStr::from_str(&s).map_err(|_| serde::de::Error::custom("invalid interface name"))
    }
}
