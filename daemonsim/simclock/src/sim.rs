//! Simulated clocks: each one is an affine function of tokio's virtual time
//! (paused runtime), re-based whenever it is stepped or its frequency is set.
//! One registry per thread; clock 0 is the system clock (CLOCK_REALTIME, with
//! CLOCK_TAI = CLOCK_REALTIME + tai offset), further clocks are PTP hardware
//! clocks reachable as `/dev/ptp<idx>`.
use std::cell::RefCell;

pub const SYSTEM: usize = 0;

#[derive(Clone, Debug)]
pub struct SimClock {
    pub name: String,
    /// reading (ns since the unix epoch, UTC for the system clock) at `t0_ns`
    base_ns: i128,
    /// virtual instant (ns since `init`) of the last re-base
    t0_ns: i64,
    /// natural frequency error of the oscillator
    pub drift_ppm: f64,
    /// steering applied through set_frequency
    pub freq_ppm: f64,
    pub tai: i32,
    pub leap: u8,
    pub n_set_frequency: u64,
    pub n_step: u64,
    pub n_now: u64,
    pub n_set_leap: u64,
    pub n_set_tai: u64,
    pub last_step_ns: i128,
    pub max_abs_step_ns: i128,
}

impl SimClock {
    fn new(name: &str, reading0_ns: i128, drift_ppm: f64, tai: i32) -> Self {
        SimClock {
            name: name.to_string(),
            base_ns: reading0_ns,
            t0_ns: 0,
            drift_ppm,
            freq_ppm: 0.0,
            tai,
            leap: 0,
            n_set_frequency: 0,
            n_step: 0,
            n_now: 0,
            n_set_leap: 0,
            n_set_tai: 0,
            last_step_ns: 0,
            max_abs_step_ns: 0,
        }
    }
    /// reading at virtual instant `vt` (may lie before the last re-base: extrapolated)
    pub fn read(&self, vt: i64) -> i128 {
        let el = (vt - self.t0_ns) as i128;
        let ppm = self.drift_ppm + self.freq_ppm;
        let extra = ((el as f64) * ppm * 1e-6).round() as i128;
        self.base_ns + el + extra
    }
    fn rebase(&mut self, vt: i64) {
        self.base_ns = self.read(vt);
        self.t0_ns = vt;
    }
}

struct State {
    start: Option<tokio::time::Instant>,
    clocks: Vec<SimClock>,
    phc: Vec<(u32, usize)>,
    last_vt: u64,
    same_instant_ops: u64,
    total_ops: u64,
    leap_calls: Vec<u64>,
}

thread_local! {
    static ST: RefCell<State> = const { RefCell::new(State { start: None, clocks: Vec::new(), phc: Vec::new(), last_vt: 0, same_instant_ops: 0, total_ops: 0, leap_calls: Vec::new() }) };
}

/// more facade operations than this at one virtual instant = the code under test spins
pub const LIVELOCK_OPS: u64 = 3_000_000;

/// (Re)start the simulated time base at the current tokio instant and create
/// the system clock. Must be called on the runtime thread before the daemon boots.
pub fn init(system_reading0_ns: i128, drift_ppm: f64, tai: i32) {
    ST.with(|s| {
        let mut s = s.borrow_mut();
        s.start = Some(tokio::time::Instant::now());
        s.clocks.clear();
        s.phc.clear();
        s.clocks.push(SimClock::new("system", system_reading0_ns, drift_ppm, tai));
        s.last_vt = 0;
        s.same_instant_ops = 0;
        s.total_ops = 0;
        s.leap_calls.clear();
    });
}

/// virtual instants at which `set_leap_seconds` was called on the system clock
pub fn leap_calls() -> Vec<u64> {
    ST.with(|s| s.borrow().leap_calls.clone())
}

pub fn note_leap_call() {
    let vt = vt_ns();
    ST.with(|s| s.borrow_mut().leap_calls.push(vt));
}

pub fn start_instant() -> tokio::time::Instant {
    ST.with(|s| s.borrow().start.expect("simclock::sim::init not called"))
}

/// virtual time in ns since `init`
pub fn vt_ns() -> u64 {
    ST.with(|s| {
        let s = s.borrow();
        match s.start {
            Some(st) => (tokio::time::Instant::now() - st).as_nanos() as u64,
            None => 0,
        }
    })
}

/// Count one facade operation; a run-away loop at one virtual instant ends the
/// process with a marker the parent turns into a `daemon_livelock` verdict.
pub fn tick() {
    let vt = vt_ns();
    let spin = ST.with(|s| {
        let mut s = s.borrow_mut();
        s.total_ops += 1;
        if s.last_vt == vt {
            s.same_instant_ops += 1;
        } else {
            s.last_vt = vt;
            s.same_instant_ops = 0;
        }
        s.same_instant_ops > LIVELOCK_OPS
    });
    if spin {
        println!("@@LIVELOCK {vt}");
        std::process::exit(3);
    }
}

pub fn total_ops() -> u64 {
    ST.with(|s| s.borrow().total_ops)
}

/// add a PTP hardware clock reachable as /dev/ptp<idx>; returns its clock id
pub fn add_phc(idx: u32, reading0_ns: i128, drift_ppm: f64) -> usize {
    ST.with(|s| {
        let mut s = s.borrow_mut();
        let id = s.clocks.len();
        s.clocks.push(SimClock::new(&format!("ptp{idx}"), reading0_ns, drift_ppm, 0));
        s.phc.push((idx, id));
        id
    })
}

pub fn phc_by_path(path: &str) -> Option<usize> {
    let idx: u32 = path.strip_prefix("/dev/ptp")?.parse().ok()?;
    ST.with(|s| s.borrow().phc.iter().find(|(i, _)| *i == idx).map(|(_, id)| *id))
}

pub fn with_clock<R>(id: usize, f: impl FnOnce(&mut SimClock) -> R) -> R {
    ST.with(|s| f(&mut s.borrow_mut().clocks[id]))
}

pub fn read_at(id: usize, vt: i64) -> i128 {
    ST.with(|s| s.borrow().clocks[id].read(vt))
}

pub fn read_now(id: usize) -> i128 {
    read_at(id, vt_ns() as i64)
}

pub fn set_frequency(id: usize, ppm: f64) -> i128 {
    let vt = vt_ns() as i64;
    with_clock(id, |c| {
        c.rebase(vt);
        c.freq_ppm = ppm;
        c.n_set_frequency += 1;
        c.base_ns
    })
}

pub fn step(id: usize, offset_ns: i128) -> i128 {
    let vt = vt_ns() as i64;
    with_clock(id, |c| {
        c.rebase(vt);
        c.base_ns += offset_ns;
        c.n_step += 1;
        c.last_step_ns = offset_ns;
        c.max_abs_step_ns = c.max_abs_step_ns.max(offset_ns.abs());
        c.base_ns
    })
}

pub fn snapshot() -> Vec<SimClock> {
    ST.with(|s| s.borrow().clocks.clone())
}
