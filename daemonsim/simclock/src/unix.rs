//! `clock_steering::unix` over the simulated clocks.
use crate::{sim, Clock, LeapIndicator, TimeOffset, Timestamp};
use std::path::Path;
use std::time::Duration;

#[derive(Debug, Clone, Copy, PartialEq, Eq)]
enum Kind {
    Realtime,
    Tai,
    Phc(usize),
}

/// A Unix OS clock
#[derive(Debug, Clone, Copy)]
pub struct UnixClock {
    kind: Kind,
}

fn ts(ns: i128) -> Timestamp {
    Timestamp {
        seconds: ns.div_euclid(1_000_000_000) as libc::time_t,
        nanos: ns.rem_euclid(1_000_000_000) as u32,
    }
}

impl UnixClock {
    pub const CLOCK_REALTIME: Self = UnixClock { kind: Kind::Realtime };
    pub const CLOCK_TAI: Self = UnixClock { kind: Kind::Tai };

    /// Open a clock device: only the simulated `/dev/ptp<idx>` exist.
    pub fn open(path: impl AsRef<Path>) -> std::io::Result<Self> {
        sim::tick();
        let p = path.as_ref().to_string_lossy().to_string();
        match sim::phc_by_path(&p) {
            Some(id) => Ok(UnixClock { kind: Kind::Phc(id) }),
            None => Err(std::io::Error::from_raw_os_error(libc::ENOENT)),
        }
    }

    /// Two system (CLOCK_REALTIME) timestamps sandwiching one of the hardware clock.
    pub fn system_offset(&self) -> Result<(Timestamp, Timestamp, Timestamp), Error> {
        sim::tick();
        match self.kind {
            Kind::Phc(id) => {
                let vt = sim::vt_ns() as i64;
                // the three readings of PTP_SYS_OFFSET are a few hundred ns apart
                let t1 = sim::read_at(sim::SYSTEM, vt);
                let t2 = sim::read_at(id, vt + 400);
                let t3 = sim::read_at(sim::SYSTEM, vt + 800);
                Ok((ts(t1), ts(t2), ts(t3)))
            }
            _ => Err(Error::NotSupported),
        }
    }

    fn id(&self) -> usize {
        match self.kind {
            Kind::Realtime | Kind::Tai => sim::SYSTEM,
            Kind::Phc(id) => id,
        }
    }
}

impl Clock for UnixClock {
    type Error = Error;

    fn now(&self) -> Result<Timestamp, Self::Error> {
        sim::tick();
        let id = self.id();
        let mut ns = sim::read_now(id);
        sim::with_clock(id, |c| c.n_now += 1);
        if self.kind == Kind::Tai {
            ns += sim::with_clock(sim::SYSTEM, |c| c.tai) as i128 * 1_000_000_000;
        }
        Ok(ts(ns))
    }

    fn resolution(&self) -> Result<Timestamp, Self::Error> {
        Ok(Timestamp { seconds: 0, nanos: 1 })
    }

    fn get_frequency(&self) -> Result<f64, Self::Error> {
        sim::tick();
        if self.kind == Kind::Tai {
            return Err(Error::Invalid);
        }
        Ok(sim::with_clock(self.id(), |c| c.freq_ppm))
    }

    fn set_frequency(&self, frequency: f64) -> Result<Timestamp, Self::Error> {
        sim::tick();
        if self.kind == Kind::Tai {
            // clock_adjtime(CLOCK_TAI) is rejected by the kernel
            return Err(Error::Invalid);
        }
        // the kernel keeps the value in units of 2^-16 ppm and clamps it to +-500 ppm
        let scaled = (frequency * 65536.0).round().clamp(-32_768_000.0 + 1.0, 32_768_000.0 - 1.0);
        Ok(ts(sim::set_frequency(self.id(), scaled / 65536.0)))
    }

    fn step_clock(&self, offset: TimeOffset) -> Result<Timestamp, Self::Error> {
        sim::tick();
        if self.kind == Kind::Tai {
            return Err(Error::Invalid);
        }
        let ns = offset.seconds as i128 * 1_000_000_000 + offset.nanos as i128;
        Ok(ts(sim::step(self.id(), ns)))
    }

    fn set_leap_seconds(&self, leap_status: LeapIndicator) -> Result<(), Self::Error> {
        sim::tick();
        sim::with_clock(self.id(), |c| {
            c.leap = leap_status as u8;
            c.n_set_leap += 1;
        });
        if self.id() == sim::SYSTEM {
            sim::note_leap_call();
        }
        Ok(())
    }

    fn error_estimate_update(&self, _est_error: Duration, _max_error: Duration) -> Result<(), Self::Error> {
        Ok(())
    }

    fn disable_kernel_ntp_algorithm(&self) -> Result<(), Self::Error> {
        Ok(())
    }

    fn set_tai(&self, tai_offset: i32) -> Result<(), Error> {
        sim::tick();
        match self.kind {
            Kind::Phc(_) => Err(Error::NotSupported),
            _ => {
                sim::with_clock(sim::SYSTEM, |c| {
                    c.tai = tai_offset;
                    c.n_set_tai += 1;
                });
                Ok(())
            }
        }
    }

    fn get_tai(&self) -> Result<i32, Error> {
        sim::tick();
        match self.kind {
            // "hardware clock which doesn't have an offset anyway"
            Kind::Phc(_) => Ok(0),
            _ => Ok(sim::with_clock(sim::SYSTEM, |c| c.tai)),
        }
    }
}

/// Errors that can be thrown by modifying a unix clock
#[derive(Debug, Copy, Clone, PartialEq, Eq, Hash)]
pub enum Error {
    NoPermission,
    NoAccess,
    Invalid,
    NoDevice,
    NotSupported,
}

impl core::fmt::Display for Error {
    fn fmt(&self, f: &mut core::fmt::Formatter<'_>) -> core::fmt::Result {
        use Error::*;
        let msg = match self {
            NoPermission => "Insufficient permissions to interact with the clock.",
            NoAccess => "No access to the clock.",
            Invalid => "Invalid operation requested",
            NoDevice => "Clock device has gone away",
            NotSupported => "Clock operation requested is not supported by operating system.",
        };
        f.write_str(msg)
    }
}

impl std::error::Error for Error {}

impl Error {
    pub fn ignore_not_supported(res: Result<(), Error>) -> Result<(), Error> {
        match res {
            Err(Error::NotSupported) => Ok(()),
            other => other,
        }
    }
    fn into_raw_os_error(self) -> i32 {
        match self {
            Self::NoPermission => libc::EPERM,
            Self::NoAccess => libc::EACCES,
            Self::Invalid => libc::EINVAL,
            Self::NoDevice => libc::ENODEV,
            Self::NotSupported => libc::EOPNOTSUPP,
        }
    }
}

impl From<Error> for std::io::Error {
    fn from(value: Error) -> Self {
        std::io::Error::from_raw_os_error(value.into_raw_os_error())
    }
}
