//! Facade for `clock-steering` 0.2.1: same public items that
//! /repo/statime-linux/src/clock/mod.rs uses (`Clock` trait, `Timestamp`,
//! `TimeOffset`, `LeapIndicator`, `unix::{UnixClock, Error}`), over simulated
//! clocks (`sim`). Item definitions that carry no behaviour are copied from
//! the real crate so that the statime-linux sources compile unchanged.
use core::time::Duration;

pub mod sim;
pub mod unix;

/// A moment in time (offset from the unix epoch).
#[derive(Debug, Clone, Copy, PartialEq, Eq, PartialOrd, Ord, Hash, Default)]
pub struct Timestamp {
    pub seconds: libc::time_t,
    /// Nanos must be between 0 and 999999999 inclusive
    pub nanos: u32,
}

#[derive(Debug, Clone, Copy, PartialEq, Eq, PartialOrd, Ord, Hash, Default)]
pub struct TimeOffset {
    pub seconds: libc::time_t,
    /// Nanos must be between 0 and 999999999 inclusive
    pub nanos: u32,
}

/// Indicate whether a leap second must be applied
#[derive(Debug, Copy, Clone, PartialEq, Eq, Hash, Default)]
pub enum LeapIndicator {
    #[default]
    NoWarning,
    Leap61,
    Leap59,
    Unknown,
}

/// Trait for reading information from and modifying an OS clock
pub trait Clock {
    type Error: std::error::Error;

    fn now(&self) -> Result<Timestamp, Self::Error>;
    fn resolution(&self) -> Result<Timestamp, Self::Error>;
    /// unit: ppm (as the real crate hands it to the kernel)
    fn set_frequency(&self, frequency: f64) -> Result<Timestamp, Self::Error>;
    fn get_frequency(&self) -> Result<f64, Self::Error>;
    fn step_clock(&self, offset: TimeOffset) -> Result<Timestamp, Self::Error>;
    fn set_leap_seconds(&self, leap_status: LeapIndicator) -> Result<(), Self::Error>;
    fn disable_kernel_ntp_algorithm(&self) -> Result<(), Self::Error>;
    fn set_tai(&self, tai_offset: i32) -> Result<(), Self::Error>;
    fn get_tai(&self) -> Result<i32, Self::Error>;
    fn error_estimate_update(
        &self,
        estimated_error: Duration,
        maximum_error: Duration,
    ) -> Result<(), Self::Error>;
}
