//! Tells the crate where the statime tree lives (the scratch script rewrites
//! the path) so that `include!` picks up the unmodified daemon source.
const REPO: &str = "/repo";

fn main() {
    println!("cargo:rustc-env=DAEMONSIM_REPO={REPO}");
    println!("cargo:rerun-if-changed=build.rs");
    println!("cargo:rerun-if-changed={REPO}/statime-linux/src/main.rs");
}
