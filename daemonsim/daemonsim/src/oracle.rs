//! Oracles over the run log of one scenario. Written from the property
//! statements (C15: TLV forwarding, C12: no stuck states), not from what the
//! daemon currently does. The only inputs are the frames that crossed the
//! simulated wire (with their true instants), the scenario script and the
//! panic / task bookkeeping of the worker.
use crate::scenario::*;
use crate::worker::{Em, RunLog, ScenarioResult};
use ptpsim::wire::{self, Body, Frame, Tlv};
use vcommon::{Fnv, Violation};

fn violate(res: &mut ScenarioResult, property: &str, oracle: &str, key: String, message: String) {
    if res.violations.iter().any(|v| v.oracle == oracle && v.key == key) {
        return;
    }
    res.violations.push(Violation { property: property.to_string(), oracle: oracle.to_string(), key, message });
}

fn secs(ns: u64) -> String {
    format!("{}.{:06}", ns / 1_000_000_000, (ns % 1_000_000_000) / 1000)
}

fn short_site(loc: &str) -> String {
    // path relative to the statime tree, whatever copy of it was compiled
    for marker in ["/statime-linux/", "/statime/"] {
        if let Some(i) = loc.rfind(marker) {
            return loc[i + 1..].to_string();
        }
    }
    if let Some(i) = loc.find("/registry/src/") {
        return loc[i + 14..].splitn(2, '/').nth(1).unwrap_or(loc).to_string();
    }
    loc.to_string()
}

/// port state at instant `t` according to the daemon's own log ("new state for port ...")
fn state_at(log: &RunLog, port: usize, t: u64) -> String {
    let mut s = "Listening".to_string();
    for (tt, p, _a, b) in &log.transitions {
        if *p == port && *tt <= t {
            s = b.clone();
        }
    }
    s
}

pub fn evaluate(scn: &Scenario, log: &RunLog, res: &mut ScenarioResult) {
    let prop = scn.property.as_str();
    common(scn, log, res, prop);
    match prop {
        "C15" => c15(scn, log, res),
        "C12" => c12(scn, log, res),
        "C19" => c19(scn, log, res),
        _ => {}
    }
    res.shape = shape(scn, res);
}

/// oracles shared by both checks: panics, ended tasks, undecodable frames, hangs
fn common(scn: &Scenario, log: &RunLog, res: &mut ScenarioResult, prop: &str) {
    for (m, l) in &log.panics {
        let msg: String = m.chars().take(100).collect();
        violate(res, prop, &format!("{prop}.daemon_panic"), format!("site={} msg={}", short_site(l), msg), format!("a daemon task panicked: {m} at {l}"));
    }
    if log.daemon_finished && log.panics.is_empty() {
        violate(res, prop, &format!("{prop}.daemon_main_task_ended"), "task=actual_main".into(), "actual_main returned although `run` never should".into());
    }
    for e in &log.em {
        res.oracle_evals += 1;
        let mode = scn.daemon.ports[e.port].mode.name();
        match Frame::decode(&e.bytes) {
            Err(err) => violate(
                res,
                prop,
                &format!("{prop}.daemon_emits_undecodable_frame"),
                format!("mode={mode} class={} error={err:?}", e.class.name()),
                format!("t={} port {} emitted {} bytes the reference codec rejects ({err:?}): {}", secs(e.t_ns), e.port, e.bytes.len(), hex(&e.bytes[..e.bytes.len().min(64)])),
            ),
            Ok(f) => {
                if e.bytes.len() > 1024 || f.hdr.length as usize != e.bytes.len() {
                    violate(
                        res,
                        prop,
                        &format!("{prop}.daemon_emits_malformed_frame"),
                        format!("mode={mode} class={} kind={}", e.class.name(), if e.bytes.len() > 1024 { "longer_than_1024" } else { "length_field_mismatch" }),
                        format!("t={} port {} emitted a {} of {} bytes with messageLength {}", secs(e.t_ns), e.port, e.class.name(), e.bytes.len(), f.hdr.length),
                    );
                }
                if f.hdr.source.clock != scn.daemon.identity {
                    violate(
                        res,
                        prop,
                        &format!("{prop}.daemon_identity_unexpected"),
                        format!("identity_in_config={}", scn.daemon.identity_in_config),
                        format!("frames carry sourcePortIdentity {} but the scenario expects {}", hex(&f.hdr.source.clock), hex(&scn.daemon.identity)),
                    );
                }
            }
        }
    }
    for l in log.daemon_log.iter().filter(|l| l.level == 1 && l.msg.contains("Statime bug")) {
        let k: String = l.msg.chars().filter(|c| !c.is_ascii_digit()).take(70).collect();
        violate(res, prop, &format!("{prop}.daemon_reports_internal_error"), format!("log={k}"), format!("t={} the daemon logged: {}", secs(l.t_ns), l.msg));
    }
    // hang: nothing at all leaves the daemon for longer than any state allows
    let i_max = scn.daemon.ports.iter().map(|p| p.announce_ns()).max().unwrap_or(1_000_000_000);
    let rt_max = scn.daemon.ports.iter().map(|p| p.receipt_timeout as u64).max().unwrap_or(3);
    let bound = (2 * rt_max + 8) * i_max;
    let mut last = 0u64;
    let mut last_class = "boot";
    // an Announce that reaches the daemon legitimately re-arms an announce receipt timer (a Listening
    // port stays silent for another timeout): the clock of the hang test restarts there as well
    let mut marks: Vec<(u64, &'static str, bool)> = log.em.iter().map(|e| (e.t_ns, e.class.name(), true)).collect();
    marks.extend(log.inj.iter().filter(|i| !i.dropped && i.class.name() == "Announce").map(|i| (i.arrival_ns, "announce_received", false)));
    marks.sort_by_key(|m| m.0);
    for e in marks.iter().map(|m| (m.0, m.1)).chain(std::iter::once((log.end_ns, "end"))) {
        if e.0 > last + bound && log.panics.is_empty() {
            violate(
                res,
                prop,
                &format!("{prop}.daemon_hang"),
                format!("after={last_class}"),
                format!("no frame left the daemon between t={} and t={} (more than (2*receipt_timeout+8) announce intervals = {} s)", secs(last), secs(e.0), bound / 1_000_000_000),
            );
            break;
        }
        last = e.0;
        last_class = e.1;
    }
}

// ------------------------------------------------------------------------ C15

#[derive(Clone, Debug)]
struct Expect {
    arrival: u64,
    seq: u16,
    tlv: Tlv,
}

fn is_path(t: &Tlv) -> bool {
    t.typ == wire::TLV_PATH_TRACE
}

fn tlv_str(t: &Tlv) -> String {
    format!("{:04x}:{}({})", t.typ, hex(&t.value[..t.value.len().min(6)]), t.value.len())
}

fn c15(scn: &Scenario, log: &RunLog, res: &mut ScenarioResult) {
    let prop = "C15";
    let sp = scn.slave_port;
    let warm = scn.warmup_ms * MS;
    let parent = &scn.peers[0];
    let pt = scn.daemon.path_trace;
    let n_lost_ts = scn.faults.iter().filter(|f| matches!(f, Fault::TxTimestamp { .. })).count() as u64;
    let bmca = scn.bmca_interval_ns();

    // what the slave port received from its parent, in arrival order
    let mut expect: Vec<Expect> = Vec::new();
    let mut non_prop: Vec<Tlv> = Vec::new();
    let mut other_sender: Vec<Tlv> = Vec::new();
    let mut inj: Vec<&crate::worker::Inj> = log.inj.iter().filter(|i| i.class == Class::Announce && !i.dropped).collect();
    inj.sort_by_key(|i| i.arrival_ns);
    for i in inj {
        let Ok(f) = Frame::decode(&i.bytes) else { continue };
        for t in &f.tlvs {
            if is_path(t) {
                continue;
            }
            if i.peer == 0 && i.port == sp {
                if Tlv::propagates(t.typ) {
                    if i.arrival_ns >= warm {
                        expect.push(Expect { arrival: i.arrival_ns, seq: f.hdr.seq, tlv: t.clone() });
                    }
                } else {
                    non_prop.push(t.clone());
                }
            } else {
                other_sender.push(t.clone());
            }
        }
    }

    // established: by the end of the warm-up the slave port is silent (no Announce) and every other
    // port announces the parent's grandmaster
    let mut established = true;
    for (m, pc) in scn.daemon.ports.iter().enumerate() {
        let anns: Vec<(&Em, Frame)> = log.em.iter().filter(|e| e.port == m && e.class == Class::Announce).filter_map(|e| Frame::decode(&e.bytes).ok().map(|f| (e, f))).collect();
        if m == sp {
            if anns.iter().any(|(e, _)| e.t_ns >= warm) {
                established = false;
            }
        } else {
            let last_before = anns.iter().filter(|(e, _)| e.t_ns < warm).last();
            match last_before {
                Some((e, f)) if e.t_ns + 2 * pc.announce_ns() >= warm && f.announce().map(|a| a.gm_identity == parent.gm.identity).unwrap_or(false) => {}
                _ => established = false,
            }
            if anns.iter().any(|(e, f)| e.t_ns >= warm && f.announce().map(|a| a.gm_identity != parent.gm.identity).unwrap_or(true)) {
                established = false;
            }
        }
    }
    if !established {
        *res.probes.entry("c15_hierarchy_not_established_after_warmup".into()).or_insert(0) += 1;
        res.nontrivial = false;
        return;
    }
    res.nontrivial = !expect.is_empty();

    let expected_path: Vec<u8> = parent.path.iter().flat_map(|c| c.iter().copied()).chain(scn.daemon.identity.iter().copied()).collect();

    for (m, pc) in scn.daemon.ports.iter().enumerate() {
        if m == sp {
            continue;
        }
        let mode = pc.mode.name();
        let i_m = pc.announce_ns();
        let anns: Vec<(&Em, Frame)> = log.em.iter().filter(|e| e.port == m && e.class == Class::Announce && e.t_ns >= warm).filter_map(|e| Frame::decode(&e.bytes).ok().map(|f| (e, f))).collect();
        let mut matched: Vec<Option<u64>> = vec![None; expect.len()];
        let mut p = 0usize;
        for (e, f) in &anns {
            res.oracle_evals += 1;
            // path trace
            let paths: Vec<&Tlv> = f.tlvs.iter().filter(|t| is_path(t)).collect();
            if pt {
                let kind = if paths.is_empty() {
                    Some("missing")
                } else if paths.len() > 1 {
                    Some("duplicated")
                } else if paths[0].value != expected_path {
                    Some("not_parent_path_plus_own_identity")
                } else {
                    None
                };
                if let Some(kind) = kind {
                    violate(
                        res,
                        prop,
                        "C15.daemon_path_trace_wrong",
                        format!("mode={mode} kind={kind}"),
                        format!("t={} port {} Announce seq {} carries path {:?}, expected {}", secs(e.t_ns), m, f.hdr.seq, paths.iter().map(|t| hex(&t.value)).collect::<Vec<_>>(), hex(&expected_path)),
                    );
                }
            } else if !paths.is_empty() {
                violate(res, prop, "C15.daemon_forwards_unexpected_tlv", format!("mode={mode} origin=path_trace_while_option_off"), format!("t={} port {} Announce seq {} carries a PATH_TRACE TLV although path-trace is off", secs(e.t_ns), m, f.hdr.seq));
            }
            for t in f.tlvs.iter().filter(|t| !is_path(t)) {
                if p < expect.len() && expect[p].tlv == *t {
                    matched[p] = Some(e.t_ns);
                    p += 1;
                } else if let Some(q) = expect[p.min(expect.len())..].iter().position(|x| x.tlv == *t) {
                    // everything skipped over is reported below as dropped
                    matched[p + q] = Some(e.t_ns);
                    p = p + q + 1;
                } else if let Some(q) = expect[..p.min(expect.len())].iter().position(|x| x.tlv == *t) {
                    if matched[q].is_some() {
                        violate(res, prop, "C15.daemon_forwards_tlv_twice", format!("mode={mode}"), format!("port {} forwarded TLV {} (parent Announce seq {}) at t={} and again at t={}", m, tlv_str(t), expect[q].seq, secs(matched[q].unwrap()), secs(e.t_ns)));
                    } else {
                        matched[q] = Some(e.t_ns);
                        violate(res, prop, "C15.daemon_forwards_out_of_order", format!("mode={mode}"), format!("port {} forwarded TLV {} (arrived t={}) at t={} after TLVs that arrived later", m, tlv_str(t), secs(expect[q].arrival), secs(e.t_ns)));
                    }
                } else {
                    let origin = if other_sender.contains(t) {
                        "other_sender"
                    } else if non_prop.contains(t) {
                        "non_propagating_type"
                    } else if expect.iter().any(|x| x.tlv.typ == t.typ && x.tlv.value.len() >= 4 && t.value.len() >= 4 && x.tlv.value[..4] == t.value[..4]) {
                        "modified"
                    } else {
                        "unknown"
                    };
                    violate(res, prop, "C15.daemon_forwards_unexpected_tlv", format!("mode={mode} origin={origin}"), format!("t={} port {} Announce seq {} carries TLV {} which no Announce of the current parent justified", secs(e.t_ns), m, f.hdr.seq, tlv_str(t)));
                }
            }
        }
        // every expected TLV: exactly once, within two announce intervals of its arrival
        let slack = 20 * MS + n_lost_ts * 200 * MS;
        for (k, x) in expect.iter().enumerate() {
            res.oracle_evals += 1;
            let deadline = x.arrival + 2 * i_m + slack;
            match matched[k] {
                Some(t) if t <= deadline => {}
                Some(t) => violate(
                    res,
                    prop,
                    "C15.daemon_forwards_tlv_late",
                    format!("mode={mode}"),
                    format!("port {} forwarded TLV {} (arrived t={} on parent Announce seq {}) only at t={}, later than two announce intervals", m, tlv_str(&x.tlv), secs(x.arrival), x.seq, secs(t)),
                ),
                None => {
                    if deadline > log.end_ns {
                        *res.probes.entry("c15_tlv_still_in_flight_at_end".into()).or_insert(0) += 1;
                        continue;
                    }
                    // the port's Announces around the loss, and the nominal BMCA tick between them
                    let next: Vec<&(&Em, Frame)> = anns.iter().filter(|(e, _)| e.t_ns > x.arrival).take(2).collect();
                    let next_t = next.first().map(|(e, _)| e.t_ns);
                    let tick = ((x.arrival / bmca) + 1) * bmca;
                    let bmca_between = next_t.map(|n| tick <= n).unwrap_or(false);
                    violate(
                        res,
                        prop,
                        "C15.daemon_drops_queued_tlv",
                        format!("mode={mode}"),
                        format!(
                            "port {m} ({mode}) never forwarded TLV {} which arrived on the slave port {sp} at t={} on Announce seq {} of the current parent; port {m}'s next Announces went out at {:?} with TLVs {:?}; nominal BMCA run at t={} lies between arrival and that Announce: {}",
                            tlv_str(&x.tlv),
                            secs(x.arrival),
                            x.seq,
                            next.iter().map(|(e, _)| secs(e.t_ns)).collect::<Vec<_>>(),
                            next.iter().map(|(_, f)| f.tlvs.iter().map(tlv_str).collect::<Vec<_>>()).collect::<Vec<_>>(),
                            secs(tick),
                            bmca_between
                        ),
                    );
                }
            }
        }
        *res.probes.entry(format!("c15_tlvs_checked_{mode}")).or_insert(0) += expect.len() as u64;
        *res.probes.entry(format!("c15_tlvs_forwarded_{mode}")).or_insert(0) += matched.iter().filter(|m| m.is_some()).count() as u64;
    }
    *res.probes.entry("c15_non_propagating_tlvs_offered".into()).or_insert(0) += non_prop.len() as u64;
    *res.probes.entry("c15_other_sender_tlvs_offered".into()).or_insert(0) += other_sender.len() as u64;
}

// ------------------------------------------------------------------------ C12

fn gaps_outside(times: &[u64], lo: u64, hi: u64) -> Option<(u64, u64)> {
    times.windows(2).map(|w| (w[0], w[1])).find(|(a, b)| b - a < lo || b - a > hi)
}

fn c12(scn: &Scenario, log: &RunLog, res: &mut ScenarioResult) {
    let prop = "C12";
    let tail_start = scn.warmup_ms * MS;
    let (silence, probe_ns, tail_peer) = match &scn.tail {
        Tail::Silence { probe_ms, probe_peer } => (true, *probe_ms * MS, *probe_peer),
        Tail::BetterMaster { peer, probe_ms } => (false, *probe_ms * MS, *peer),
        Tail::None => return,
    };
    res.nontrivial = true;
    let variant = if silence { "silence" } else { "better_master" };
    let tail_port = scn.peers[tail_peer].port;
    let gm_tail = scn.peers[tail_peer].gm.identity;

    let bound_inst = scn.daemon.ports.iter().map(|p| (2 * p.receipt_timeout as u64 + 8) * p.announce_ns()).max().unwrap();
    for (m, pc) in scn.daemon.ports.iter().enumerate() {
        let mode = pc.mode.name();
        let i_a = pc.announce_ns();
        let silent_segment = silence || m != tail_port;
        // a silent port becomes master through its own receipt timer; becoming the better master's
        // slave is a BMCA decision that may have to wait for the receipt timeout of ANOTHER port
        // (the previous parent fell silent there), so that case gets the instance-wide bound
        let bound = if silent_segment { (2 * pc.receipt_timeout as u64 + 8) * i_a } else { bound_inst };
        let steady_from = tail_start + bound;
        // the probe changes what the probed port (and, through the BMCA, every other port) must do
        let steady_to = if m == tail_port || !silence { probe_ns } else { probe_ns };
        let times = |class: Class, from: u64, to: u64| -> Vec<u64> { log.em.iter().filter(|e| e.port == m && e.class == class && e.t_ns >= from && e.t_ns < to).map(|e| e.t_ns).collect() };
        *res.probes.entry(format!("c12_port_state_when_tail_began_{}", state_at(log, m, tail_start))).or_insert(0) += 1;
        // the variant names the situation of THIS port: a port on a silent segment of a daemon whose
        // other port hears the better master is in the silence situation
        let tail_kind = variant;
        let variant = if silent_segment { "silence" } else { "better_master" };

        // peer-delay bookkeeping: was the port ever answered by two responders, and cleanly since?
        let mut multi = false;
        let mut clean_after = false;
        for (_seq, _t, who) in &log.pdelay[m] {
            if who.len() >= 2 {
                multi = true;
                clean_after = false;
            } else if who.len() == 1 && multi {
                clean_after = true;
            }
        }

        if silent_segment {
            // (a) silence: master within the bound, then Announce and Sync at their intervals
            res.oracle_evals += 1;
            let ann = times(Class::Announce, tail_start, steady_to);
            let first_in_bound = ann.iter().any(|t| *t <= steady_from);
            let steady_ann = times(Class::Announce, steady_from, steady_to);
            let steady_sync = times(Class::Sync, steady_from, steady_to);
            let stuck_state = state_at(log, m, steady_from);
            if stuck_state == "Faulty" {
                // disabled by a peer-delay fault that never cleared: excepted by the property
                *res.probes.entry("c12_port_faulty_through_silence_excepted".into()).or_insert(0) += 1;
                continue;
            }
            if !first_in_bound || steady_ann.is_empty() {
                // how the port got into the state it is stuck in (daemon's own state log): a recovery
                // Faulty -> Listening requests no timer; if the port was Master before the fault no
                // announce receipt timer was pending either
                let hist: Vec<&(u64, usize, String, String)> = log.transitions.iter().filter(|t| t.1 == m && t.0 <= steady_from).collect();
                let recovered = hist.last().map(|t| t.2 == "Faulty" && t.3 == "Listening").unwrap_or(false);
                // state the port was in before its (possibly flapping Faulty <-> Listening) fault episode
                let mut before_fault = String::new();
                let mut prev: Option<(&str, &str)> = None;
                for t in &hist {
                    if t.3 == "Faulty" && t.2 != "Faulty" {
                        let flap = t.2 == "Listening" && prev == Some(("Faulty", "Listening"));
                        if !flap {
                            before_fault = t.2.clone();
                        }
                    }
                    prev = Some((t.2.as_str(), t.3.as_str()));
                }
                let armed = if recovered && before_fault == "Master" { "false" } else { "unknown" };
                let start = stuck_state.as_str();
                let still_polling = !times(Class::PdelayReq, steady_from, steady_to).is_empty();
                violate(
                    res,
                    prop,
                    "C12.not_master_after_silence",
                    format!("variant={variant} start={start} p2p={} receipt_timer_armed={armed} mode={mode} entered_by_recovery_from_faulty={recovered} state_before_fault={before_fault} tail={tail_kind}", pc.p2p),
                    format!(
                        "port {m} ({mode}, {}) emits no Announce within (2*{}+8) announce intervals after its segment fell silent at t={} (Announces in the tail: {}, Pdelay_Req still sent: {still_polling}); the daemon's log puts the port in state {stuck_state}; two peer-delay responders answered earlier: {multi}, a single one afterwards: {clean_after}",
                        if pc.p2p { "P2P" } else { "E2E" },
                        pc.receipt_timeout,
                        secs(tail_start),
                        ann.len()
                    ),
                );
                continue;
            }
            for (class, list, iv) in [(Class::Announce, &steady_ann, i_a), (Class::Sync, &steady_sync, pc.sync_ns())] {
                res.oracle_evals += 1;
                if list.is_empty() {
                    violate(res, prop, "C12.master_port_stops_sending", format!("variant={variant} class={} mode={mode} p2p={}", class.name(), pc.p2p), format!("port {m} is master after the silence bound but emits no {} between t={} and t={}", class.name(), secs(steady_from), secs(steady_to)));
                    continue;
                }
                // first and last emission must be within one interval (+10%) of the window edges
                let lo = iv * 9 / 10;
                let hi = iv * 11 / 10;
                let edge_first = list[0] - steady_from > hi;
                let edge_last = steady_to - list[list.len() - 1] > hi;
                if let Some((a, b)) = gaps_outside(list, lo, hi) {
                    violate(
                        res,
                        prop,
                        "C12.master_cadence_off",
                        format!("variant={variant} class={} mode={mode} p2p={} kind={}", class.name(), pc.p2p, if b - a > hi { "gap_too_long" } else { "gap_too_short" }),
                        format!("port {m}: consecutive {} at t={} and t={} are {} ms apart, configured interval {} ms", class.name(), secs(a), secs(b), (b - a) / MS, iv / MS),
                    );
                } else if edge_first || edge_last {
                    violate(
                        res,
                        prop,
                        "C12.master_cadence_off",
                        format!("variant={variant} class={} mode={mode} p2p={} kind=stops_or_starts_late", class.name(), pc.p2p),
                        format!("port {m}: {} only between t={} and t={} inside the steady window {}..{}", class.name(), secs(list[0]), secs(list[list.len() - 1]), secs(steady_from), secs(steady_to)),
                    );
                }
            }
            // a two-step Sync is only half a message: its Follow_Up (sent once the host hands the
            // transmit timestamp back to the library) must follow
            res.oracle_evals += 1;
            let syncs: Vec<(u64, Frame)> = log.em.iter().filter(|e| e.port == m && e.class == Class::Sync && e.t_ns >= steady_from && e.t_ns + 300 * MS < steady_to).filter_map(|e| Frame::decode(&e.bytes).ok().map(|f| (e.t_ns, f))).collect();
            let fus: Vec<(u64, u16)> = log.em.iter().filter(|e| e.port == m && e.class == Class::FollowUp && e.t_ns >= steady_from).filter_map(|e| Frame::decode(&e.bytes).ok().map(|f| (e.t_ns, f.hdr.seq))).collect();
            if let Some((t, f)) = syncs.iter().find(|(t, f)| f.hdr.flag(wire::flag::TWO_STEP) && !fus.iter().any(|(ft, fs)| *fs == f.hdr.seq && *ft >= *t && *ft <= *t + 250 * MS)) {
                violate(
                    res,
                    prop,
                    "C12.sync_without_follow_up",
                    format!("variant={variant} mode={mode} p2p={}", pc.p2p),
                    format!("port {m}: two-step Sync seq {} at t={} was never completed by a Follow_Up ({} Syncs, {} Follow_Ups in the steady window)", f.hdr.seq, secs(*t), syncs.len(), fus.len()),
                );
            }
        } else {
            // (b) steadily announcing better master: slave within the bound, delay requests at cadence
            res.oracle_evals += 1;
            let late_ann = times(Class::Announce, steady_from, probe_ns);
            let late_sync = times(Class::Sync, steady_from, probe_ns);
            if !late_ann.is_empty() || !late_sync.is_empty() {
                violate(
                    res,
                    prop,
                    "C12.not_slave_of_better_master",
                    format!("variant={variant} mode={mode} p2p={}", pc.p2p),
                    format!("port {m} still emits Announce ({}) / Sync ({}) after t={} although endpoint {} (priority1 {}) announces steadily since t={}", late_ann.len(), late_sync.len(), secs(steady_from), scn.peers[tail_peer].name, scn.peers[tail_peer].gm.priority1.min(120), secs(tail_start)),
                );
                continue;
            }
            let class = if pc.p2p { Class::PdelayReq } else { Class::DelayReq };
            let reqs = times(class, steady_from, probe_ns);
            let iv = pc.delay_req_ns();
            let hi = iv * 21 / 10 + 5 * MS;
            res.oracle_evals += 1;
            if reqs.is_empty() || reqs[0] - steady_from > hi || probe_ns - reqs[reqs.len() - 1] > hi {
                violate(
                    res,
                    prop,
                    "C12.slave_sends_no_delay_requests",
                    format!("variant={variant} class={} mode={mode}", class.name()),
                    format!("port {m}: {} {} between t={} and t={} (first {:?}, last {:?}), configured interval {} ms", reqs.len(), class.name(), secs(steady_from), secs(probe_ns), reqs.first().map(|t| secs(*t)), reqs.last().map(|t| secs(*t)), iv / MS),
                );
            } else if let Some((a, b)) = gaps_outside(&reqs, 0, hi) {
                violate(
                    res,
                    prop,
                    "C12.delay_request_cadence_off",
                    format!("variant={variant} class={} mode={mode}", class.name()),
                    format!("port {m}: consecutive {} at t={} and t={} are {} ms apart, more than 2.1 x the configured {} ms", class.name(), secs(a), secs(b), (b - a) / MS, iv / MS),
                );
            }
        }
    }

    // BMCA liveness probe at the end of the tail
    let pc = &scn.daemon.ports[tail_port];
    let bound = bound_inst;
    let mode = pc.mode.name();
    res.oracle_evals += 1;
    if silence {
        // a better master appears on the probed port: the BMCA must take the port out of the master state
        let late: Vec<u64> = log.em.iter().filter(|e| e.port == tail_port && e.class == Class::Announce && e.t_ns >= probe_ns + bound).map(|e| e.t_ns).collect();
        if !late.is_empty() {
            violate(res, prop, "C12.bmca_loop_stalled", format!("variant={variant} probe=better_master_appears mode={mode} p2p={}", pc.p2p), format!("port {tail_port} still announces at t={} although a better master announces on its segment since t={}", secs(late[0]), secs(probe_ns)));
        }
        // and the other master ports must advertise the new grandmaster
        for (m, pm) in scn.daemon.ports.iter().enumerate() {
            if m == tail_port {
                continue;
            }
            let anns: Vec<Frame> = log.em.iter().filter(|e| e.port == m && e.class == Class::Announce && e.t_ns >= probe_ns + bound).filter_map(|e| Frame::decode(&e.bytes).ok()).collect();
            if let Some(f) = anns.iter().find(|f| f.announce().map(|a| a.gm_identity != gm_tail).unwrap_or(false)) {
                violate(res, prop, "C12.bmca_loop_stalled", format!("variant={variant} probe=grandmaster_not_adopted mode={}", pm.mode.name()), format!("port {m} still announces grandmaster {} (seq {}) long after the better master {} appeared at t={}", hex(&f.announce().unwrap().gm_identity), f.hdr.seq, hex(&gm_tail), secs(probe_ns)));
            }
        }
    } else {
        // the master disappears: receipt timeout, then the BMCA must make the instance its own grandmaster
        let anns: Vec<(u64, Frame)> = log.em.iter().filter(|e| e.port == tail_port && e.class == Class::Announce && e.t_ns >= probe_ns).filter_map(|e| Frame::decode(&e.bytes).ok().map(|f| (e.t_ns, f))).collect();
        let own = anns.iter().any(|(t, f)| *t <= probe_ns + bound && f.announce().map(|a| a.gm_identity == scn.daemon.identity).unwrap_or(false));
        if !own {
            violate(
                res,
                prop,
                "C12.no_recovery_after_master_loss",
                format!("variant={variant} probe=master_disappears mode={mode} p2p={} announces_seen={}", pc.p2p, !anns.is_empty()),
                format!("port {tail_port}: {} Announces after its master fell silent at t={}, none with the instance as grandmaster within (2*timeout+8) announce intervals", anns.len(), secs(probe_ns)),
            );
        }
    }
    let _ = Body::Sync { origin: wire::Ts::default() };
}


// ------------------------------------------------------------------------ C19

/// one BMCA round of the daemon, reconstructed from its debug log: every line the main task logs
/// during the poll that runs `instance.bmca()` (and publishes the state right after it)
#[derive(Clone, Debug)]
pub struct Round {
    pub t_ns: u64,
    pub poll: u64,
    /// port states right after the round
    pub states: Vec<String>,
    /// transitions the BMCA itself made: (port, from, to)
    pub changes: Vec<(usize, String, String)>,
}

pub fn rounds_of(np: usize, log: &RunLog) -> Vec<Round> {
    let mut state = vec!["Listening".to_string(); np];
    let mut rounds: Vec<Round> = Vec::new();
    let mut cur: Option<Round> = None;
    for l in &log.daemon_log {
        if let Some(r) = &cur {
            if l.poll != r.poll {
                let mut r = cur.take().unwrap();
                r.states = state.clone();
                rounds.push(r);
            }
        }
        if l.msg.starts_with(crate::logcap::ROUND_MARKER) {
            if cur.is_none() {
                cur = Some(Round { t_ns: l.t_ns, poll: l.poll, states: Vec::new(), changes: Vec::new() });
            }
            continue;
        }
        if let Some((p, a, b)) = crate::logcap::parse_transition(&l.msg) {
            if p < np {
                state[p] = b.clone();
                if let Some(r) = cur.as_mut() {
                    r.changes.push((p, a, b));
                }
            }
        }
    }
    if let Some(mut r) = cur.take() {
        r.states = state.clone();
        rounds.push(r);
    }
    rounds
}

fn masked(bytes: &[u8]) -> Option<serde_json::Value> {
    let mut v: serde_json::Value = serde_json::from_slice(bytes).ok()?;
    // the one wall-clock quantity (std::time::Instant in the observer)
    if let Some(p) = v.get_mut("program").and_then(|p| p.as_object_mut()) {
        p.insert("uptime_seconds".into(), serde_json::json!(0));
    }
    Some(v)
}

fn c19(scn: &Scenario, log: &RunLog, res: &mut ScenarioResult) {
    use statime_linux::metrics::exporter::ObservableState;
    let prop = "C19";
    let np = scn.daemon.ports.len();
    let rounds = rounds_of(np, log);
    let own = scn.daemon.identity;
    let zero = statime::time::Duration::ZERO;
    *res.probes.entry("c19_bmca_rounds".into()).or_insert(0) += rounds.len() as u64;

    // transitions outside the rounds (port tasks: receipt timeouts, peer-delay faults), with their instants
    let off_round: Vec<(u64, usize)> = log
        .daemon_log
        .iter()
        .filter(|l| !rounds.iter().any(|r| r.poll == l.poll))
        .filter_map(|l| crate::logcap::parse_transition(&l.msg).map(|(p, _, _)| (l.t_ns, p)))
        .collect();

    struct Doc {
        t_ns: u64,
        round: usize,
        state: ObservableState,
        value: serde_json::Value,
    }
    let mut docs: Vec<Doc> = Vec::new();
    let mut dig = Fnv::new();
    for o in &log.obs {
        res.oracle_evals += 1;
        match &o.result {
            Err(e) => {
                if o.t_ns > 0 {
                    let kind: String = e.chars().filter(|c| !c.is_ascii_digit()).take(40).collect();
                    violate(res, prop, "C19.observation_socket_unavailable", format!("kind={kind}"), format!("t={} reading the observation socket failed: {e}", secs(o.t_ns)));
                }
            }
            Ok(bytes) => {
                let parsed = serde_json::from_slice::<ObservableState>(bytes);
                let value = masked(bytes);
                match (parsed, value) {
                    (Ok(state), Some(value)) => {
                        dig.u64(o.rounds_before);
                        dig.str(&value.to_string());
                        if o.rounds_before == o.rounds_after {
                            docs.push(Doc { t_ns: o.t_ns, round: o.rounds_before as usize, state, value });
                        } else {
                            *res.probes.entry("c19_reads_overlapping_a_round_skipped".into()).or_insert(0) += 1;
                        }
                    }
                    (Err(e), _) => violate(
                        res,
                        prop,
                        "C19.observation_unparsable",
                        "reader=exporter_type".into(),
                        format!("t={} the {} bytes read from the observation socket do not deserialise as the exporter's ObservableState: {e}; start: {}", secs(o.t_ns), bytes.len(), String::from_utf8_lossy(&bytes[..bytes.len().min(80)])),
                    ),
                    (_, None) => violate(res, prop, "C19.observation_unparsable", "reader=json".into(), format!("t={} not JSON", secs(o.t_ns))),
                }
            }
        }
    }
    res.digest ^= dig.finish();
    *res.probes.entry("c19_documents_checked".into()).or_insert(0) += docs.len() as u64;

    let mut seen_nonzero_slave = false;
    let mut last_of_round: Option<usize> = None;
    let mut judged_round: Option<usize> = None;
    for (di, d) in docs.iter().enumerate() {
        res.oracle_evals += 1;
        let inst = &d.state.instance;
        // (d) nothing changes between two BMCA rounds
        if let Some(prev) = last_of_round {
            if docs[prev].round == d.round && docs[prev].value != d.value {
                violate(
                    res,
                    prop,
                    "C19.observation_changes_without_bmca",
                    "field=instance".into(),
                    format!("the documents read at t={} and t={} differ although no BMCA round ran in between (round {})", secs(docs[prev].t_ns), secs(d.t_ns), d.round),
                );
            }
        }
        last_of_round = Some(di);
        if d.round == 0 {
            // published by actual_main before the first round: no ports yet
            if !inst.port_ds.is_empty() || inst.current_ds.offset_from_master != zero || inst.current_ds.steps_removed != 0 {
                violate(res, prop, "C19.published_state_before_first_round_not_initial", String::new(), format!("t={} before the first BMCA round the observation shows {} ports, stepsRemoved {}", secs(d.t_ns), inst.port_ds.len(), inst.current_ds.steps_removed));
            }
            continue;
        }
        let Some(r) = rounds.get(d.round - 1) else { continue };
        let next_t = rounds.get(d.round).map(|n| n.t_ns).unwrap_or(log.end_ns);
        let published: Vec<String> = inst.port_ds.iter().map(|p| format!("{:?}", p.port_state)).collect();
        if published.len() != np {
            violate(res, prop, "C19.published_port_state_differs_from_behaviour", "kind=number_of_ports".into(), format!("t={} the observation lists {} ports, the daemon has {np}", secs(d.t_ns), published.len()));
            continue;
        }
        let any_slave = published.iter().any(|s| s == "Slave");
        let any_faulty = published.iter().any(|s| s == "Faulty");
        let cur = &inst.current_ds;
        let par = &inst.parent_ds;
        // (a) without a slave port the current data set has no offset and no delay, and the instance is
        // its own parent (unless a Faulty port holds the best master: S1 updates the data sets, not the port)
        if !any_slave {
            if cur.offset_from_master != zero || cur.mean_delay != zero {
                violate(
                    res,
                    prop,
                    "C19.published_offset_without_slave_port",
                    format!("kind=offset_or_delay_nonzero bmca_took_slave_role_away={}", r.changes.iter().any(|c| c.1 == "Slave")),
                    format!(
                        "observation read at t={} (published by the BMCA round at t={}): no port is Slave (ports {:?}) but offset_from_master={} ns, mean_delay={} ns; BMCA transitions of that round: {:?}",
                        secs(d.t_ns),
                        secs(r.t_ns),
                        published,
                        cur.offset_from_master.nanos_rounded(),
                        cur.mean_delay.nanos_rounded(),
                        r.changes
                    ),
                );
            }
            if !any_faulty && (cur.steps_removed != 0 || par.grandmaster_identity.0 != own || par.parent_port_identity.clock_identity.0 != own) {
                violate(
                    res,
                    prop,
                    "C19.published_offset_without_slave_port",
                    "kind=parent_not_own".into(),
                    format!("observation read at t={} (round at t={}): no port is Slave (ports {:?}) but stepsRemoved={}, parent {}, grandmaster {}", secs(d.t_ns), secs(r.t_ns), published, cur.steps_removed, hex(&par.parent_port_identity.clock_identity.0), hex(&par.grandmaster_identity.0)),
                );
            }
        } else if cur.offset_from_master != zero {
            seen_nonzero_slave = true;
        }
        // (a') a port the BMCA has just made slave (or given a new parent) has a fresh filter
        for (p, _a, b) in &r.changes {
            if b == "Slave" && published[*p] == "Slave" && !scn.daemon.ports[*p].p2p && r.changes.iter().filter(|c| c.2 == "Slave").count() == 1 && (cur.offset_from_master != zero || cur.mean_delay != zero) {
                violate(
                    res,
                    prop,
                    "C19.published_offset_of_new_slave_port",
                    format!("from={}", r.changes.iter().find(|c| c.0 == *p).map(|c| c.1.clone()).unwrap_or_default()),
                    format!(
                        "observation read at t={} (round at t={}): port {p} became slave in this very round ({:?}), its filter has no measurement yet, but offset_from_master={} ns, mean_delay={} ns",
                        secs(d.t_ns),
                        secs(r.t_ns),
                        r.changes,
                        cur.offset_from_master.nanos_rounded(),
                        cur.mean_delay.nanos_rounded()
                    ),
                );
            }
        }
        // (b) published port states = the states the daemon's own log gives right after the round
        for p in 0..np {
            if published[p] != r.states[p] {
                violate(
                    res,
                    prop,
                    "C19.published_port_state_differs_from_behaviour",
                    format!("kind=log published={} logged={}", published[p], r.states[p]),
                    format!("observation read at t={} (round at t={}): port {p} is published as {} but the daemon's state log has it in {} after that round", secs(d.t_ns), secs(r.t_ns), published[p], r.states[p]),
                );
            }
        }
        if judged_round == Some(d.round) {
            continue;
        }
        judged_round = Some(d.round);
        // ... and what the ports emit until the next round (unless a port task changed the state meanwhile)
        for p in 0..np {
            if off_round.iter().any(|(t, q)| *q == p && *t >= r.t_ns && *t <= next_t) {
                continue;
            }
            let pc = &scn.daemon.ports[p];
            let emitted = |class: Class| log.em.iter().filter(|e| e.port == p && e.class == class && e.t_ns > r.t_ns && e.t_ns < next_t).count();
            let (ann, syn, dreq) = (emitted(Class::Announce), emitted(Class::Sync), emitted(Class::DelayReq));
            let bad = match published[p].as_str() {
                "Master" => dreq > 0,
                "Slave" => ann > 0 || syn > 0,
                _ => ann > 0 || syn > 0 || dreq > 0,
            };
            if bad {
                violate(
                    res,
                    prop,
                    "C19.published_port_state_differs_from_behaviour",
                    format!("kind=emissions published={} p2p={}", published[p], pc.p2p),
                    format!("port {p} is published as {} by the round at t={} but emits {ann} Announce, {syn} Sync, {dreq} Delay_Req before the next round at t={}", published[p], secs(r.t_ns), secs(next_t)),
                );
            }
            // (c) a master port announces the published parent data
            if published[p] == "Master" {
                if let Some((t, f)) = log.em.iter().filter(|e| e.port == p && e.class == Class::Announce && e.t_ns > r.t_ns && e.t_ns < next_t).find_map(|e| Frame::decode(&e.bytes).ok().map(|f| (e.t_ns, f))) {
                    if let Some(a) = f.announce() {
                        if a.gm_identity != par.grandmaster_identity.0 || a.steps_removed != cur.steps_removed {
                            violate(
                                res,
                                prop,
                                "C19.published_parent_differs_from_announces",
                                format!("gm_equal={} steps_equal={}", a.gm_identity == par.grandmaster_identity.0, a.steps_removed == cur.steps_removed),
                                format!("round at t={} published grandmaster {} stepsRemoved {}, but port {p} (published Master) announces grandmaster {} stepsRemoved {} at t={}", secs(r.t_ns), hex(&par.grandmaster_identity.0), cur.steps_removed, hex(&a.gm_identity), a.steps_removed, secs(t)),
                            );
                        }
                    }
                }
            }
        }
    }
    // a port that stays Master over several rounds must announce
    for p in 0..np {
        let pc = &scn.daemon.ports[p];
        let mut start: Option<u64> = None;
        for (j, r) in rounds.iter().enumerate() {
            let next_t = rounds.get(j + 1).map(|n| n.t_ns).unwrap_or(log.end_ns);
            let disturbed = off_round.iter().any(|(t, q)| *q == p && *t >= r.t_ns && *t <= next_t);
            if r.states[p] == "Master" && !disturbed {
                let s = *start.get_or_insert(r.t_ns);
                let lost = scn.faults.iter().filter(|f| matches!(f, Fault::TxTimestamp { .. })).count() as u64;
                if next_t - s >= 2 * pc.announce_ns() + 100 * MS + lost * 200 * MS && !log.em.iter().any(|e| e.port == p && e.class == Class::Announce && e.t_ns >= s && e.t_ns <= next_t) {
                    violate(res, prop, "C19.published_port_state_differs_from_behaviour", "kind=master_without_announces".into(), format!("port {p} is Master from t={} to t={} (every round in between) but emits no Announce", secs(s), secs(next_t)));
                    start = None;
                }
            } else {
                start = None;
            }
        }
    }
    let moved = rounds.iter().filter(|r| r.changes.iter().any(|c| c.1 == "Slave")).count() as u64;
    *res.probes.entry("c19_rounds_where_the_bmca_took_or_moved_the_slave_role".into()).or_insert(0) += moved;
    res.nontrivial = seen_nonzero_slave && !docs.is_empty();
    if seen_nonzero_slave && moved > 0 {
        *res.probes.entry("c19_scenarios_with_nonzero_estimate_then_bmca_driven_change".into()).or_insert(0) += 1;
    }
}

// ---------------------------------------------------------------------- shapes

/// fingerprint of the scenario's shape (what "distinct" counts in the evidence)
fn shape(scn: &Scenario, res: &ScenarioResult) -> u64 {
    let mut h = Fnv::new();
    h.str(&scn.property);
    h.u64(scn.daemon.path_trace as u64);
    h.u64(scn.slave_port as u64);
    for p in &scn.daemon.ports {
        h.str(p.mode.name());
        h.u64(p.announce_log as u8 as u64);
        h.u64(p.sync_log as u8 as u64);
        h.u64(p.delay_log as u8 as u64);
        h.u64(p.receipt_timeout as u64);
        h.u64(p.p2p as u64);
    }
    for p in &scn.peers {
        h.u64(p.port as u64);
        h.u64(p.gm.priority1 as u64 / 16);
        h.u64(p.two_step as u64);
        for a in &p.ann_plan {
            // phase bucket of the burst and its TLV make-up
            let b = match a.aim_before_bmca_us {
                Some(x) => x,
                None => i64::MIN + (a.shift_us / 50_000),
            };
            h.u64(b as u64);
            h.u64(a.tlvs.iter().filter(|t| Tlv::propagates(t.typ)).count() as u64);
            h.u64(a.tlvs.len() as u64);
        }
    }
    for s in &scn.steps {
        h.str(&format!("{:?}", s.op));
    }
    for f in &scn.faults {
        h.str(&f.kind_name());
    }
    h.str(&format!("{:?}", std::mem::discriminant(&scn.tail)));
    h.u64(res.nontrivial as u64);
    h.finish()
}

// ----------------------------------------------------------------------- trace

/// human-readable history (replay output)
pub fn trace(scn: &Scenario, log: &RunLog) -> Vec<String> {
    let mut lines: Vec<(u64, String)> = Vec::new();
    let c15 = scn.property == "C15";
    let from = if c15 { (scn.warmup_ms * MS).saturating_sub(2 * scn.bmca_interval_ns()) } else { 0 };
    if c15 {
        let b = scn.bmca_interval_ns();
        let mut t = (from / b + 1) * b;
        while t < log.end_ns {
            lines.push((t, "   -- nominal BMCA run (k x min announce interval after boot)".to_string()));
            t += b;
        }
        for i in &log.inj {
            if i.class != Class::Announce || i.arrival_ns < from {
                continue;
            }
            let tl = Frame::decode(&i.bytes).map(|f| format!("seq {} tlvs {:?}", f.hdr.seq, f.tlvs.iter().map(tlv_str).collect::<Vec<_>>())).unwrap_or_default();
            lines.push((i.arrival_ns, format!("-> port {} ({}) Announce from {} {}{}", i.port, scn.daemon.ports[i.port].mode.name(), scn.peers[i.peer].name, tl, if i.dropped { " LOST" } else { "" })));
        }
        for e in &log.em {
            if e.class != Class::Announce || e.t_ns < from {
                continue;
            }
            let tl = Frame::decode(&e.bytes).map(|f| format!("seq {} gm {} tlvs {:?}", f.hdr.seq, f.announce().map(|a| hex(&a.gm_identity[5..])).unwrap_or_default(), f.tlvs.iter().map(tlv_str).collect::<Vec<_>>())).unwrap_or_else(|e| format!("UNDECODABLE {e:?}"));
            lines.push((e.t_ns, format!("<- port {} ({}) Announce {}", e.port, scn.daemon.ports[e.port].mode.name(), tl)));
        }
    } else {
        // runs of the same class per port and direction, collapsed
        for (i, s) in scn.steps.iter().enumerate() {
            lines.push((s.at_ms * MS, format!("   step {i}: {:?}", s.op)));
        }
        lines.push((scn.warmup_ms * MS, format!("   == tail starts: {:?}", scn.tail)));
        if let Tail::Silence { probe_ms, .. } | Tail::BetterMaster { probe_ms, .. } = &scn.tail {
            lines.push((*probe_ms * MS, "   == probe".to_string()));
        }
        let mut runs: Vec<(String, u64, u64, u64, u64, u64)> = Vec::new(); // label, first, last, n, min gap, max gap
        let mut all: Vec<(u64, String)> = Vec::new();
        for e in &log.em {
            all.push((e.t_ns, format!("<- port {} {}{}", e.port, e.class.name(), if e.tx_ts_missing { " (no tx timestamp)" } else { "" })));
        }
        for i in &log.inj {
            all.push((i.arrival_ns, format!("-> port {} {} from {}{}", i.port, i.class.name(), scn.peers[i.peer].name, if i.dropped { " LOST" } else { "" })));
        }
        all.sort();
        let mut open: std::collections::BTreeMap<String, usize> = Default::default();
        for (t, label) in all {
            match open.get(&label).copied() {
                Some(idx) if t - runs[idx].2 <= 4 * scn.daemon.ports.iter().map(|p| p.announce_ns()).max().unwrap() => {
                    let g = t - runs[idx].2;
                    let r = &mut runs[idx];
                    r.4 = r.4.min(g);
                    r.5 = r.5.max(g);
                    r.2 = t;
                    r.3 += 1;
                }
                _ => {
                    open.insert(label.clone(), runs.len());
                    runs.push((label, t, t, 1, u64::MAX, 0));
                }
            }
        }
        for (label, first, last, n, gmin, gmax) in runs {
            if n == 1 {
                lines.push((first, label));
            } else {
                lines.push((first, format!("{label} x{n} until t={} (gaps {}..{} ms)", secs(last), gmin / MS, gmax / MS)));
            }
        }
    }
    if scn.property == "C19" {
        let rounds = rounds_of(scn.daemon.ports.len(), log);
        for (j, r) in rounds.iter().enumerate() {
            if !r.changes.is_empty() {
                lines.push((r.t_ns, format!("   == BMCA round {} changes {:?} -> ports {:?}", j + 1, r.changes, r.states)));
            }
        }
        let mut last = String::new();
        for o in &log.obs {
            let text = match &o.result {
                Ok(b) => match serde_json::from_slice::<statime_linux::metrics::exporter::ObservableState>(b) {
                    Ok(st) => {
                        let i = &st.instance;
                        format!(
                            "ports {:?} stepsRemoved {} parent {} gm {} offset_from_master {} ns mean_delay {} ns",
                            i.port_ds.iter().map(|p| format!("{:?}", p.port_state)).collect::<Vec<_>>(),
                            i.current_ds.steps_removed,
                            hex(&i.parent_ds.parent_port_identity.clock_identity.0[5..]),
                            hex(&i.parent_ds.grandmaster_identity.0[5..]),
                            i.current_ds.offset_from_master.nanos_rounded(),
                            i.current_ds.mean_delay.nanos_rounded()
                        )
                    }
                    Err(e) => format!("UNPARSABLE {e}"),
                },
                Err(e) => format!("FAILED {e}"),
            };
            // only documents that differ from the previous one, in their coarse content
            let coarse: String = text.split(" offset_from_master").next().unwrap_or("").to_string() + if text.contains("offset_from_master 0 ns") { " zero" } else { " nonzero" };
            if coarse != last {
                lines.push((o.t_ns, format!("   >> observation (after round {}, {}): {}", o.rounds_before, o.why, text)));
                last = coarse;
            }
        }
    }
    for (t, p, a, b) in &log.transitions {
        if *t >= from {
            lines.push((*t, format!("   ** daemon log: port {p} {a} -> {b}")));
        }
    }
    for l in log.daemon_log.iter().filter(|l| l.level <= 2 && l.t_ns >= from).take(40) {
        lines.push((l.t_ns, format!("   ** daemon log ({}): {}", if l.level == 1 { "error" } else { "warn" }, l.msg)));
    }
    lines.sort_by(|a, b| a.0.cmp(&b.0));
    let mut out: Vec<String> = lines.into_iter().map(|(t, l)| format!("t={} {}", secs(t), l)).collect();
    for (m, l) in &log.panics {
        out.push(format!("PANIC {m} at {l}"));
    }
    out.push(format!("end t={} daemon clock - master clock = {} ns, clock steps {}, frequency updates {}", secs(log.end_ns), log.clock_offset_end_ns, log.clock_steps, log.clock_freq_sets));
    out
}
