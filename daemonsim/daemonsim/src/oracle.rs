//! Oracles over the run log of one scenario. Written from the property
//! statements (C15: TLV forwarding, C12: no stuck states), not from what the
//! daemon currently does. The only inputs are the frames that crossed the
//! simulated wire (with their true instants), the scenario script and the
//! panic / task bookkeeping of the worker.
use crate::scenario::*;
use crate::worker::{Em, RunLog, ScenarioResult};
use ptpsim::wire::{self, Body, Frame, Tlv};
use vcommon::{Fnv, Violation};

fn violate(res: &mut ScenarioResult, property: &str, oracle: &str, key: String, message: String) {
    if res.violations.iter().any(|v| v.oracle == oracle && v.key == key) {
        return;
    }
    res.violations.push(Violation { property: property.to_string(), oracle: oracle.to_string(), key, message });
}

fn secs(ns: u64) -> String {
    format!("{}.{:06}", ns / 1_000_000_000, (ns % 1_000_000_000) / 1000)
}

fn short_site(loc: &str) -> String {
    // path relative to the statime tree, whatever copy of it was compiled
    for marker in ["/statime-linux/", "/statime/"] {
        if let Some(i) = loc.rfind(marker) {
            return loc[i + 1..].to_string();
        }
    }
    if let Some(i) = loc.find("/registry/src/") {
        return loc[i + 14..].splitn(2, '/').nth(1).unwrap_or(loc).to_string();
    }
    loc.to_string()
}

/// port state at instant `t` according to the daemon's own log ("new state for port ...")
fn state_at(log: &RunLog, port: usize, t: u64) -> String {
    let mut s = "Listening".to_string();
    for (tt, p, _a, b) in &log.transitions {
        if *p == port && *tt <= t {
            s = b.clone();
        }
    }
    s
}

pub fn evaluate(scn: &Scenario, log: &RunLog, res: &mut ScenarioResult) {
    let prop = scn.property.as_str();
    common(scn, log, res, prop);
    match prop {
        "C15" => c15(scn, log, res),
        "C12" => c12(scn, log, res),
        _ => {}
    }
    res.shape = shape(scn, res);
}

/// oracles shared by both checks: panics, ended tasks, undecodable frames, hangs
fn common(scn: &Scenario, log: &RunLog, res: &mut ScenarioResult, prop: &str) {
    for (m, l) in &log.panics {
        let msg: String = m.chars().take(100).collect();
        violate(res, prop, &format!("{prop}.daemon_panic"), format!("site={} msg={}", short_site(l), msg), format!("a daemon task panicked: {m} at {l}"));
    }
    if log.daemon_finished && log.panics.is_empty() {
        violate(res, prop, &format!("{prop}.daemon_main_task_ended"), "task=actual_main".into(), "actual_main returned although `run` never should".into());
    }
    for e in &log.em {
        res.oracle_evals += 1;
        let mode = scn.daemon.ports[e.port].mode.name();
        match Frame::decode(&e.bytes) {
            Err(err) => violate(
                res,
                prop,
                &format!("{prop}.daemon_emits_undecodable_frame"),
                format!("mode={mode} class={} error={err:?}", e.class.name()),
                format!("t={} port {} emitted {} bytes the reference codec rejects ({err:?}): {}", secs(e.t_ns), e.port, e.bytes.len(), hex(&e.bytes[..e.bytes.len().min(64)])),
            ),
            Ok(f) => {
                if e.bytes.len() > 1024 || f.hdr.length as usize != e.bytes.len() {
                    violate(
                        res,
                        prop,
                        &format!("{prop}.daemon_emits_malformed_frame"),
                        format!("mode={mode} class={} kind={}", e.class.name(), if e.bytes.len() > 1024 { "longer_than_1024" } else { "length_field_mismatch" }),
                        format!("t={} port {} emitted a {} of {} bytes with messageLength {}", secs(e.t_ns), e.port, e.class.name(), e.bytes.len(), f.hdr.length),
                    );
                }
                if f.hdr.source.clock != scn.daemon.identity {
                    violate(
                        res,
                        prop,
                        &format!("{prop}.daemon_identity_unexpected"),
                        format!("identity_in_config={}", scn.daemon.identity_in_config),
                        format!("frames carry sourcePortIdentity {} but the scenario expects {}", hex(&f.hdr.source.clock), hex(&scn.daemon.identity)),
                    );
                }
            }
        }
    }
    for l in log.daemon_log.iter().filter(|l| l.level == 1 && l.msg.contains("Statime bug")) {
        let k: String = l.msg.chars().filter(|c| !c.is_ascii_digit()).take(70).collect();
        violate(res, prop, &format!("{prop}.daemon_reports_internal_error"), format!("log={k}"), format!("t={} the daemon logged: {}", secs(l.t_ns), l.msg));
    }
    // hang: nothing at all leaves the daemon for longer than any state allows
    let i_max = scn.daemon.ports.iter().map(|p| p.announce_ns()).max().unwrap_or(1_000_000_000);
    let rt_max = scn.daemon.ports.iter().map(|p| p.receipt_timeout as u64).max().unwrap_or(3);
    let bound = (2 * rt_max + 8) * i_max;
    let mut last = 0u64;
    let mut last_class = "boot";
    for e in log.em.iter().map(|e| (e.t_ns, e.class.name())).chain(std::iter::once((log.end_ns, "end"))) {
        if e.0 > last + bound && log.panics.is_empty() {
            violate(
                res,
                prop,
                &format!("{prop}.daemon_hang"),
                format!("after={last_class}"),
                format!("no frame left the daemon between t={} and t={} (more than (2*receipt_timeout+8) announce intervals = {} s)", secs(last), secs(e.0), bound / 1_000_000_000),
            );
            break;
        }
        last = e.0;
        last_class = e.1;
    }
}

// ------------------------------------------------------------------------ C15

#[derive(Clone, Debug)]
struct Expect {
    arrival: u64,
    seq: u16,
    tlv: Tlv,
}

fn is_path(t: &Tlv) -> bool {
    t.typ == wire::TLV_PATH_TRACE
}

fn tlv_str(t: &Tlv) -> String {
    format!("{:04x}:{}({})", t.typ, hex(&t.value[..t.value.len().min(6)]), t.value.len())
}

fn c15(scn: &Scenario, log: &RunLog, res: &mut ScenarioResult) {
    let prop = "C15";
    let sp = scn.slave_port;
    let warm = scn.warmup_ms * MS;
    let parent = &scn.peers[0];
    let pt = scn.daemon.path_trace;
    let n_lost_ts = scn.faults.iter().filter(|f| matches!(f, Fault::TxTimestamp { .. })).count() as u64;
    let bmca = scn.bmca_interval_ns();

    // what the slave port received from its parent, in arrival order
    let mut expect: Vec<Expect> = Vec::new();
    let mut non_prop: Vec<Tlv> = Vec::new();
    let mut other_sender: Vec<Tlv> = Vec::new();
    let mut inj: Vec<&crate::worker::Inj> = log.inj.iter().filter(|i| i.class == Class::Announce && !i.dropped).collect();
    inj.sort_by_key(|i| i.arrival_ns);
    for i in inj {
        let Ok(f) = Frame::decode(&i.bytes) else { continue };
        for t in &f.tlvs {
            if is_path(t) {
                continue;
            }
            if i.peer == 0 && i.port == sp {
                if Tlv::propagates(t.typ) {
                    if i.arrival_ns >= warm {
                        expect.push(Expect { arrival: i.arrival_ns, seq: f.hdr.seq, tlv: t.clone() });
                    }
                } else {
                    non_prop.push(t.clone());
                }
            } else {
                other_sender.push(t.clone());
            }
        }
    }

    // established: by the end of the warm-up the slave port is silent (no Announce) and every other
    // port announces the parent's grandmaster
    let mut established = true;
    for (m, pc) in scn.daemon.ports.iter().enumerate() {
        let anns: Vec<(&Em, Frame)> = log.em.iter().filter(|e| e.port == m && e.class == Class::Announce).filter_map(|e| Frame::decode(&e.bytes).ok().map(|f| (e, f))).collect();
        if m == sp {
            if anns.iter().any(|(e, _)| e.t_ns >= warm) {
                established = false;
            }
        } else {
            let last_before = anns.iter().filter(|(e, _)| e.t_ns < warm).last();
            match last_before {
                Some((e, f)) if e.t_ns + 2 * pc.announce_ns() >= warm && f.announce().map(|a| a.gm_identity == parent.gm.identity).unwrap_or(false) => {}
                _ => established = false,
            }
            if anns.iter().any(|(e, f)| e.t_ns >= warm && f.announce().map(|a| a.gm_identity != parent.gm.identity).unwrap_or(true)) {
                established = false;
            }
        }
    }
    if !established {
        *res.probes.entry("c15_hierarchy_not_established_after_warmup".into()).or_insert(0) += 1;
        res.nontrivial = false;
        return;
    }
    res.nontrivial = !expect.is_empty();

    let expected_path: Vec<u8> = parent.path.iter().flat_map(|c| c.iter().copied()).chain(scn.daemon.identity.iter().copied()).collect();

    for (m, pc) in scn.daemon.ports.iter().enumerate() {
        if m == sp {
            continue;
        }
        let mode = pc.mode.name();
        let i_m = pc.announce_ns();
        let anns: Vec<(&Em, Frame)> = log.em.iter().filter(|e| e.port == m && e.class == Class::Announce && e.t_ns >= warm).filter_map(|e| Frame::decode(&e.bytes).ok().map(|f| (e, f))).collect();
        let mut matched: Vec<Option<u64>> = vec![None; expect.len()];
        let mut p = 0usize;
        for (e, f) in &anns {
            res.oracle_evals += 1;
            // path trace
            let paths: Vec<&Tlv> = f.tlvs.iter().filter(|t| is_path(t)).collect();
            if pt {
                let kind = if paths.is_empty() {
                    Some("missing")
                } else if paths.len() > 1 {
                    Some("duplicated")
                } else if paths[0].value != expected_path {
                    Some("not_parent_path_plus_own_identity")
                } else {
                    None
                };
                if let Some(kind) = kind {
                    violate(
                        res,
                        prop,
                        "C15.daemon_path_trace_wrong",
                        format!("mode={mode} kind={kind}"),
                        format!("t={} port {} Announce seq {} carries path {:?}, expected {}", secs(e.t_ns), m, f.hdr.seq, paths.iter().map(|t| hex(&t.value)).collect::<Vec<_>>(), hex(&expected_path)),
                    );
                }
            } else if !paths.is_empty() {
                violate(res, prop, "C15.daemon_forwards_unexpected_tlv", format!("mode={mode} origin=path_trace_while_option_off"), format!("t={} port {} Announce seq {} carries a PATH_TRACE TLV although path-trace is off", secs(e.t_ns), m, f.hdr.seq));
            }
            for t in f.tlvs.iter().filter(|t| !is_path(t)) {
                if p < expect.len() && expect[p].tlv == *t {
                    matched[p] = Some(e.t_ns);
                    p += 1;
                } else if let Some(q) = expect[p.min(expect.len())..].iter().position(|x| x.tlv == *t) {
                    // everything skipped over is reported below as dropped
                    matched[p + q] = Some(e.t_ns);
                    p = p + q + 1;
                } else if let Some(q) = expect[..p.min(expect.len())].iter().position(|x| x.tlv == *t) {
                    if matched[q].is_some() {
                        violate(res, prop, "C15.daemon_forwards_tlv_twice", format!("mode={mode}"), format!("port {} forwarded TLV {} (parent Announce seq {}) at t={} and again at t={}", m, tlv_str(t), expect[q].seq, secs(matched[q].unwrap()), secs(e.t_ns)));
                    } else {
                        matched[q] = Some(e.t_ns);
                        violate(res, prop, "C15.daemon_forwards_out_of_order", format!("mode={mode}"), format!("port {} forwarded TLV {} (arrived t={}) at t={} after TLVs that arrived later", m, tlv_str(t), secs(expect[q].arrival), secs(e.t_ns)));
                    }
                } else {
                    let origin = if other_sender.contains(t) {
                        "other_sender"
                    } else if non_prop.contains(t) {
                        "non_propagating_type"
                    } else if expect.iter().any(|x| x.tlv.typ == t.typ && x.tlv.value.len() >= 4 && t.value.len() >= 4 && x.tlv.value[..4] == t.value[..4]) {
                        "modified"
                    } else {
                        "unknown"
                    };
                    violate(res, prop, "C15.daemon_forwards_unexpected_tlv", format!("mode={mode} origin={origin}"), format!("t={} port {} Announce seq {} carries TLV {} which no Announce of the current parent justified", secs(e.t_ns), m, f.hdr.seq, tlv_str(t)));
                }
            }
        }
        // every expected TLV: exactly once, within two announce intervals of its arrival
        let slack = 20 * MS + n_lost_ts * 200 * MS;
        for (k, x) in expect.iter().enumerate() {
            res.oracle_evals += 1;
            let deadline = x.arrival + 2 * i_m + slack;
            match matched[k] {
                Some(t) if t <= deadline => {}
                Some(t) => violate(
                    res,
                    prop,
                    "C15.daemon_forwards_tlv_late",
                    format!("mode={mode}"),
                    format!("port {} forwarded TLV {} (arrived t={} on parent Announce seq {}) only at t={}, later than two announce intervals", m, tlv_str(&x.tlv), secs(x.arrival), x.seq, secs(t)),
                ),
                None => {
                    if deadline > log.end_ns {
                        *res.probes.entry("c15_tlv_still_in_flight_at_end".into()).or_insert(0) += 1;
                        continue;
                    }
                    // the port's Announces around the loss, and the nominal BMCA tick between them
                    let next: Vec<&(&Em, Frame)> = anns.iter().filter(|(e, _)| e.t_ns > x.arrival).take(2).collect();
                    let next_t = next.first().map(|(e, _)| e.t_ns);
                    let tick = ((x.arrival / bmca) + 1) * bmca;
                    let bmca_between = next_t.map(|n| tick <= n).unwrap_or(false);
                    violate(
                        res,
                        prop,
                        "C15.daemon_drops_queued_tlv",
                        format!("mode={mode}"),
                        format!(
                            "port {m} ({mode}) never forwarded TLV {} which arrived on the slave port {sp} at t={} on Announce seq {} of the current parent; port {m}'s next Announces went out at {:?} with TLVs {:?}; nominal BMCA run at t={} lies between arrival and that Announce: {}",
                            tlv_str(&x.tlv),
                            secs(x.arrival),
                            x.seq,
                            next.iter().map(|(e, _)| secs(e.t_ns)).collect::<Vec<_>>(),
                            next.iter().map(|(_, f)| f.tlvs.iter().map(tlv_str).collect::<Vec<_>>()).collect::<Vec<_>>(),
                            secs(tick),
                            bmca_between
                        ),
                    );
                }
            }
        }
        *res.probes.entry(format!("c15_tlvs_checked_{mode}")).or_insert(0) += expect.len() as u64;
        *res.probes.entry(format!("c15_tlvs_forwarded_{mode}")).or_insert(0) += matched.iter().filter(|m| m.is_some()).count() as u64;
    }
    *res.probes.entry("c15_non_propagating_tlvs_offered".into()).or_insert(0) += non_prop.len() as u64;
    *res.probes.entry("c15_other_sender_tlvs_offered".into()).or_insert(0) += other_sender.len() as u64;
}

// ------------------------------------------------------------------------ C12

fn gaps_outside(times: &[u64], lo: u64, hi: u64) -> Option<(u64, u64)> {
    times.windows(2).map(|w| (w[0], w[1])).find(|(a, b)| b - a < lo || b - a > hi)
}

fn c12(scn: &Scenario, log: &RunLog, res: &mut ScenarioResult) {
    let prop = "C12";
    let tail_start = scn.warmup_ms * MS;
    let (silence, probe_ns, tail_peer) = match &scn.tail {
        Tail::Silence { probe_ms, probe_peer } => (true, *probe_ms * MS, *probe_peer),
        Tail::BetterMaster { peer, probe_ms } => (false, *probe_ms * MS, *peer),
        Tail::None => return,
    };
    res.nontrivial = true;
    let variant = if silence { "silence" } else { "better_master" };
    let tail_port = scn.peers[tail_peer].port;
    let gm_tail = scn.peers[tail_peer].gm.identity;

    let bound_inst = scn.daemon.ports.iter().map(|p| (2 * p.receipt_timeout as u64 + 8) * p.announce_ns()).max().unwrap();
    for (m, pc) in scn.daemon.ports.iter().enumerate() {
        let mode = pc.mode.name();
        let i_a = pc.announce_ns();
        let silent_segment = silence || m != tail_port;
        // a silent port becomes master through its own receipt timer; becoming the better master's
        // slave is a BMCA decision that may have to wait for the receipt timeout of ANOTHER port
        // (the previous parent fell silent there), so that case gets the instance-wide bound
        let bound = if silent_segment { (2 * pc.receipt_timeout as u64 + 8) * i_a } else { bound_inst };
        let steady_from = tail_start + bound;
        // the probe changes what the probed port (and, through the BMCA, every other port) must do
        let steady_to = if m == tail_port || !silence { probe_ns } else { probe_ns };
        let times = |class: Class, from: u64, to: u64| -> Vec<u64> { log.em.iter().filter(|e| e.port == m && e.class == class && e.t_ns >= from && e.t_ns < to).map(|e| e.t_ns).collect() };
        *res.probes.entry(format!("c12_port_state_when_tail_began_{}", state_at(log, m, tail_start))).or_insert(0) += 1;
        // the variant names the situation of THIS port: a port on a silent segment of a daemon whose
        // other port hears the better master is in the silence situation
        let tail_kind = variant;
        let variant = if silent_segment { "silence" } else { "better_master" };

        // peer-delay bookkeeping: was the port ever answered by two responders, and cleanly since?
        let mut multi = false;
        let mut clean_after = false;
        for (_seq, _t, who) in &log.pdelay[m] {
            if who.len() >= 2 {
                multi = true;
                clean_after = false;
            } else if who.len() == 1 && multi {
                clean_after = true;
            }
        }

        if silent_segment {
            // (a) silence: master within the bound, then Announce and Sync at their intervals
            res.oracle_evals += 1;
            let ann = times(Class::Announce, tail_start, steady_to);
            let first_in_bound = ann.iter().any(|t| *t <= steady_from);
            let steady_ann = times(Class::Announce, steady_from, steady_to);
            let steady_sync = times(Class::Sync, steady_from, steady_to);
            let stuck_state = state_at(log, m, steady_from);
            if stuck_state == "Faulty" {
                // disabled by a peer-delay fault that never cleared: excepted by the property
                *res.probes.entry("c12_port_faulty_through_silence_excepted".into()).or_insert(0) += 1;
                continue;
            }
            if !first_in_bound || steady_ann.is_empty() {
                // how the port got into the state it is stuck in (daemon's own state log): a recovery
                // Faulty -> Listening requests no timer; if the port was Master before the fault no
                // announce receipt timer was pending either
                let hist: Vec<&(u64, usize, String, String)> = log.transitions.iter().filter(|t| t.1 == m && t.0 <= steady_from).collect();
                let recovered = hist.last().map(|t| t.2 == "Faulty" && t.3 == "Listening").unwrap_or(false);
                // state the port was in before its (possibly flapping Faulty <-> Listening) fault episode
                let mut before_fault = String::new();
                let mut prev: Option<(&str, &str)> = None;
                for t in &hist {
                    if t.3 == "Faulty" && t.2 != "Faulty" {
                        let flap = t.2 == "Listening" && prev == Some(("Faulty", "Listening"));
                        if !flap {
                            before_fault = t.2.clone();
                        }
                    }
                    prev = Some((t.2.as_str(), t.3.as_str()));
                }
                let armed = if recovered && before_fault == "Master" { "false" } else { "unknown" };
                let start = stuck_state.as_str();
                let still_polling = !times(Class::PdelayReq, steady_from, steady_to).is_empty();
                violate(
                    res,
                    prop,
                    "C12.not_master_after_silence",
                    format!("variant={variant} start={start} p2p={} receipt_timer_armed={armed} mode={mode} entered_by_recovery_from_faulty={recovered} state_before_fault={before_fault} tail={tail_kind}", pc.p2p),
                    format!(
                        "port {m} ({mode}, {}) emits no Announce within (2*{}+8) announce intervals after its segment fell silent at t={} (Announces in the tail: {}, Pdelay_Req still sent: {still_polling}); the daemon's log puts the port in state {stuck_state}; two peer-delay responders answered earlier: {multi}, a single one afterwards: {clean_after}",
                        if pc.p2p { "P2P" } else { "E2E" },
                        pc.receipt_timeout,
                        secs(tail_start),
                        ann.len()
                    ),
                );
                continue;
            }
            for (class, list, iv) in [(Class::Announce, &steady_ann, i_a), (Class::Sync, &steady_sync, pc.sync_ns())] {
                res.oracle_evals += 1;
                if list.is_empty() {
                    violate(res, prop, "C12.master_port_stops_sending", format!("variant={variant} class={} mode={mode} p2p={}", class.name(), pc.p2p), format!("port {m} is master after the silence bound but emits no {} between t={} and t={}", class.name(), secs(steady_from), secs(steady_to)));
                    continue;
                }
                // first and last emission must be within one interval (+10%) of the window edges
                let lo = iv * 9 / 10;
                let hi = iv * 11 / 10;
                let edge_first = list[0] - steady_from > hi;
                let edge_last = steady_to - list[list.len() - 1] > hi;
                if let Some((a, b)) = gaps_outside(list, lo, hi) {
                    violate(
                        res,
                        prop,
                        "C12.master_cadence_off",
                        format!("variant={variant} class={} mode={mode} p2p={} kind={}", class.name(), pc.p2p, if b - a > hi { "gap_too_long" } else { "gap_too_short" }),
                        format!("port {m}: consecutive {} at t={} and t={} are {} ms apart, configured interval {} ms", class.name(), secs(a), secs(b), (b - a) / MS, iv / MS),
                    );
                } else if edge_first || edge_last {
                    violate(
                        res,
                        prop,
                        "C12.master_cadence_off",
                        format!("variant={variant} class={} mode={mode} p2p={} kind=stops_or_starts_late", class.name(), pc.p2p),
                        format!("port {m}: {} only between t={} and t={} inside the steady window {}..{}", class.name(), secs(list[0]), secs(list[list.len() - 1]), secs(steady_from), secs(steady_to)),
                    );
                }
            }
            // a two-step Sync is only half a message: its Follow_Up (sent once the host hands the
            // transmit timestamp back to the library) must follow
            res.oracle_evals += 1;
            let syncs: Vec<(u64, Frame)> = log.em.iter().filter(|e| e.port == m && e.class == Class::Sync && e.t_ns >= steady_from && e.t_ns + 300 * MS < steady_to).filter_map(|e| Frame::decode(&e.bytes).ok().map(|f| (e.t_ns, f))).collect();
            let fus: Vec<(u64, u16)> = log.em.iter().filter(|e| e.port == m && e.class == Class::FollowUp && e.t_ns >= steady_from).filter_map(|e| Frame::decode(&e.bytes).ok().map(|f| (e.t_ns, f.hdr.seq))).collect();
            if let Some((t, f)) = syncs.iter().find(|(t, f)| f.hdr.flag(wire::flag::TWO_STEP) && !fus.iter().any(|(ft, fs)| *fs == f.hdr.seq && *ft >= *t && *ft <= *t + 250 * MS)) {
                violate(
                    res,
                    prop,
                    "C12.sync_without_follow_up",
                    format!("variant={variant} mode={mode} p2p={}", pc.p2p),
                    format!("port {m}: two-step Sync seq {} at t={} was never completed by a Follow_Up ({} Syncs, {} Follow_Ups in the steady window)", f.hdr.seq, secs(*t), syncs.len(), fus.len()),
                );
            }
        } else {
            // (b) steadily announcing better master: slave within the bound, delay requests at cadence
            res.oracle_evals += 1;
            let late_ann = times(Class::Announce, steady_from, probe_ns);
            let late_sync = times(Class::Sync, steady_from, probe_ns);
            if !late_ann.is_empty() || !late_sync.is_empty() {
                violate(
                    res,
                    prop,
                    "C12.not_slave_of_better_master",
                    format!("variant={variant} mode={mode} p2p={}", pc.p2p),
                    format!("port {m} still emits Announce ({}) / Sync ({}) after t={} although endpoint {} (priority1 {}) announces steadily since t={}", late_ann.len(), late_sync.len(), secs(steady_from), scn.peers[tail_peer].name, scn.peers[tail_peer].gm.priority1.min(120), secs(tail_start)),
                );
                continue;
            }
            let class = if pc.p2p { Class::PdelayReq } else { Class::DelayReq };
            let reqs = times(class, steady_from, probe_ns);
            let iv = pc.delay_req_ns();
            let hi = iv * 21 / 10 + 5 * MS;
            res.oracle_evals += 1;
            if reqs.is_empty() || reqs[0] - steady_from > hi || probe_ns - reqs[reqs.len() - 1] > hi {
                violate(
                    res,
                    prop,
                    "C12.slave_sends_no_delay_requests",
                    format!("variant={variant} class={} mode={mode}", class.name()),
                    format!("port {m}: {} {} between t={} and t={} (first {:?}, last {:?}), configured interval {} ms", reqs.len(), class.name(), secs(steady_from), secs(probe_ns), reqs.first().map(|t| secs(*t)), reqs.last().map(|t| secs(*t)), iv / MS),
                );
            } else if let Some((a, b)) = gaps_outside(&reqs, 0, hi) {
                violate(
                    res,
                    prop,
                    "C12.delay_request_cadence_off",
                    format!("variant={variant} class={} mode={mode}", class.name()),
                    format!("port {m}: consecutive {} at t={} and t={} are {} ms apart, more than 2.1 x the configured {} ms", class.name(), secs(a), secs(b), (b - a) / MS, iv / MS),
                );
            }
        }
    }

    // BMCA liveness probe at the end of the tail
    let pc = &scn.daemon.ports[tail_port];
    let bound = bound_inst;
    let mode = pc.mode.name();
    res.oracle_evals += 1;
    if silence {
        // a better master appears on the probed port: the BMCA must take the port out of the master state
        let late: Vec<u64> = log.em.iter().filter(|e| e.port == tail_port && e.class == Class::Announce && e.t_ns >= probe_ns + bound).map(|e| e.t_ns).collect();
        if !late.is_empty() {
            violate(res, prop, "C12.bmca_loop_stalled", format!("variant={variant} probe=better_master_appears mode={mode} p2p={}", pc.p2p), format!("port {tail_port} still announces at t={} although a better master announces on its segment since t={}", secs(late[0]), secs(probe_ns)));
        }
        // and the other master ports must advertise the new grandmaster
        for (m, pm) in scn.daemon.ports.iter().enumerate() {
            if m == tail_port {
                continue;
            }
            let anns: Vec<Frame> = log.em.iter().filter(|e| e.port == m && e.class == Class::Announce && e.t_ns >= probe_ns + bound).filter_map(|e| Frame::decode(&e.bytes).ok()).collect();
            if let Some(f) = anns.iter().find(|f| f.announce().map(|a| a.gm_identity != gm_tail).unwrap_or(false)) {
                violate(res, prop, "C12.bmca_loop_stalled", format!("variant={variant} probe=grandmaster_not_adopted mode={}", pm.mode.name()), format!("port {m} still announces grandmaster {} (seq {}) long after the better master {} appeared at t={}", hex(&f.announce().unwrap().gm_identity), f.hdr.seq, hex(&gm_tail), secs(probe_ns)));
            }
        }
    } else {
        // the master disappears: receipt timeout, then the BMCA must make the instance its own grandmaster
        let anns: Vec<(u64, Frame)> = log.em.iter().filter(|e| e.port == tail_port && e.class == Class::Announce && e.t_ns >= probe_ns).filter_map(|e| Frame::decode(&e.bytes).ok().map(|f| (e.t_ns, f))).collect();
        let own = anns.iter().any(|(t, f)| *t <= probe_ns + bound && f.announce().map(|a| a.gm_identity == scn.daemon.identity).unwrap_or(false));
        if !own {
            violate(
                res,
                prop,
                "C12.no_recovery_after_master_loss",
                format!("variant={variant} probe=master_disappears mode={mode} p2p={} announces_seen={}", pc.p2p, !anns.is_empty()),
                format!("port {tail_port}: {} Announces after its master fell silent at t={}, none with the instance as grandmaster within (2*timeout+8) announce intervals", anns.len(), secs(probe_ns)),
            );
        }
    }
    let _ = Body::Sync { origin: wire::Ts::default() };
}

// ---------------------------------------------------------------------- shapes

/// fingerprint of the scenario's shape (what "distinct" counts in the evidence)
fn shape(scn: &Scenario, res: &ScenarioResult) -> u64 {
    let mut h = Fnv::new();
    h.str(&scn.property);
    h.u64(scn.daemon.path_trace as u64);
    h.u64(scn.slave_port as u64);
    for p in &scn.daemon.ports {
        h.str(p.mode.name());
        h.u64(p.announce_log as u8 as u64);
        h.u64(p.sync_log as u8 as u64);
        h.u64(p.delay_log as u8 as u64);
        h.u64(p.receipt_timeout as u64);
        h.u64(p.p2p as u64);
    }
    for p in &scn.peers {
        h.u64(p.port as u64);
        h.u64(p.gm.priority1 as u64 / 16);
        h.u64(p.two_step as u64);
        for a in &p.ann_plan {
            // phase bucket of the burst and its TLV make-up
            let b = match a.aim_before_bmca_us {
                Some(x) => x,
                None => i64::MIN + (a.shift_us / 50_000),
            };
            h.u64(b as u64);
            h.u64(a.tlvs.iter().filter(|t| Tlv::propagates(t.typ)).count() as u64);
            h.u64(a.tlvs.len() as u64);
        }
    }
    for s in &scn.steps {
        h.str(&format!("{:?}", s.op));
    }
    for f in &scn.faults {
        h.str(&f.kind_name());
    }
    h.str(&format!("{:?}", std::mem::discriminant(&scn.tail)));
    h.u64(res.nontrivial as u64);
    h.finish()
}

// ----------------------------------------------------------------------- trace

/// human-readable history (replay output)
pub fn trace(scn: &Scenario, log: &RunLog) -> Vec<String> {
    let mut lines: Vec<(u64, String)> = Vec::new();
    let c15 = scn.property == "C15";
    let from = if c15 { (scn.warmup_ms * MS).saturating_sub(2 * scn.bmca_interval_ns()) } else { 0 };
    if c15 {
        let b = scn.bmca_interval_ns();
        let mut t = (from / b + 1) * b;
        while t < log.end_ns {
            lines.push((t, "   -- nominal BMCA run (k x min announce interval after boot)".to_string()));
            t += b;
        }
        for i in &log.inj {
            if i.class != Class::Announce || i.arrival_ns < from {
                continue;
            }
            let tl = Frame::decode(&i.bytes).map(|f| format!("seq {} tlvs {:?}", f.hdr.seq, f.tlvs.iter().map(tlv_str).collect::<Vec<_>>())).unwrap_or_default();
            lines.push((i.arrival_ns, format!("-> port {} ({}) Announce from {} {}{}", i.port, scn.daemon.ports[i.port].mode.name(), scn.peers[i.peer].name, tl, if i.dropped { " LOST" } else { "" })));
        }
        for e in &log.em {
            if e.class != Class::Announce || e.t_ns < from {
                continue;
            }
            let tl = Frame::decode(&e.bytes).map(|f| format!("seq {} gm {} tlvs {:?}", f.hdr.seq, f.announce().map(|a| hex(&a.gm_identity[5..])).unwrap_or_default(), f.tlvs.iter().map(tlv_str).collect::<Vec<_>>())).unwrap_or_else(|e| format!("UNDECODABLE {e:?}"));
            lines.push((e.t_ns, format!("<- port {} ({}) Announce {}", e.port, scn.daemon.ports[e.port].mode.name(), tl)));
        }
    } else {
        // runs of the same class per port and direction, collapsed
        for (i, s) in scn.steps.iter().enumerate() {
            lines.push((s.at_ms * MS, format!("   step {i}: {:?}", s.op)));
        }
        lines.push((scn.warmup_ms * MS, format!("   == tail starts: {:?}", scn.tail)));
        if let Tail::Silence { probe_ms, .. } | Tail::BetterMaster { probe_ms, .. } = &scn.tail {
            lines.push((*probe_ms * MS, "   == probe".to_string()));
        }
        let mut runs: Vec<(String, u64, u64, u64, u64, u64)> = Vec::new(); // label, first, last, n, min gap, max gap
        let mut all: Vec<(u64, String)> = Vec::new();
        for e in &log.em {
            all.push((e.t_ns, format!("<- port {} {}{}", e.port, e.class.name(), if e.tx_ts_missing { " (no tx timestamp)" } else { "" })));
        }
        for i in &log.inj {
            all.push((i.arrival_ns, format!("-> port {} {} from {}{}", i.port, i.class.name(), scn.peers[i.peer].name, if i.dropped { " LOST" } else { "" })));
        }
        all.sort();
        let mut open: std::collections::BTreeMap<String, usize> = Default::default();
        for (t, label) in all {
            match open.get(&label).copied() {
                Some(idx) if t - runs[idx].2 <= 4 * scn.daemon.ports.iter().map(|p| p.announce_ns()).max().unwrap() => {
                    let g = t - runs[idx].2;
                    let r = &mut runs[idx];
                    r.4 = r.4.min(g);
                    r.5 = r.5.max(g);
                    r.2 = t;
                    r.3 += 1;
                }
                _ => {
                    open.insert(label.clone(), runs.len());
                    runs.push((label, t, t, 1, u64::MAX, 0));
                }
            }
        }
        for (label, first, last, n, gmin, gmax) in runs {
            if n == 1 {
                lines.push((first, label));
            } else {
                lines.push((first, format!("{label} x{n} until t={} (gaps {}..{} ms)", secs(last), gmin / MS, gmax / MS)));
            }
        }
    }
    for (t, p, a, b) in &log.transitions {
        if *t >= from {
            lines.push((*t, format!("   ** daemon log: port {p} {a} -> {b}")));
        }
    }
    for l in log.daemon_log.iter().filter(|l| l.level <= 2 && l.t_ns >= from).take(40) {
        lines.push((l.t_ns, format!("   ** daemon log ({}): {}", if l.level == 1 { "error" } else { "warn" }, l.msg)));
    }
    lines.sort_by(|a, b| a.0.cmp(&b.0));
    let mut out: Vec<String> = lines.into_iter().map(|(t, l)| format!("t={} {}", secs(t), l)).collect();
    for (m, l) in &log.panics {
        out.push(format!("PANIC {m} at {l}"));
    }
    out.push(format!("end t={} daemon clock - master clock = {} ns, clock steps {}, frequency updates {}", secs(log.end_ns), log.clock_offset_end_ns, log.clock_steps, log.clock_freq_sets));
    out
}
