//! daemonsim: the UNMODIFIED statime daemon (/repo/statime-linux/src/main.rs,
//! included verbatim below) run in-process, deterministically, over simulated
//! sockets and clocks, with scripted PTP endpoints around it.
//!
//!   daemonsim check <C15|C12|C19> <quick|thorough>
//!   daemonsim replay <file> [--quiet]
//!   daemonsim selftest
//!   daemonsim merge-evidence <ID>      (fold <ID>.daemon.part.json into an <ID>.json written by another engine)
//!   daemonsim show <C15|C12> <index> [quick|thorough]     (debug: run one generated scenario, print its history)
//!
//! A worker is this same binary started as `daemonsim -c <tmp>/statime.toml` with
//! DAEMONSIM_WORKER=<tmp>/scenario.json: the daemon's own clap parser reads `-c`.
#[allow(dead_code, unused_imports)]
mod daemon {
    include!(concat!(env!("DAEMONSIM_REPO"), "/statime-linux/src/main.rs"));
    pub mod harness;
}
mod logcap;
mod oracle;
mod parent;
mod scenario;
mod worker;

use vcommon::Tier;

fn tier_of(s: Option<&String>) -> Tier {
    match s.map(|s| s.as_str()) {
        Some("thorough") => Tier::Thorough,
        _ => Tier::Quick,
    }
}

fn main() {
    if let Ok(p) = std::env::var("DAEMONSIM_WORKER") {
        // a harness bug must not hang a check: the watchdog only ever produces a harness error
        unsafe { libc::alarm(300) };
        worker::worker_main(&p);
    }
    let args: Vec<String> = std::env::args().collect();
    let code = match args.get(1).map(|s| s.as_str()) {
        Some("check") => match args.get(2).map(|s| s.as_str()) {
            Some(id @ ("C15" | "C12" | "C19")) => parent::check(id, tier_of(args.get(3))),
            _ => {
                eprintln!("usage: daemonsim check <C15|C12|C19> <quick|thorough>");
                2
            }
        },
        Some("replay") => match args.get(2) {
            Some(f) => parent::replay(f, args.iter().any(|a| a == "--quiet")),
            None => 2,
        },
        Some("selftest") => parent::selftest(),
        Some("merge-evidence") => match args.get(2) {
            Some(id) => parent::merge_evidence(id),
            None => 2,
        },
        Some("show") => {
            let id = args.get(2).cloned().unwrap_or_else(|| "C15".into());
            let idx: u64 = args.get(3).and_then(|s| s.parse().ok()).unwrap_or(0);
            let scn = scenario::generate(&id, parent::base_seed(), idx, tier_of(args.get(4)));
            println!("{}", serde_json::to_string_pretty(&scn).unwrap());
            println!("--- config ---\n{}", scn.config_toml(None));
            match parent::run_one(&scn, true) {
                Ok(r) => {
                    for l in &r.trace {
                        println!("{l}");
                    }
                    println!("nontrivial={} digest={:016x} probes={:?} faults={:?}", r.nontrivial, r.digest, r.probes, r.faults);
                    for v in &r.violations {
                        println!("VIOLATION-IN-RUN {} {}\n  {}", v.oracle, v.key, v.message);
                    }
                    0
                }
                Err(e) => {
                    eprintln!("HARNESS-ERROR: {e}");
                    2
                }
            }
        }
        _ => {
            eprintln!("usage: daemonsim check <C15|C12|C19> <quick|thorough> | replay <file> | selftest | merge-evidence <ID> | show <ID> <index>");
            2
        }
    };
    std::process::exit(code);
}
