//! The worker: ONE unmodified daemon (`actual_main`) per process, on a seeded,
//! paused current-thread tokio runtime, over the simulated sockets / clocks,
//! together with the scripted endpoints of the scenario. Produces the run log
//! the oracles read.
use crate::scenario::*;
use ptpsim::script::{announce_frame, GmData};
use ptpsim::wire::{self, flag, Body, Frame, MsgType, Pid, Tlv, Ts};
use serde::{Deserialize, Serialize};
use std::collections::BTreeMap;
use std::sync::atomic::{AtomicBool, Ordering};
use std::sync::Mutex;
use timestamped_socket::sim as net;
use timestamped_socket::sim::{SimAddr, SockKind};
use vcommon::tape::S_NET;
use vcommon::Chooser;

/// time base of the scripted masters at virtual instant 0 (TAI, ns since the epoch)
pub const EPOCH_NS: u128 = 1_700_000_000 * 1_000_000_000;

static IN_HARNESS: AtomicBool = AtomicBool::new(true);

/// task polls allowed at one virtual instant before the run counts as a livelock (a healthy
/// run stays below a few hundred; see the probes `max_task_polls_at_one_instant_*`)
pub const LIVELOCK_POLLS: u64 = 200_000;

thread_local! {
    static POLLS: std::cell::Cell<(u64, u64, u64)> = const { std::cell::Cell::new((u64::MAX, 0, 0)) };
    static POLL_SEQ: std::cell::Cell<u64> = const { std::cell::Cell::new(0) };
}

/// number of task polls so far (the harness' own future is not a task)
pub fn poll_seq() -> u64 {
    POLL_SEQ.with(|p| p.get())
}

/// called by the runtime before every task poll: tasks that keep each other runnable without
/// ever letting virtual time advance would hang the worker for real
fn poll_tick() {
    POLL_SEQ.with(|p| p.set(p.get() + 1));
    let vt = clock_steering::sim::vt_ns();
    let (last, n, max) = POLLS.with(|p| p.get());
    let n = if last == vt { n + 1 } else { 0 };
    POLLS.with(|p| p.set((vt, n, max.max(n))));
    if n > LIVELOCK_POLLS {
        println!("@@LIVELOCK {vt}");
        std::process::exit(3);
    }
}
static PANICS: Mutex<Vec<(String, String, bool)>> = Mutex::new(Vec::new());

pub fn install_panic_hook() {
    std::panic::set_hook(Box::new(|info| {
        let msg = if let Some(s) = info.payload().downcast_ref::<&str>() {
            s.to_string()
        } else if let Some(s) = info.payload().downcast_ref::<String>() {
            s.clone()
        } else {
            "non-string panic payload".to_string()
        };
        let loc = info.location().map(|l| format!("{}:{}", l.file(), l.line())).unwrap_or_else(|| "?".into());
        let h = IN_HARNESS.load(Ordering::Relaxed);
        if h {
            eprintln!("worker panic (harness): {msg} at {loc}");
        }
        PANICS.lock().unwrap().push((msg, loc, h));
    }));
}

/// one frame the daemon emitted
#[derive(Clone, Debug)]
#[allow(dead_code)]
pub struct Em {
    pub t_ns: u64,
    pub wire_ns: u64,
    pub port: usize,
    pub class: Class,
    pub event_sock: bool,
    pub pdelay_dest: bool,
    pub bytes: Vec<u8>,
    pub tx_ts_missing: bool,
}

/// one frame a scripted endpoint sent towards the daemon
#[derive(Clone, Debug)]
#[allow(dead_code)]
pub struct Inj {
    pub send_ns: u64,
    pub arrival_ns: u64,
    pub port: usize,
    pub peer: usize,
    pub class: Class,
    pub bytes: Vec<u8>,
    pub dropped: bool,
}

/// one read of the observation socket by the harness (C19)
#[derive(Clone, Debug)]
pub struct Obs {
    pub t_ns: u64,
    /// BMCA rounds the daemon had logged when the harness connected / when the document was complete
    pub rounds_before: u64,
    pub rounds_after: u64,
    pub why: &'static str,
    pub result: Result<Vec<u8>, String>,
}

#[derive(Clone, Debug, Default)]
pub struct RunLog {
    pub obs: Vec<Obs>,
    pub em: Vec<Em>,
    pub inj: Vec<Inj>,
    /// (message, location) of panics raised outside the harness
    pub panics: Vec<(String, String)>,
    pub harness_panics: Vec<(String, String)>,
    /// the daemon's main task ended (it never should)
    pub daemon_finished: bool,
    /// instants of CLOCK_REALTIME.set_leap_seconds = BMCA runs with a slave decision
    pub leap_calls: Vec<u64>,
    pub end_ns: u64,
    pub faults_fired: BTreeMap<String, u64>,
    pub probes: BTreeMap<String, u64>,
    pub digest: u64,
    pub clock_offset_end_ns: i128,
    pub clock_steps: u64,
    pub clock_freq_sets: u64,
    /// pdelay bookkeeping per port: (request seq, emitted at, responders that answered)
    pub pdelay: Vec<Vec<(u16, u64, Vec<usize>)>>,
    /// what the daemon logged at info level and above
    pub daemon_log: Vec<crate::logcap::Line>,
    /// port state transitions parsed from the daemon's log: (t, port, from, to)
    pub transitions: Vec<(u64, usize, String, String)>,
}

impl RunLog {
    fn fault(&mut self, k: &str) {
        *self.faults_fired.entry(k.to_string()).or_insert(0) += 1;
    }
    pub fn probe(&mut self, k: &str, n: u64) {
        if n > 0 {
            *self.probes.entry(k.to_string()).or_insert(0) += n;
        }
    }
}

#[derive(Clone, Debug)]
enum Ev {
    Ann { peer: usize, n: u32 },
    Sync { peer: usize, n: u32 },
    Rx { peer: usize, em: usize },
    Step(usize),
    /// C19: read the observation socket (scripted instant, or a third of a BMCA interval after a round)
    ObsRead(&'static str),
    /// C19: wake up just after the nominal BMCA instant
    ObsTick(u64),
    TailStart,
    Probe,
    End,
}

struct PeerState {
    on: bool,
    priority1: u8,
    seq_announce: u16,
    seq_sync: u16,
    sent: BTreeMap<Class, u64>,
}

fn dest_addr(mode: Mode, event: bool, pdelay: bool, ifindex: i32) -> SimAddr {
    let port = if event { 319 } else { 320 };
    match mode {
        Mode::Ipv4 => SimAddr::V4(if pdelay { "224.0.0.107".parse().unwrap() } else { "224.0.1.129".parse().unwrap() }, port),
        Mode::Ipv6 => SimAddr::V6(if pdelay { "ff02::6b".parse().unwrap() } else { "ff0e::181".parse().unwrap() }, port),
        Mode::Ethernet => SimAddr::Eth { proto: 0x88f7, mac: if pdelay { [0x01, 0x80, 0xc2, 0x00, 0x00, 0x0e] } else { [0x01, 0x1b, 0x19, 0x00, 0x00, 0x00] }, ifindex },
    }
}

fn peer_src(mode: Mode, peer: usize, event: bool, ifindex: i32) -> SimAddr {
    let port = if event { 319 } else { 320 };
    match mode {
        Mode::Ipv4 => SimAddr::V4(std::net::Ipv4Addr::new(10, 0, 0, 100 + peer as u8), port),
        Mode::Ipv6 => SimAddr::V6(std::net::Ipv6Addr::new(0xfe80, 0, 0, 0, 0, 0, 1, 100 + peer as u16), port),
        Mode::Ethernet => SimAddr::Eth { proto: 0x88f7, mac: [0x00, 0x50, 0xc2, 0x00, 0x01, peer as u8], ifindex },
    }
}

fn is_pdelay_dest(a: &SimAddr) -> bool {
    match a {
        SimAddr::V4(ip, _) => ip.octets() == [224, 0, 0, 107],
        SimAddr::V6(ip, _) => ip.segments() == [0xff02, 0, 0, 0, 0, 0, 0, 0x6b],
        SimAddr::Eth { mac, .. } => *mac == [0x01, 0x80, 0xc2, 0x00, 0x00, 0x0e],
    }
}

struct Drive<'a> {
    scn: &'a Scenario,
    log: RunLog,
    q: BTreeMap<(u64, u64), Ev>,
    qseq: u64,
    peers: Vec<PeerState>,
    /// per port: jitter choosers (to daemon, from daemon)
    jit: Vec<(Chooser, Chooser)>,
    em_count: Vec<BTreeMap<Class, u64>>,
    tail_started: bool,
    /// C19: a read of the observation socket is due (why)
    want_read: Option<&'static str>,
}

impl<'a> Drive<'a> {
    fn at(&mut self, t: u64, ev: Ev) {
        self.q.insert((t, self.qseq), ev);
        self.qseq += 1;
    }

    fn peer_clock(&self, peer: usize, t: u64) -> u128 {
        (EPOCH_NS as i128 + t as i128 + self.scn.peers[peer].clock_offset_ns as i128).max(0) as u128
    }

    fn ann_time(&self, peer: usize, n: u32) -> u64 {
        let p = &self.scn.peers[peer];
        let nominal = p.phase_us * US + n as u64 * interval_ns(p.announce_log);
        let shift = p.ann_plan.iter().find(|a| a.n == n).map(|a| a.shift_us * 1000).unwrap_or(0);
        (nominal as i64 + shift).max(0) as u64
    }

    fn sync_time(&self, peer: usize, n: u32) -> u64 {
        let p = &self.scn.peers[peer];
        let i = interval_ns(p.sync_log);
        p.phase_us * US + i / 3 + n as u64 * i
    }

    /// send one frame from a scripted endpoint at true instant `t`
    fn peer_send(&mut self, peer: usize, t: u64, frame: &Frame, event: bool, pdelay: bool) {
        let p = &self.scn.peers[peer];
        let port = p.port;
        let pc = &self.scn.daemon.ports[port];
        let bytes = frame.encode();
        let class = Class::of(&bytes);
        let nth = {
            let c = self.peers[peer].sent.entry(class).or_insert(0);
            let v = *c;
            *c += 1;
            v
        };
        let fault = self.scn.faults.iter().find_map(|f| match f {
            // the tail of a C12 scenario is free of faults
            Fault::ToDaemon { peer: fp, class: fc, nth: fnth, kind } if *fp == peer && *fc == class && *fnth == nth && !self.tail_started => Some(*kind),
            _ => None,
        });
        // in C15 the Announce path is kept clean: constant delay, no faults
        let clean = self.scn.property == "C15" && class == Class::Announce;
        let jitter = if pc.jitter_ns > 0 && !clean { self.jit[port].0.choose(S_NET, pc.jitter_ns + 1) } else { 0 };
        let mut arrival = t + pc.delay_ns + jitter;
        let ifindex = 2 + port as i32;
        let dest = dest_addr(pc.mode, event, pdelay, ifindex);
        let src = peer_src(pc.mode, peer, event, ifindex);
        let mut copies = 1;
        let mut dropped = false;
        match fault {
            Some(FrameFault::Drop) if !clean => {
                dropped = true;
                self.log.fault(&format!("to_daemon_drop_{}", class.name()));
            }
            Some(FrameFault::Dup) if !clean => {
                copies = 2;
                self.log.fault(&format!("to_daemon_dup_{}", class.name()));
            }
            Some(FrameFault::DelayUs(us)) if !clean => {
                arrival += us as u64 * 1000;
                self.log.fault(&format!("to_daemon_delay_{}", class.name()));
            }
            _ => {}
        }
        for c in 0..copies {
            let a = arrival + c * 40_000;
            self.log.inj.push(Inj { send_ns: t, arrival_ns: a, port, peer, class, bytes: bytes.clone(), dropped });
            if !dropped {
                net::inject(port, dest, src, bytes.clone(), a);
            }
        }
    }

    fn gm_of(&self, peer: usize) -> GmData {
        let p = &self.scn.peers[peer];
        GmData {
            priority1: self.peers[peer].priority1,
            class: p.gm.class,
            accuracy: p.gm.accuracy,
            variance: p.gm.variance,
            priority2: p.gm.priority2,
            identity: p.gm.identity,
            steps_removed: p.gm.steps_removed,
            utc_offset: 37,
            time_source: 0xa0,
            flags: flag::PTP_TIMESCALE | flag::UTC_VALID,
        }
    }

    fn pid(&self, peer: usize) -> Pid {
        Pid::new(self.scn.peers[peer].clock_id, self.scn.peers[peer].port_no)
    }

    fn handle(&mut self, t: u64, ev: Ev) -> bool {
        let scn = self.scn;
        match ev {
            Ev::Ann { peer, n } => {
                let p = &scn.peers[peer];
                if self.peers[peer].on && p.announces {
                    let seq = self.peers[peer].seq_announce;
                    self.peers[peer].seq_announce = seq.wrapping_add(1);
                    let mut f = announce_frame(self.pid(peer), seq, &self.gm_of(peer), 0, 0, p.announce_log);
                    if !p.path.is_empty() {
                        f.tlvs.push(Tlv { typ: wire::TLV_PATH_TRACE, value: p.path.iter().flat_map(|c| c.iter().copied()).collect() });
                    }
                    if let Some(plan) = p.ann_plan.iter().find(|a| a.n == n) {
                        for tl in &plan.tlvs {
                            f.tlvs.push(Tlv { typ: tl.typ, value: tl.value.clone() });
                        }
                    }
                    self.peer_send(peer, t, &f, false, false);
                }
                let next = self.ann_time(peer, n + 1).max(t + 1);
                self.at(next, Ev::Ann { peer, n: n + 1 });
            }
            Ev::Sync { peer, n } => {
                let p = &scn.peers[peer];
                if self.peers[peer].on && p.syncs {
                    let seq = self.peers[peer].seq_sync;
                    self.peers[peer].seq_sync = seq.wrapping_add(1);
                    let now = self.peer_clock(peer, t);
                    if p.two_step {
                        let mut s = Frame::new(MsgType::Sync, self.pid(peer), seq, Body::Sync { origin: Ts::default() });
                        s.hdr.flags = flag::TWO_STEP;
                        s.hdr.log_interval = p.sync_log;
                        self.peer_send(peer, t, &s, true, false);
                        let mut fu = Frame::new(MsgType::FollowUp, self.pid(peer), seq, Body::FollowUp { precise_origin: Ts::from_ns(now) });
                        fu.hdr.log_interval = p.sync_log;
                        self.peer_send(peer, t + 50_000, &fu, false, false);
                    } else {
                        let mut s = Frame::new(MsgType::Sync, self.pid(peer), seq, Body::Sync { origin: Ts::from_ns(now) });
                        s.hdr.log_interval = p.sync_log;
                        self.peer_send(peer, t, &s, true, false);
                    }
                }
                let next = self.sync_time(peer, n + 1);
                self.at(next, Ev::Sync { peer, n: n + 1 });
            }
            Ev::Rx { peer, em } => {
                if !self.peers[peer].on {
                    return true;
                }
                let p = &scn.peers[peer];
                let (f, port, class) = {
                    let e = &self.log.em[em];
                    let Ok(f) = Frame::decode(&e.bytes) else { return true };
                    (f, e.port, e.class)
                };
                let now = self.peer_clock(peer, t);
                match (&f.body, class) {
                    (Body::DelayReq { .. }, Class::DelayReq) if p.answer_delay => {
                        let mut r = Frame::new(MsgType::DelayResp, self.pid(peer), f.hdr.seq, Body::DelayResp { receive: Ts::from_ns(now), requesting: f.hdr.source });
                        r.hdr.correction = f.hdr.correction;
                        r.hdr.log_interval = scn.daemon.ports[port].delay_log;
                        self.peer_send(peer, t + 30_000, &r, false, false);
                    }
                    (Body::PdelayReq { .. }, Class::PdelayReq) if p.answer_pdelay => {
                        let seq = f.hdr.seq;
                        if let Some(rec) = self.log.pdelay[port].iter_mut().rev().find(|r| r.0 == seq) {
                            if !rec.2.contains(&peer) {
                                rec.2.push(peer);
                            }
                        }
                        let mut r = Frame::new(MsgType::PdelayResp, self.pid(peer), seq, Body::PdelayResp { request_receipt: Ts::from_ns(now), requesting: f.hdr.source });
                        r.hdr.flags = flag::TWO_STEP;
                        self.peer_send(peer, t + 30_000, &r, true, true);
                        let resp_origin = self.peer_clock(peer, t + 30_000);
                        let fu = Frame::new(MsgType::PdelayRespFollowUp, self.pid(peer), seq, Body::PdelayRespFollowUp { response_origin: Ts::from_ns(resp_origin), requesting: f.hdr.source });
                        self.peer_send(peer, t + 80_000, &fu, false, true);
                    }
                    _ => {}
                }
            }
            Ev::Step(i) => match &scn.steps[i].op {
                Op::PeerOn { peer } => {
                    if !self.tail_started && *peer < self.peers.len() && !scn.peers[*peer].disabled {
                        self.peers[*peer].on = true;
                    }
                }
                Op::PeerOff { peer } => {
                    if !self.tail_started && *peer < self.peers.len() {
                        self.peers[*peer].on = false;
                    }
                }
                Op::SetPriority1 { peer, value } => {
                    if !self.tail_started && *peer < self.peers.len() {
                        self.peers[*peer].priority1 = *value;
                    }
                }
            },
            Ev::ObsRead(why) => self.want_read = Some(why),
            Ev::ObsTick(k) => {
                let b = scn.bmca_interval_ns();
                self.at((k + 1) * b + MS, Ev::ObsTick(k + 1));
            }
            Ev::TailStart => {
                self.tail_started = true;
                net::set_tx_faults(Vec::new());
                match &scn.tail {
                    Tail::None => {}
                    Tail::Silence { .. } => {
                        for p in self.peers.iter_mut() {
                            p.on = false;
                        }
                    }
                    Tail::BetterMaster { peer, .. } => {
                        for p in self.peers.iter_mut() {
                            p.on = false;
                        }
                        self.peers[*peer].on = true;
                        self.peers[*peer].priority1 = scn.peers[*peer].gm.priority1.min(120);
                    }
                }
            }
            Ev::Probe => match &scn.tail {
                Tail::None => {}
                Tail::Silence { probe_peer, .. } => {
                    self.peers[*probe_peer].on = true;
                    self.peers[*probe_peer].priority1 = scn.peers[*probe_peer].gm.priority1.min(120);
                }
                Tail::BetterMaster { peer, .. } => {
                    self.peers[*peer].on = false;
                }
            },
            Ev::End => return false,
        }
        true
    }

    /// frames the daemon sent since the last call: log them, hand them to the endpoints
    fn drain_emitted(&mut self) {
        for e in net::take_emitted() {
            let class = Class::of(&e.bytes);
            let port = e.iface;
            let pc = &self.scn.daemon.ports[port];
            let event_sock = matches!(e.sock, SockKind::Udp4(319) | SockKind::Udp6(319)) || (matches!(e.sock, SockKind::Eth(_)) && wire::MsgType::from_nibble(e.bytes.first().copied().unwrap_or(0xf) & 0xf).map(|m| m.is_event()).unwrap_or(false));
            if let Some(k) = e.tx_fault {
                self.log.fault(match k {
                    net::TxFaultKind::NoTimestamp => "tx_timestamp_lost",
                    net::TxFaultKind::LateMs(_) => "tx_timestamp_late",
                    net::TxFaultKind::SkewNs(_) => "tx_timestamp_skewed",
                });
            }
            let idx = self.log.em.len();
            if class == Class::PdelayReq {
                if let Ok(f) = Frame::decode(&e.bytes) {
                    self.log.pdelay[port].push((f.hdr.seq, e.vt_ns, Vec::new()));
                }
            }
            self.log.em.push(Em {
                t_ns: e.vt_ns,
                wire_ns: e.wire_ns,
                port,
                class,
                event_sock,
                pdelay_dest: is_pdelay_dest(&e.dest),
                bytes: e.bytes,
                tx_ts_missing: matches!(e.tx_fault, Some(net::TxFaultKind::NoTimestamp)),
            });
            let nth = {
                let c = self.em_count[port].entry(class).or_insert(0);
                let v = *c;
                *c += 1;
                v
            };
            let fault = self.scn.faults.iter().find_map(|f| match f {
                Fault::FromDaemon { port: fp, class: fc, nth: fnth, kind } if *fp == port && *fc == class && *fnth == nth && !self.tail_started => Some(*kind),
                _ => None,
            });
            let mut extra = 0u64;
            let mut copies = 1u64;
            match fault {
                Some(FrameFault::Drop) => {
                    self.log.fault(&format!("from_daemon_drop_{}", class.name()));
                    continue;
                }
                Some(FrameFault::Dup) => {
                    copies = 2;
                    self.log.fault(&format!("from_daemon_dup_{}", class.name()));
                }
                Some(FrameFault::DelayUs(us)) => {
                    extra = us as u64 * 1000;
                    self.log.fault(&format!("from_daemon_delay_{}", class.name()));
                }
                None => {}
            }
            // only requests matter to the scripted endpoints
            if !matches!(class, Class::DelayReq | Class::PdelayReq) {
                continue;
            }
            let jitter = if pc.jitter_ns > 0 { self.jit[port].1.choose(S_NET, pc.jitter_ns + 1) } else { 0 };
            let wire_ns = self.log.em[idx].wire_ns;
            for peer in 0..self.scn.peers.len() {
                if self.scn.peers[peer].port == port && !self.scn.peers[peer].disabled {
                    for c in 0..copies {
                        self.at(wire_ns + pc.delay_ns + jitter + extra + c * 40_000, Ev::Rx { peer, em: idx });
                    }
                }
            }
        }
    }
}

/// The harness as the observation client: connect, read to EOF (what the metrics exporter does).
async fn read_observation(path: &std::path::Path) -> Result<Vec<u8>, String> {
    use tokio::io::AsyncReadExt;
    let fut = async {
        let mut s = tokio::net::UnixStream::connect(path).await.map_err(|e| format!("connect: {e}"))?;
        let mut buf = Vec::new();
        s.read_to_end(&mut buf).await.map_err(|e| format!("read: {e}"))?;
        Ok::<_, String>(buf)
    };
    match tokio::time::timeout(std::time::Duration::from_millis(50), fut).await {
        Ok(r) => r,
        Err(_) => Err("no complete document within 50 ms of virtual time".into()),
    }
}

async fn drive(scn: &Scenario) -> RunLog {
    let clock0 = EPOCH_NS as i128 + scn.clock.offset_ns as i128 - scn.clock.tai as i128 * 1_000_000_000;
    clock_steering::sim::init(clock0, scn.clock.drift_ppb as f64 / 1000.0, scn.clock.tai);
    rand::sim::set_seed(scn.seed);
    net::reset();
    for (i, p) in scn.daemon.ports.iter().enumerate() {
        net::add_iface(net::Iface {
            name: format!("sim{i}"),
            index: 2 + i as u32,
            mac: p.mac,
            addrs: vec![format!("10.0.{i}.1:0").parse().unwrap(), format!("[fe80::{:x}]:0", i + 1).parse().unwrap()],
            segment: i,
            phc: None,
            phc_clock: None,
            egress_ns: p.egress_ns,
        });
    }
    let mut txf = Vec::new();
    for f in &scn.faults {
        if let Fault::TxTimestamp { port, sock, nth, kind } = f {
            let Some(pc) = scn.daemon.ports.get(*port) else { continue };
            let kind_of_socket = match (pc.mode, sock) {
                (Mode::Ethernet, _) => SockKind::Eth(0x88f7),
                (Mode::Ipv4, SockSel::General) => SockKind::Udp4(320),
                (Mode::Ipv4, _) => SockKind::Udp4(319),
                (Mode::Ipv6, SockSel::General) => SockKind::Udp6(320),
                (Mode::Ipv6, _) => SockKind::Udp6(319),
            };
            txf.push(net::TxFault {
                iface: *port,
                kind_of_socket,
                nth: *nth,
                fault: match kind {
                    TsFault::NoTimestamp => net::TxFaultKind::NoTimestamp,
                    TsFault::LateMs(ms) => net::TxFaultKind::LateMs(*ms),
                },
            });
        }
    }
    net::set_tx_faults(txf);

    let start = clock_steering::sim::start_instant();
    let delivery = tokio::spawn(net::delivery_task());
    IN_HARNESS.store(false, Ordering::Relaxed);
    // the daemon's real main: parses `-c <file>` from this process' arguments
    let daemon = tokio::spawn(crate::daemon::harness::boot());
    IN_HARNESS.store(true, Ordering::Relaxed);

    let np = scn.daemon.ports.len();
    let mut d = Drive {
        scn,
        log: RunLog { pdelay: vec![Vec::new(); np], ..Default::default() },
        q: BTreeMap::new(),
        qseq: 0,
        peers: scn
            .peers
            .iter()
            .map(|p| PeerState { on: p.on_at_start && !p.disabled, priority1: p.gm.priority1, seq_announce: 0, seq_sync: 0, sent: BTreeMap::new() })
            .collect(),
        jit: (0..np)
            .map(|i| (Chooser::generate(vcommon::rng::mix(&[scn.seed, i as u64, 1])), Chooser::generate(vcommon::rng::mix(&[scn.seed, i as u64, 2]))))
            .collect(),
        em_count: vec![BTreeMap::new(); np],
        tail_started: false,
        want_read: None,
    };
    // C19: the observation socket the real observer task serves (in memory, through the tokio facade)
    let obs_path: Option<std::path::PathBuf> = if scn.observe_ms.is_some() {
        let args: Vec<String> = std::env::args().collect();
        args.iter().position(|a| a == "-c").and_then(|i| args.get(i + 1)).and_then(|c| std::path::Path::new(c).parent().map(|d| d.join("observe.sock")))
    } else {
        None
    };
    if let Some(extra) = &scn.observe_ms {
        for t in extra {
            d.at(*t * MS, Ev::ObsRead("scripted_instant"));
        }
        d.at(scn.bmca_interval_ns() + MS, Ev::ObsTick(1));
    }
    let mut rounds_read = 0u64;
    for (i, p) in scn.peers.iter().enumerate() {
        if p.disabled || p.port >= np {
            continue;
        }
        let t0 = d.ann_time(i, 0);
        d.at(t0, Ev::Ann { peer: i, n: 0 });
        let s0 = d.sync_time(i, 0);
        d.at(s0, Ev::Sync { peer: i, n: 0 });
    }
    for (i, s) in scn.steps.iter().enumerate() {
        d.at(s.at_ms * MS, Ev::Step(i));
    }
    match &scn.tail {
        Tail::None => {}
        Tail::Silence { probe_ms, .. } | Tail::BetterMaster { probe_ms, .. } => {
            d.at(scn.warmup_ms * MS, Ev::TailStart);
            d.at(*probe_ms * MS, Ev::Probe);
        }
    }
    d.at(scn.end_ms * MS, Ev::End);

    let notify = net::emit_notify();
    loop {
        d.drain_emitted();
        if let Some(path) = &obs_path {
            // right after every BMCA round the daemon logged, and when an event asked for it
            let seen = crate::logcap::rounds_seen();
            let why = if seen > rounds_read { Some("after_bmca_round") } else { d.want_read.take() };
            if let Some(why) = why {
                if seen > rounds_read {
                    rounds_read = seen;
                    // once more before the next round: nothing may have changed
                    let t = clock_steering::sim::vt_ns() + scn.bmca_interval_ns() / 3;
                    d.at(t, Ev::ObsRead("between_rounds"));
                }
                let t_ns = clock_steering::sim::vt_ns();
                IN_HARNESS.store(false, Ordering::Relaxed);
                let result = read_observation(path).await;
                IN_HARNESS.store(true, Ordering::Relaxed);
                d.log.obs.push(Obs { t_ns, rounds_before: seen, rounds_after: crate::logcap::rounds_seen(), why, result });
                continue;
            }
        }
        let Some((&(t, s), _)) = d.q.iter().next() else { break };
        let now = clock_steering::sim::vt_ns();
        if t <= now {
            let ev = d.q.remove(&(t, s)).unwrap();
            if !d.handle(t, ev) {
                break;
            }
            continue;
        }
        IN_HARNESS.store(false, Ordering::Relaxed);
        tokio::select! {
            biased;
            _ = notify.notified() => {}
            _ = tokio::time::sleep_until(start + std::time::Duration::from_nanos(t)) => {}
        }
        IN_HARNESS.store(true, Ordering::Relaxed);
    }
    d.drain_emitted();
    let mut log = d.log;
    log.end_ns = clock_steering::sim::vt_ns();
    log.daemon_finished = daemon.is_finished();
    log.digest = net::digest();
    let clocks = clock_steering::sim::snapshot();
    let sys = &clocks[0];
    log.leap_calls = clock_steering::sim::leap_calls();
    log.clock_steps = sys.n_step;
    log.clock_freq_sets = sys.n_set_frequency;
    // daemon TAI minus the time base of endpoint 0 at the end
    let tai_now = sys.read(log.end_ns as i64) + sys.tai as i128 * 1_000_000_000;
    log.clock_offset_end_ns = tai_now - (EPOCH_NS as i128 + log.end_ns as i128 + scn.peers.first().map(|p| p.clock_offset_ns as i128).unwrap_or(0));
    let st = net::stats();
    log.probe("frames_emitted", st.emitted);
    log.probe("frames_injected", st.injected);
    log.probe("frames_delivered_to_sockets", st.delivered);
    log.probe("frames_without_matching_socket", st.undeliverable);
    log.probe("rx_truncated", st.rx_buffer_truncated);
    log.probe("sockets_opened", st.sockets_opened);
    log.probe("from_entropy_generators", rand::sim::generators());
    log.probe("clock_steps", sys.n_step);
    log.probe("clock_frequency_updates", sys.n_set_frequency);
    log.probe("bmca_runs_with_slave_decision", log.leap_calls.len() as u64);
    daemon.abort();
    delivery.abort();
    IN_HARNESS.store(false, Ordering::Relaxed);
    log
}

/// what a worker reports for one scenario
#[derive(Serialize, Deserialize, Clone, Debug, Default)]
pub struct ScenarioResult {
    pub id: u64,
    pub digest: u64,
    pub shape: u64,
    pub nontrivial: bool,
    pub violations: Vec<vcommon::Violation>,
    pub probes: BTreeMap<String, u64>,
    pub faults: BTreeMap<String, u64>,
    pub sim_seconds: f64,
    pub oracle_evals: u64,
    pub harness_error: Option<String>,
    #[serde(default)]
    pub trace: Vec<String>,
}

pub fn run_scenario(scn: &Scenario, want_trace: bool) -> ScenarioResult {
    let rt = tokio::runtime::Builder::new_current_thread()
        .enable_time()
        .start_paused(true)
        .rng_seed(tokio::runtime::RngSeed::from_bytes(&scn.seed.to_le_bytes()))
        .on_before_task_poll(|_| poll_tick())
        .build()
        .expect("runtime");
    let _ = crate::logcap::take();
    // C19 needs the debug-level round markers; the other checks keep capturing info and above
    crate::logcap::set_max_level(if scn.observe_ms.is_some() { 4 } else { 3 });
    let mut log = tracing::subscriber::with_default(crate::logcap::Capture, || rt.block_on(drive(scn)));
    // dropping the runtime drops the daemon's tasks (they never end by themselves)
    drop(rt);
    log.daemon_log = crate::logcap::take();
    for l in &log.daemon_log {
        if let Some((p, a, b)) = crate::logcap::parse_transition(&l.msg) {
            log.transitions.push((l.t_ns, p, a, b));
        }
    }
    log.probe("observation_reads", log.obs.len() as u64);
    let n_err = log.daemon_log.iter().filter(|l| l.level == 1).count() as u64;
    let n_warn = log.daemon_log.iter().filter(|l| l.level == 2).count() as u64;
    log.probe("daemon_log_errors", n_err);
    log.probe("daemon_log_warnings", n_warn);
    log.probe("port_state_transitions", log.transitions.len() as u64);
    let max_polls = POLLS.with(|p| p.get().2);
    log.probe(if max_polls < 100 { "max_task_polls_at_one_instant_below_100" } else if max_polls < 1000 { "max_task_polls_at_one_instant_below_1000" } else { "max_task_polls_at_one_instant_1000_or_more" }, 1);
    IN_HARNESS.store(true, Ordering::Relaxed);
    for (m, l, h) in PANICS.lock().unwrap().drain(..) {
        if h {
            log.harness_panics.push((m, l));
        } else {
            log.panics.push((m, l));
        }
    }
    let mut res = ScenarioResult { id: scn.id, sim_seconds: log.end_ns as f64 / 1e9, ..Default::default() };
    if let Some((m, l)) = log.harness_panics.first() {
        res.harness_error = Some(format!("harness panic: {m} at {l}"));
    }
    res.probes = log.probes.clone();
    crate::oracle::evaluate(scn, &log, &mut res);
    for (k, v) in &log.faults_fired {
        *res.faults.entry(k.clone()).or_insert(0) += v;
    }
    let mut h = vcommon::Fnv::new();
    h.u64(log.digest);
    if res.digest != 0 {
        // C19: the oracle left the hash of the documents read from the observation socket here
        h.u64(res.digest);
    }
    for v in &res.violations {
        h.str(&v.oracle);
        h.str(&v.key);
    }
    res.digest = h.finish();
    if want_trace {
        res.trace = crate::oracle::trace(scn, &log);
    }
    res
}

/// Entry point of a worker process (`DAEMONSIM_WORKER=<scenario.json> daemonsim -c <config>`).
pub fn worker_main(path: &str) -> ! {
    install_panic_hook();
    let txt = match std::fs::read_to_string(path) {
        Ok(t) => t,
        Err(e) => {
            eprintln!("HARNESS-ERROR: cannot read {path}: {e}");
            std::process::exit(2);
        }
    };
    let scn: Scenario = match serde_json::from_str(&txt) {
        Ok(s) => s,
        Err(e) => {
            eprintln!("HARNESS-ERROR: cannot parse {path}: {e}");
            std::process::exit(2);
        }
    };
    let want_trace = std::env::var("DAEMONSIM_TRACE").is_ok();
    let res = run_scenario(&scn, want_trace);
    println!("@@R {}", serde_json::to_string(&res).unwrap());
    std::process::exit(0);
}
