//! The parent side: generates the scenario list from VERIF_SEED, runs every
//! scenario in its own worker process (one daemon per process; up to 16 at a
//! time), merges results by scenario id, subtracts open known findings,
//! minimises one scenario per unlisted violation class by deletion, writes and
//! verifies replay files, writes the evidence part file.
use crate::scenario::*;
use crate::worker::ScenarioResult;
use serde::{Deserialize, Serialize};
use serde_json::json;
use std::collections::{BTreeMap, BTreeSet};
use std::path::{Path, PathBuf};
use std::process::{Command, Stdio};
use std::sync::atomic::{AtomicU64, Ordering};
use std::sync::Mutex;
use std::time::Instant;
use vcommon::{hash_str, match_known, KnownFinding, Tier, Violation};

static DIR_COUNTER: AtomicU64 = AtomicU64::new(0);
pub static WORKER_STARTS: AtomicU64 = AtomicU64::new(0);

pub fn threads() -> usize {
    std::env::var("VERIF_THREADS").ok().and_then(|s| s.parse().ok()).unwrap_or_else(|| std::thread::available_parallelism().map(|n| n.get()).unwrap_or(8)).clamp(1, 16)
}

pub fn base_seed() -> u64 {
    std::env::var("VERIF_SEED").ok().and_then(|s| s.parse().ok()).unwrap_or(1)
}

fn budget_scale() -> f64 {
    std::env::var("VERIF_BUDGET_SCALE").ok().and_then(|s| s.parse().ok()).unwrap_or(1.0)
}

/// /verif/known_findings.json, read-only. DAEMONSIM_KNOWN_FINDINGS names another file
/// (only used to test the known-finding path).
fn load_known() -> Vec<KnownFinding> {
    match std::env::var("DAEMONSIM_KNOWN_FINDINGS") {
        Ok(p) => match std::fs::read_to_string(&p).map_err(|e| e.to_string()).and_then(|s| serde_json::from_str(&s).map_err(|e| e.to_string())) {
            Ok(v) => v,
            Err(e) => {
                eprintln!("HARNESS-ERROR: cannot read {p}: {e}");
                std::process::exit(2);
            }
        },
        Err(_) => vcommon::load_known_findings(),
    }
}

fn out_root() -> PathBuf {
    PathBuf::from(vcommon::out_root())
}

/// digits removed: "seq=17" and "seq=18" are one class
fn class_key(k: &str) -> String {
    k.chars().filter(|c| !c.is_ascii_digit()).collect()
}

/// Run one scenario in a fresh worker process.
pub fn run_one(scn: &Scenario, trace: bool) -> Result<ScenarioResult, String> {
    let exe = std::env::current_exe().map_err(|e| format!("current_exe: {e}"))?;
    // fresh directory outside /verif and /repo: the daemon's config and the scenario script
    let dir = std::env::temp_dir().join(format!("daemonsim-{}-{}", std::process::id(), DIR_COUNTER.fetch_add(1, Ordering::Relaxed)));
    let _ = std::fs::remove_dir_all(&dir);
    std::fs::create_dir_all(&dir).map_err(|e| format!("cannot create {}: {e}", dir.display()))?;
    let cfg = dir.join("statime.toml");
    let scf = dir.join("scenario.json");
    let obs = dir.join("observe.sock");
    let w = std::fs::write(&cfg, scn.config_toml(if scn.observe_ms.is_some() { Some(obs.as_path()) } else { None })).and_then(|_| std::fs::write(&scf, serde_json::to_string(scn).unwrap()));
    if let Err(e) = w {
        let _ = std::fs::remove_dir_all(&dir);
        return Err(format!("cannot write worker input: {e}"));
    }
    WORKER_STARTS.fetch_add(1, Ordering::Relaxed);
    let mut cmd = Command::new(&exe);
    cmd.arg("-c").arg(&cfg).env("DAEMONSIM_WORKER", &scf).env("NO_COLOR", "1").stdin(Stdio::null()).stdout(Stdio::piped()).stderr(Stdio::piped());
    if trace {
        cmd.env("DAEMONSIM_TRACE", "1");
    } else {
        cmd.env_remove("DAEMONSIM_TRACE");
    }
    let out = cmd.output();
    let _ = std::fs::remove_dir_all(&dir);
    let out = out.map_err(|e| format!("cannot start worker: {e}"))?;
    let stdout = String::from_utf8_lossy(&out.stdout);
    for line in stdout.lines() {
        if let Some(j) = line.strip_prefix("@@R ") {
            return serde_json::from_str::<ScenarioResult>(j).map_err(|e| format!("scenario {}: unparsable result line: {e}", scn.id));
        }
        if let Some(t) = line.strip_prefix("@@LIVELOCK ") {
            // deterministic: more than LIVELOCK_POLLS task polls (or simclock::sim::LIVELOCK_OPS facade
            // operations) at one virtual instant
            let p = scn.property.clone();
            return Ok(ScenarioResult {
                id: scn.id,
                digest: hash_str(&format!("livelock {t}")),
                nontrivial: true,
                violations: vec![Violation { property: p.clone(), oracle: format!("{p}.daemon_livelock"), key: "kind=spins_at_one_instant".into(), message: format!("the daemon's tasks were polled more than {} times (or performed more than 3000000 socket/clock operations) without virtual time advancing past t={t} ns", crate::worker::LIVELOCK_POLLS) }],
                ..Default::default()
            });
        }
    }
    let stderr = String::from_utf8_lossy(&out.stderr);
    Err(format!("scenario {}: worker ended with {} and no result; stderr: {}", scn.id, out.status, stderr.lines().filter(|l| !l.trim().is_empty()).take(4).collect::<Vec<_>>().join(" | ")))
}

/// What a batch leaves behind: aggregates (sums and sets: independent of scheduling) and, per
/// scenario id, only what later steps need.
#[derive(Default)]
pub struct BatchOutput {
    /// full results, kept for ids below `keep_below` (samples, selftest)
    pub results: BTreeMap<u64, ScenarioResult>,
    /// (scenario id, violation)
    pub violations: Vec<(u64, Violation)>,
    pub harness_errors: Vec<String>,
    pub faults: BTreeMap<String, u64>,
    pub probes: BTreeMap<String, u64>,
    pub shapes: BTreeSet<u64>,
    pub evaluated: u64,
    pub nontrivial: u64,
    pub sim_seconds: f64,
    pub oracle_evals: u64,
}

impl BatchOutput {
    fn absorb(&mut self, id: u64, r: ScenarioResult, keep: bool) {
        for (k, v) in &r.faults {
            *self.faults.entry(k.clone()).or_insert(0) += v;
        }
        for (k, v) in &r.probes {
            *self.probes.entry(k.clone()).or_insert(0) += v;
        }
        if r.nontrivial {
            self.nontrivial += 1;
            self.shapes.insert(r.shape);
        }
        self.evaluated += 1;
        self.oracle_evals += r.oracle_evals;
        for v in &r.violations {
            self.violations.push((id, v.clone()));
        }
        if let Some(e) = &r.harness_error {
            self.harness_errors.push(format!("scenario {id}: {e}"));
        }
        if keep {
            self.results.insert(id, r);
        }
    }
    fn merge(&mut self, o: BatchOutput) {
        self.results.extend(o.results);
        self.violations.extend(o.violations);
        self.harness_errors.extend(o.harness_errors);
        for (k, v) in o.faults {
            *self.faults.entry(k).or_insert(0) += v;
        }
        for (k, v) in o.probes {
            *self.probes.entry(k).or_insert(0) += v;
        }
        self.shapes.extend(o.shapes);
        self.evaluated += o.evaluated;
        self.nontrivial += o.nontrivial;
        self.oracle_evals += o.oracle_evals;
    }
}

/// Run scenarios `gen(0..n)` on up to `threads` worker processes at a time (scenarios are
/// generated on demand and dropped). Everything kept is keyed by scenario id or is a sum / set:
/// nothing depends on which thread ran what or in which order.
pub fn run_batch(n: u64, gen: &(dyn Fn(u64) -> Scenario + Sync), threads: usize, reverse: bool, keep_below: u64) -> BatchOutput {
    let next = AtomicU64::new(0);
    let merged = Mutex::new(BatchOutput::default());
    // simulated seconds are summed in scenario order (floating point addition is not associative)
    let sims = Mutex::new(BTreeMap::<u64, f64>::new());
    std::thread::scope(|s| {
        for _ in 0..(threads as u64).min(n).max(1) {
            s.spawn(|| {
                let mut local = BatchOutput::default();
                let mut local_sims = Vec::new();
                loop {
                    let i = next.fetch_add(1, Ordering::Relaxed);
                    if i >= n {
                        break;
                    }
                    let scn = gen(if reverse { n - 1 - i } else { i });
                    match run_one(&scn, false) {
                        Ok(r) => {
                            local_sims.push((scn.id, r.sim_seconds));
                            local.absorb(scn.id, r, scn.id < keep_below);
                        }
                        Err(e) => local.harness_errors.push(e),
                    }
                }
                merged.lock().unwrap().merge(local);
                sims.lock().unwrap().extend(local_sims);
            });
        }
    });
    let mut out = merged.into_inner().unwrap();
    out.sim_seconds = sims.into_inner().unwrap().values().sum();
    out.harness_errors.sort();
    out.violations.sort_by(|a, b| (a.0, &a.1.oracle, &a.1.key).cmp(&(b.0, &b.1.oracle, &b.1.key)));
    out
}

pub fn budget(property: &str, tier: Tier) -> u64 {
    let base = match (property, tier) {
        ("C15", Tier::Quick) => 8000,
        ("C15", Tier::Thorough) => 200_000,
        ("C12", Tier::Quick) => 3500,
        ("C12", Tier::Thorough) => 80_000,
        ("C19", Tier::Quick) => 6000,
        ("C19", Tier::Thorough) => 100_000,
        _ => 0,
    };
    ((base as f64 * budget_scale()) as u64).max(8)
}

#[derive(Serialize, Deserialize, Clone, Debug)]
pub struct ReplayFile {
    pub property: String,
    pub family: String,
    pub tier: Tier,
    /// VERIF_SEED of the run that found it
    pub base_seed: u64,
    /// seed of the scenario's generator tape
    pub seed: u64,
    pub run_index: u64,
    pub oracle: String,
    pub key: String,
    pub message: String,
    pub digest: u64,
    pub minimised: bool,
    /// deletable script elements (steps, faults, announce plans, TLVs, endpoints) before / after
    pub elements_before: usize,
    pub elements_after: usize,
    pub scenario: Scenario,
    pub history: Vec<String>,
}

fn elements(s: &Scenario) -> usize {
    s.steps.len() + s.faults.len() + s.peers.iter().filter(|p| !p.disabled).map(|p| 1 + p.ann_plan.len() + p.ann_plan.iter().map(|a| a.tlvs.len()).sum::<usize>()).sum::<usize>()
}

fn same_violation<'a>(r: &'a ScenarioResult, oracle: &str, kc: &str, known: &[KnownFinding]) -> Option<&'a Violation> {
    r.violations.iter().find(|v| v.oracle == oracle && class_key(&v.key) == kc && match_known(known, v).is_none())
}

/// Minimise by deletion: a candidate is kept while the same oracle (same key class) still fires.
fn minimise(scn: &Scenario, oracle: &str, kc: &str, known: &[KnownFinding], max_runs: usize, max_secs: f64) -> (Scenario, usize) {
    let t0 = Instant::now();
    let mut best = scn.clone();
    let mut runs = 0usize;
    let attempt = |cand: Scenario, best: &mut Scenario, runs: &mut usize| -> bool {
        if *runs >= max_runs || t0.elapsed().as_secs_f64() > max_secs || cand == *best {
            return false;
        }
        *runs += 1;
        match run_one(&cand, false) {
            Ok(r) if same_violation(&r, oracle, kc, known).is_some() => {
                *best = cand;
                true
            }
            _ => false,
        }
    };
    // 1. all faults, all steps, every extra endpoint at once
    let mut c = best.clone();
    c.faults.clear();
    attempt(c, &mut best, &mut runs);
    let mut c = best.clone();
    c.steps.clear();
    attempt(c, &mut best, &mut runs);
    for i in (1..best.peers.len()).rev() {
        if !best.peers[i].disabled {
            let mut c = best.clone();
            c.peers[i].disabled = true;
            c.peers[i].ann_plan.clear();
            attempt(c, &mut best, &mut runs);
        }
    }
    // 2. one by one
    let mut i = best.faults.len();
    while i > 0 {
        i -= 1;
        let mut c = best.clone();
        c.faults.remove(i);
        attempt(c, &mut best, &mut runs);
    }
    let mut i = best.steps.len();
    while i > 0 {
        i -= 1;
        let mut c = best.clone();
        c.steps.remove(i);
        attempt(c, &mut best, &mut runs);
    }
    // 3. announce plans: later bursts first (then the scenario can end earlier), then single TLVs
    for p in 0..best.peers.len() {
        // halves first
        let n = best.peers[p].ann_plan.len();
        if n > 3 {
            let mut c = best.clone();
            c.peers[p].ann_plan.truncate(n / 2);
            if !attempt(c, &mut best, &mut runs) {
                let mut c = best.clone();
                c.peers[p].ann_plan.drain(..n / 2);
                attempt(c, &mut best, &mut runs);
            }
        }
        let mut i = best.peers[p].ann_plan.len();
        while i > 0 {
            i -= 1;
            let mut c = best.clone();
            c.peers[p].ann_plan.remove(i);
            attempt(c, &mut best, &mut runs);
        }
        for a in (0..best.peers[p].ann_plan.len()).rev() {
            let mut k = best.peers[p].ann_plan[a].tlvs.len();
            while k > 0 {
                k -= 1;
                let mut c = best.clone();
                c.peers[p].ann_plan[a].tlvs.remove(k);
                attempt(c, &mut best, &mut runs);
            }
        }
    }
    // 4. end the scenario earlier (C15: right after the last planned burst had its two intervals)
    if best.property == "C15" {
        let i_max = best.daemon.ports.iter().map(|p| p.announce_ns()).max().unwrap();
        let last = best.peers.iter().filter(|p| !p.disabled).flat_map(|p| p.ann_plan.iter().map(move |a| p.phase_us * US + a.n as u64 * interval_ns(p.announce_log))).max();
        if let Some(last) = last {
            let end = (last + 3 * i_max + 500 * MS) / MS;
            if end < best.end_ms {
                let mut c = best.clone();
                c.end_ms = end;
                attempt(c, &mut best, &mut runs);
            }
        }
    }
    (best, runs)
}

struct Found {
    id: u64,
    v: Violation,
}

pub fn family(property: &str) -> String {
    format!("daemon-{property}")
}

/// `daemonsim check <ID> <tier>`
pub fn check(property: &str, tier: Tier) -> i32 {
    let t0 = Instant::now();
    let seed = base_seed();
    let n = budget(property, tier);
    let threads = threads();
    let known = load_known();
    let gen = |i: u64| generate(property, seed, i, tier);
    let out = run_batch(n, &gen, threads, false, 3);
    let run_wall = t0.elapsed().as_secs_f64();

    let mut harness_errors = out.harness_errors.clone();
    let mut classes: BTreeMap<(String, String), Vec<Found>> = BTreeMap::new();
    let mut known_hits: BTreeMap<String, (u64, String)> = BTreeMap::new();
    let faults = out.faults.clone();
    let probes = out.probes.clone();
    let shapes = &out.shapes;
    let nontrivial = out.nontrivial;
    let sim_seconds = out.sim_seconds;
    let oracle_evals = out.oracle_evals;
    let mut panics: BTreeSet<String> = BTreeSet::new();
    for (id, v) in &out.violations {
        if v.oracle.ends_with("daemon_panic") {
            panics.insert(v.key.clone());
        }
        if let Some(k) = match_known(&known, v) {
            let idk = format!("{} {}", k.oracle, k.key_contains.join(","));
            known_hits.entry(idk).or_insert((0, k.what.clone())).0 += 1;
        } else {
            classes.entry((v.oracle.clone(), class_key(&v.key))).or_default().push(Found { id: *id, v: v.clone() });
        }
    }
    if out.evaluated != n {
        harness_errors.push(format!("{} of {n} scenarios produced a result", out.evaluated));
    }

    let max_min: usize = std::env::var("VERIF_MAX_MIN").ok().and_then(|s| s.parse().ok()).unwrap_or(6);
    std::fs::create_dir_all(out_root().join("replays")).ok();
    let mut violation_lines = Vec::new();
    let mut n_classes = 0usize;
    for ((oracle, kc), list) in &classes {
        n_classes += 1;
        let first = list.iter().min_by_key(|f| f.id).unwrap();
        let scn = &gen(first.id);
        let before = elements(scn);
        let (min_scn, min_runs) = if n_classes <= max_min { minimise(scn, oracle, kc, &known, 160, 40.0) } else { (scn.clone(), 0) };
        // the replay file is only announced after a fresh worker reproduced it
        let verdict = run_one(&min_scn, true);
        let (v, digest, history) = match &verdict {
            Ok(r) => match same_violation(r, oracle, kc, &known) {
                Some(v) => (v.clone(), r.digest, r.trace.clone()),
                None => {
                    harness_errors.push(format!("minimised scenario {} lost its violation {oracle}", first.id));
                    (first.v.clone(), 0, Vec::new())
                }
            },
            Err(e) => {
                harness_errors.push(e.clone());
                (first.v.clone(), 0, Vec::new())
            }
        };
        let rf = ReplayFile {
            property: property.to_string(),
            family: family(property),
            tier,
            base_seed: seed,
            seed: vcommon::run_seed(seed, &family(property), first.id),
            run_index: first.id,
            oracle: v.oracle.clone(),
            key: v.key.clone(),
            message: v.message.clone(),
            digest,
            minimised: min_runs > 0,
            elements_before: before,
            elements_after: elements(&min_scn),
            scenario: min_scn,
            history,
        };
        let h = hash_str(&format!("{}{}", rf.oracle, class_key(&rf.key)));
        let path = out_root().join("replays").join(format!("{}-daemon-{}-{:08x}.json", property, rf.seed, h as u32));
        if let Err(e) = std::fs::write(&path, serde_json::to_string_pretty(&rf).unwrap()) {
            harness_errors.push(format!("cannot write {}: {e}", path.display()));
        }
        // verify the file itself in a fresh process
        match std::env::current_exe().ok().and_then(|exe| Command::new(exe).arg("replay").arg(&path).arg("--quiet").output().ok()) {
            Some(o) if String::from_utf8_lossy(&o.stdout).contains("REPRODUCED") => {}
            Some(o) => harness_errors.push(format!("replay of {} did not reproduce: {}", path.display(), String::from_utf8_lossy(&o.stdout).lines().next().unwrap_or(""))),
            None => harness_errors.push("could not start the replay process".into()),
        }
        println!(
            "violation: oracle={} key={} scenarios_hit={} first_index={} seed={} minimise_runs={} elements {}->{}\n  {}",
            v.oracle,
            v.key,
            list.len(),
            first.id,
            rf.seed,
            min_runs,
            rf.elements_before,
            rf.elements_after,
            v.message
        );
        violation_lines.push(format!("VIOLATION property={} replay={}", property, path.display()));
    }
    for (id, (n, what)) in &known_hits {
        println!("KNOWN-FINDING: property={} {} ({} scenarios) {}", property, id, n, what);
    }
    for l in &violation_lines {
        println!("{l}");
    }
    for e in harness_errors.iter().take(10) {
        eprintln!("HARNESS-ERROR: {e}");
    }

    let wall = t0.elapsed().as_secs_f64();
    let samples: Vec<serde_json::Value> = (0..n.min(3))
        .map(|i| gen(i))
        .map(|s| {
            let r = out.results.get(&s.id);
            json!({"scenario": s, "outcome": r.map(|r| json!({"digest": r.digest, "nontrivial": r.nontrivial, "violations": r.violations, "simulated_seconds": r.sim_seconds, "faults_fired": r.faults}))})
        })
        .collect();
    let rule = match property {
        "C15" => "a scenario is non-trivial when, by the end of the warm-up, the port facing the scripted parent has stopped announcing (slave) and every other port announces the parent's grandmaster, and at least one propagating TLV reached the slave port afterwards; distinct = distinct fingerprints of (port modes, intervals, timeouts, path-trace, slave port, endpoint placement and quality class, per TLV burst: phase bucket relative to the nominal BMCA run, number of propagating and other TLVs; fault kinds)",
        "C19" => "a scenario is non-trivial when at least one document read from the real observation socket shows a slave port with a non-zero offset_from_master (the filter has measurements); the probes count the BMCA rounds in which the BMCA itself took the slave role away or moved it; distinct = distinct fingerprints of (port modes, delay mechanisms, intervals, endpoints and their quality classes, step sequence, fault kinds)",
        _ => "every scenario evaluates the tail oracle on every port (non-trivial when the daemon booted and the tail ran); distinct = distinct fingerprints of (port modes, delay mechanisms, intervals, timeouts, endpoints, prelude step sequence, fault kinds, tail variant)",
    };
    let evidence = json!({
        "property_id": property,
        "part": "daemon",
        "tier": tier.name(),
        "seed": seed,
        "level": "exploration",
        "coverage": {
            "evaluations": out.evaluated,
            "distinct_nontrivial": shapes.len(),
            "rule": rule,
            "samples": samples,
            "exhaustive": false,
            "nontrivial_runs": nontrivial,
            "oracle_evaluations": oracle_evals,
            "faults_fired": faults,
            "probes": probes,
            "simulated_seconds": sim_seconds,
            "runs_per_hour": if run_wall > 0.0 { (out.evaluated as f64 / run_wall * 3600.0) as u64 } else { 0 },
            "simulated_seconds_per_wall_second": if run_wall > 0.0 { sim_seconds / run_wall } else { 0.0 },
            "families": [{"family": family(property), "runs": out.evaluated, "nontrivial": nontrivial, "distinct": shapes.len()}],
            "components": {
                "real": [
                    "statime-linux/src/main.rs unmodified, included verbatim: actual_main (clap argument parsing, config file, instance and port construction, socket opening, task spawning), run (stop-the-world BMCA loop), port_task, ethernet_port_task, handle_actions, handle_actions_ethernet, Timer, Timers, get_clock_id",
                    "statime-linux library unmodified (shadow manifest): config parsing, socket.rs (multicast groups, ports), clock/mod.rs LinuxClock, tlvforwarder.rs TlvForwarder, observer::spawn / observer / write_json (C19: serving the observation socket after every BMCA round; C12, C15: no observation-path, returns at once), metrics::exporter::ObservableState (C19: the reader's type), tracing/logging initialisation",
                    "statime library (PtpInstance, Port state machines, BMCA, Kalman filter steering the simulated system clock)",
                    "tokio 1.x runtime (current-thread, paused clock, seeded select!), tokio::time, sync::{mpsc, watch, broadcast}",
                    "toml, serde, clap, rand's StdRng algorithm (seeded from the scenario)"
                ],
                "stub": [
                    "timestamped-socket (facade simsock: simulated interfaces, sockets, multicast membership, receive/transmit timestamps, 200 ms timestamp timeout)",
                    "clock-steering (facade simclock: system clock as an affine function of virtual time, adjustable by set_frequency/step_clock)",
                    "rand::rngs::StdRng::from_entropy (facade simrand: seed from the scenario instead of the OS)",
                    "tokio::net (in-memory UnixListener/UnixStream of expsim's simtokio facade; C19: the real observer task serves the observation socket through it; everything else of tokio is the real crate)",
                    "every other PTP node (scripted endpoints speaking through the independent reference codec ptpsim::wire); C19: the unix client of the observation socket is the harness",
                    "hardware clocks / start_clock_task (every port uses hardware-clock = \"none\"; clock_task is compiled but not started)"
                ]
            },
            "sut_panics": panics.iter().collect::<Vec<_>>(),
            "known_findings_matched": known_hits.iter().map(|(k, (n, _))| json!({"finding": k, "runs": n})).collect::<Vec<_>>(),
            "unlisted_violation_classes": n_classes,
            "threads": threads,
            "worker_processes_started": WORKER_STARTS.load(Ordering::Relaxed),
            "notes": [
                "one unmodified daemon per worker process; every scenario is a separate process",
                "evidence part of the daemon-level check; the library-level check of the same property writes <ID>.json and merges this file"
            ],
        },
        "assumptions": [
            "the kernel delivers software receive timestamps for every frame and transmit timestamps through the error queue unless the fault plan withholds them",
            "tokio's timer wheel has 1 ms resolution: host wake-ups happen on ms boundaries of virtual time, timestamps are exact"
        ],
        "wall_s": wall,
        "violations": n_classes,
    });
    let evdir = out_root().join("evidence");
    std::fs::create_dir_all(&evdir).ok();
    let evpath = evdir.join(format!("{property}.daemon.part.json"));
    if let Err(e) = std::fs::write(&evpath, serde_json::to_string_pretty(&evidence).unwrap()) {
        eprintln!("HARNESS-ERROR: cannot write {}: {e}", evpath.display());
        return 2;
    }
    println!(
        "{} {} (daemon): scenarios={} nontrivial={} distinct={} sim_s={:.0} wall_s={:.1} violations={} known={}",
        property,
        tier.name(),
        out.evaluated,
        nontrivial,
        shapes.len(),
        sim_seconds,
        wall,
        n_classes,
        known_hits.len()
    );
    if !harness_errors.is_empty() {
        return 2;
    }
    if n_classes > 0 {
        1
    } else {
        0
    }
}

/// `daemonsim merge-evidence <ID>`: merge `<ID>.daemon.part.json` into `<ID>.json` the way
/// vcommon::batch::merge_parts does for the ptpsim checks (counts added, three samples appended,
/// the part kept under coverage.parts.daemon, violations and wall time added; the part file is
/// consumed). For properties whose main evidence is written by an engine that does not merge parts
/// itself (C19: expsim). Run it after both checks.
pub fn merge_evidence(property: &str) -> i32 {
    let evdir = out_root().join("evidence");
    let main_p = evdir.join(format!("{property}.json"));
    let part_p = evdir.join(format!("{property}.daemon.part.json"));
    let read = |p: &Path| std::fs::read_to_string(p).ok().and_then(|t| serde_json::from_str::<serde_json::Value>(&t).ok());
    let Some(part) = read(&part_p) else {
        eprintln!("HARNESS-ERROR: no readable {}", part_p.display());
        return 2;
    };
    let Some(mut ev) = read(&main_p) else {
        eprintln!("HARNESS-ERROR: no readable {} (run the main check first)", main_p.display());
        return 2;
    };
    let cov = part["coverage"].clone();
    let num = |v: &serde_json::Value, k: &str| v.get(k).and_then(|x| x.as_u64()).unwrap_or(0);
    {
        let c = &mut ev["coverage"];
        c["evaluations"] = json!(num(c, "evaluations") + num(&cov, "evaluations"));
        c["distinct_nontrivial"] = json!(num(c, "distinct_nontrivial") + num(&cov, "distinct_nontrivial"));
        let mut samples = c["samples"].as_array().cloned().unwrap_or_default();
        samples.extend(cov["samples"].as_array().cloned().unwrap_or_default().into_iter().take(3));
        c["samples"] = json!(samples);
        let mut fams = c["families"].as_array().cloned().unwrap_or_default();
        fams.extend(cov["families"].as_array().cloned().unwrap_or_default());
        c["families"] = json!(fams);
        for k in ["faults_fired", "probes"] {
            if let Some(m) = cov.get(k).and_then(|m| m.as_object()) {
                for (kk, vv) in m {
                    let cur = c[k].get(kk).and_then(|x| x.as_u64()).unwrap_or(0);
                    c[k][kk] = json!(cur + vv.as_u64().unwrap_or(0));
                }
            }
        }
        let mut kept = cov.clone();
        if let Some(o) = kept.as_object_mut() {
            o.remove("samples");
        }
        c["parts"]["daemon"] = kept;
    }
    ev["violations"] = json!(num(&ev, "violations") + num(&part, "violations"));
    ev["wall_s"] = json!(ev["wall_s"].as_f64().unwrap_or(0.0) + part["wall_s"].as_f64().unwrap_or(0.0));
    if let Err(e) = std::fs::write(&main_p, serde_json::to_string_pretty(&ev).unwrap()) {
        eprintln!("HARNESS-ERROR: cannot write {}: {e}", main_p.display());
        return 2;
    }
    std::fs::remove_file(&part_p).ok();
    println!("merged {} into {}", part_p.display(), main_p.display());
    0
}

/// `daemonsim replay <file> [--quiet]`
pub fn replay(path: &str, quiet: bool) -> i32 {
    let txt = match std::fs::read_to_string(path) {
        Ok(t) => t,
        Err(e) => {
            eprintln!("HARNESS-ERROR: cannot read {path}: {e}");
            return 2;
        }
    };
    let rf: ReplayFile = match serde_json::from_str(&txt) {
        Ok(r) => r,
        Err(e) => {
            eprintln!("HARNESS-ERROR: cannot parse {path}: {e}");
            return 2;
        }
    };
    let r = match run_one(&rf.scenario, true) {
        Ok(r) => r,
        Err(e) => {
            eprintln!("HARNESS-ERROR: {e}");
            return 2;
        }
    };
    let kc = class_key(&rf.key);
    match r.violations.iter().find(|v| v.oracle == rf.oracle && class_key(&v.key) == kc) {
        Some(v) => {
            println!("REPRODUCED oracle={} key={} digest_match={}", v.oracle, v.key, r.digest == rf.digest);
            if !quiet {
                println!("  {}", v.message);
                println!("history ({} lines):", r.trace.len());
                for l in &r.trace {
                    println!("  {l}");
                }
            }
            println!("VIOLATION property={} replay={}", rf.property, Path::new(path).display());
            1
        }
        None => {
            println!("NOT-REPRODUCED oracle={} key={} (violations now: {:?})", rf.oracle, rf.key, r.violations.iter().map(|v| &v.oracle).collect::<Vec<_>>());
            if Path::new(path).exists() {
                2
            } else {
                2
            }
        }
    }
}

/// `daemonsim selftest`: the same scenarios twice, with different worker counts and in
/// opposite orders; verdicts, shapes and digests must be identical.
pub fn selftest() -> i32 {
    let seed = base_seed();
    let n15 = ((500.0 * budget_scale()) as u64).max(4);
    let n12 = ((400.0 * budget_scale()) as u64).max(4);
    let n19 = ((300.0 * budget_scale()) as u64).max(4);
    let gen = |i: u64| {
        let mut s = if i < n15 {
            generate("C15", seed, i, Tier::Quick)
        } else if i < n15 + n12 {
            generate("C12", seed, i - n15, Tier::Quick)
        } else {
            generate("C19", seed, i - n15 - n12, Tier::Quick)
        };
        s.id = i;
        s
    };
    let total = n15 + n12 + n19;
    let scenarios: Vec<Scenario> = (0..total).map(|i| gen(i)).collect();
    let t0 = Instant::now();
    let a = run_batch(total, &gen, 5, false, u64::MAX);
    let ta = t0.elapsed().as_secs_f64();
    let b = run_batch(total, &gen, threads().max(2), true, u64::MAX);
    let tb = t0.elapsed().as_secs_f64() - ta;
    let mut diffs = 0;
    for s in &scenarios {
        let (ra, rb) = (a.results.get(&s.id), b.results.get(&s.id));
        let same = match (ra, rb) {
            (Some(x), Some(y)) => x.digest == y.digest && x.shape == y.shape && x.violations == y.violations && x.probes == y.probes && x.faults == y.faults,
            _ => false,
        };
        if !same {
            diffs += 1;
            if diffs <= 5 {
                println!("DIFFERENT scenario {} {}: {:?} vs {:?}", s.property, s.id, ra.map(|r| (r.digest, &r.violations)), rb.map(|r| (r.digest, &r.violations)));
            }
        }
    }
    let viol: usize = a.results.values().filter(|r| !r.violations.is_empty()).count();
    // fingerprints per property over (id, digest, shape, verdicts): to compare builds
    let mut fps: BTreeMap<String, vcommon::Fnv> = BTreeMap::new();
    for s in &scenarios {
        if let Some(r) = a.results.get(&s.id) {
            let f = fps.entry(s.property.clone()).or_default();
            f.u64(r.digest);
            f.u64(r.shape);
            for v in &r.violations {
                f.str(&v.oracle);
                f.str(&v.key);
            }
        }
    }
    for (p, f) in &fps {
        println!("fingerprint {p} = {:016x}", f.finish());
    }
    println!(
        "selftest: {} scenarios ({} C15 + {} C12 + {n19} C19) run twice (5 workers forward in {:.1}s, {} workers backward in {:.1}s): {} with violations, {} differences, harness errors {}",
        scenarios.len(),
        n15,
        n12,
        ta,
        threads().max(2),
        tb,
        viol,
        diffs,
        a.harness_errors.len() + b.harness_errors.len()
    );
    for e in a.harness_errors.iter().chain(b.harness_errors.iter()).take(5) {
        eprintln!("HARNESS-ERROR: {e}");
    }
    let agg_same = a.faults == b.faults && a.probes == b.probes && a.shapes == b.shapes && a.violations == b.violations && a.sim_seconds.to_bits() == b.sim_seconds.to_bits();
    if !agg_same {
        println!("DIFFERENT aggregates between the two passes");
    }
    if diffs == 0 && agg_same && a.harness_errors.is_empty() && b.harness_errors.is_empty() {
        println!("DETERMINISTIC");
        0
    } else {
        2
    }
}
