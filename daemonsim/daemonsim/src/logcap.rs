//! Captures what the daemon logs (through `log` -> tracing-log's LogTracer ->
//! the current tracing dispatcher) with the virtual instant of each line.
//! Installed as the THREAD's scoped default subscriber around the runtime, so
//! it takes precedence over the global fmt subscriber the daemon installs and
//! nothing is printed. Used for: port state transitions (keys of C12
//! violations, histories), the daemon's own error reports. No verdict about
//! timing or frames is derived from log lines.
use std::cell::RefCell;
use std::fmt::Write;
use tracing::field::{Field, Visit};
use tracing::{span, Event, Level, Metadata, Subscriber};

#[derive(Clone, Debug)]
pub struct Line {
    pub t_ns: u64,
    pub level: u8, // 1 error .. 5 trace
    /// sequence number of the task poll during which the line was logged: everything one poll of
    /// the daemon's main task logs (a whole BMCA round) shares it
    pub poll: u64,
    pub msg: String,
}

thread_local! {
    static LINES: RefCell<Vec<Line>> = const { RefCell::new(Vec::new()) };
    /// most verbose level captured: 3 = info (default), 4 = debug (C19: the per-round
    /// "Recommended state port N" lines mark the BMCA rounds)
    static MAX_LEVEL: std::cell::Cell<u8> = const { std::cell::Cell::new(3) };
    static ROUNDS: std::cell::Cell<u64> = const { std::cell::Cell::new(0) };
}

pub fn set_max_level(l: u8) {
    MAX_LEVEL.with(|m| m.set(l));
}

/// BMCA rounds logged so far (needs debug level)
pub fn rounds_seen() -> u64 {
    ROUNDS.with(|r| r.get())
}

pub const ROUND_MARKER: &str = "Recommended state port ";

pub fn take() -> Vec<Line> {
    ROUNDS.with(|r| r.set(0));
    LINES.with(|l| std::mem::take(&mut *l.borrow_mut()))
}

pub struct Capture;

struct Msg(String);
impl Visit for Msg {
    fn record_debug(&mut self, field: &Field, value: &dyn std::fmt::Debug) {
        if field.name() == "message" {
            let _ = write!(self.0, "{value:?}");
        }
    }
    fn record_str(&mut self, field: &Field, value: &str) {
        if field.name() == "message" {
            self.0.push_str(value);
        }
    }
}

impl Subscriber for Capture {
    fn enabled(&self, m: &Metadata<'_>) -> bool {
        let l = match *m.level() {
            Level::ERROR => 1,
            Level::WARN => 2,
            Level::INFO => 3,
            Level::DEBUG => 4,
            Level::TRACE => 5,
        };
        l <= MAX_LEVEL.with(|m| m.get())
    }
    fn new_span(&self, _: &span::Attributes<'_>) -> span::Id {
        span::Id::from_u64(1)
    }
    fn record(&self, _: &span::Id, _: &span::Record<'_>) {}
    fn record_follows_from(&self, _: &span::Id, _: &span::Id) {}
    fn event(&self, ev: &Event<'_>) {
        let mut m = Msg(String::new());
        ev.record(&mut m);
        let level = match *ev.metadata().level() {
            Level::ERROR => 1,
            Level::WARN => 2,
            Level::INFO => 3,
            Level::DEBUG => 4,
            Level::TRACE => 5,
        };
        let t_ns = clock_steering::sim::vt_ns();
        if level == 4 {
            // of the debug lines only the round markers are kept
            if !m.0.starts_with(ROUND_MARKER) {
                return;
            }
            if m.0.starts_with("Recommended state port 1:") {
                ROUNDS.with(|r| r.set(r.get() + 1));
            }
        }
        LINES.with(|l| l.borrow_mut().push(Line { t_ns, level, poll: crate::worker::poll_seq(), msg: m.0 }));
    }
    fn enter(&self, _: &span::Id) {}
    fn exit(&self, _: &span::Id) {}
}

/// "new state for port 2: Listening -> Master" -> (port index 1, "Listening", "Master")
pub fn parse_transition(msg: &str) -> Option<(usize, String, String)> {
    let rest = msg.strip_prefix("new state for port ")?;
    let (n, rest) = rest.split_once(": ")?;
    let (a, b) = rest.split_once(" -> ")?;
    let n: usize = n.trim().parse().ok()?;
    Some((n.checked_sub(1)?, a.trim().to_string(), b.trim().to_string()))
}
