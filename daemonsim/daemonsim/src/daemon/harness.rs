//! Child module of the module that `include!`s the unmodified
//! /repo/statime-linux/src/main.rs: the only place that can name its private items.
use super::*;

/// The daemon's real entry point (`actual_main`): parses `-c <file>` from the process
/// arguments, builds the instance, opens the sockets, spawns the port tasks, runs the
/// BMCA loop; never returns.
pub fn boot() -> impl Future<Output = ()> + Send + 'static {
    actual_main()
}
