//! Scenario scripts (what a worker executes, what a replay file stores) and
//! their generators. Every random decision is drawn HERE, by the parent, from
//! `vcommon::Chooser` streams seeded by VERIF_SEED; the worker only derives
//! per-link jitter choosers from `Scenario::seed`.
use serde::{Deserialize, Serialize};
use vcommon::tape::{S_CFG, S_FAULT, S_HOST, S_NET, S_WORK};
use vcommon::{Chooser, Tier};

pub const MS: u64 = 1_000_000;
pub const US: u64 = 1_000;

#[derive(Serialize, Deserialize, Clone, Copy, Debug, PartialEq, Eq)]
#[serde(rename_all = "lowercase")]
pub enum Mode {
    Ipv4,
    Ipv6,
    Ethernet,
}

impl Mode {
    pub fn name(self) -> &'static str {
        match self {
            Mode::Ipv4 => "ipv4",
            Mode::Ipv6 => "ipv6",
            Mode::Ethernet => "ethernet",
        }
    }
}

#[derive(Serialize, Deserialize, Clone, Debug, PartialEq)]
pub struct PortCfg {
    pub mode: Mode,
    pub announce_log: i8,
    pub sync_log: i8,
    pub delay_log: i8,
    pub receipt_timeout: u8,
    pub p2p: bool,
    pub master_only: bool,
    pub mac: [u8; 6],
    /// one-way wire delay of the segment
    pub delay_ns: u64,
    /// extra per-frame delay drawn in 0..=jitter_ns (never on Announces in C15)
    pub jitter_ns: u64,
    pub egress_ns: u64,
}

impl PortCfg {
    pub fn announce_ns(&self) -> u64 {
        interval_ns(self.announce_log)
    }
    pub fn sync_ns(&self) -> u64 {
        interval_ns(self.sync_log)
    }
    pub fn delay_req_ns(&self) -> u64 {
        interval_ns(self.delay_log)
    }
}

pub fn interval_ns(log: i8) -> u64 {
    if log >= 0 {
        1_000_000_000u64 << log
    } else {
        1_000_000_000u64 >> (-log)
    }
}

#[derive(Serialize, Deserialize, Clone, Debug, PartialEq)]
pub struct DaemonCfg {
    /// write `identity = ...` into the config (otherwise it is derived from the first MAC)
    pub identity_in_config: bool,
    pub identity: [u8; 8],
    pub priority1: u8,
    pub priority2: u8,
    pub path_trace: bool,
    pub ports: Vec<PortCfg>,
    pub loglevel: String,
}

#[derive(Serialize, Deserialize, Clone, Debug, PartialEq)]
pub struct ClockCfg {
    /// daemon's TAI clock minus the scripted masters' time base at boot
    pub offset_ns: i64,
    pub drift_ppb: i64,
    pub tai: i32,
}

#[derive(Serialize, Deserialize, Clone, Debug, PartialEq)]
pub struct Gm {
    pub priority1: u8,
    pub class: u8,
    pub accuracy: u8,
    pub variance: u16,
    pub priority2: u8,
    pub identity: [u8; 8],
    pub steps_removed: u16,
}

#[derive(Serialize, Deserialize, Clone, Debug, PartialEq)]
pub struct TlvSpec {
    pub typ: u16,
    pub value: Vec<u8>,
}

/// what is special about the n-th Announce slot of a peer
#[derive(Serialize, Deserialize, Clone, Debug, PartialEq)]
pub struct AnnPlan {
    pub n: u32,
    /// shift of the send instant relative to the nominal slot
    pub shift_us: i64,
    pub tlvs: Vec<TlvSpec>,
    /// generator's note: how far before (+) the nominal BMCA tick the frame is meant to arrive
    #[serde(default)]
    pub aim_before_bmca_us: Option<i64>,
}

#[derive(Serialize, Deserialize, Clone, Debug, PartialEq)]
pub struct Peer {
    pub name: String,
    /// daemon port whose segment this endpoint sits on
    pub port: usize,
    pub clock_id: [u8; 8],
    pub port_no: u16,
    pub gm: Gm,
    pub announce_log: i8,
    pub sync_log: i8,
    pub two_step: bool,
    pub announces: bool,
    pub syncs: bool,
    pub answer_delay: bool,
    pub answer_pdelay: bool,
    /// PATH_TRACE TLV carried by every Announce (empty = none)
    pub path: Vec<[u8; 8]>,
    pub phase_us: u64,
    pub clock_offset_ns: i64,
    pub on_at_start: bool,
    pub ann_plan: Vec<AnnPlan>,
    /// minimiser: endpoint removed from the scenario
    #[serde(default)]
    pub disabled: bool,
}

#[derive(Serialize, Deserialize, Clone, Debug, PartialEq)]
#[serde(tag = "op", rename_all = "snake_case")]
pub enum Op {
    PeerOn { peer: usize },
    PeerOff { peer: usize },
    SetPriority1 { peer: usize, value: u8 },
}

#[derive(Serialize, Deserialize, Clone, Debug, PartialEq)]
pub struct Step {
    pub at_ms: u64,
    #[serde(flatten)]
    pub op: Op,
}

#[derive(Serialize, Deserialize, Clone, Copy, Debug, PartialEq, Eq, PartialOrd, Ord)]
#[serde(rename_all = "snake_case")]
pub enum Class {
    Announce,
    Sync,
    FollowUp,
    DelayReq,
    DelayResp,
    PdelayReq,
    PdelayResp,
    PdelayRespFollowUp,
    Other,
}

impl Class {
    pub fn of(bytes: &[u8]) -> Class {
        match bytes.first().map(|b| b & 0x0f) {
            Some(0x0) => Class::Sync,
            Some(0x1) => Class::DelayReq,
            Some(0x2) => Class::PdelayReq,
            Some(0x3) => Class::PdelayResp,
            Some(0x8) => Class::FollowUp,
            Some(0x9) => Class::DelayResp,
            Some(0xa) => Class::PdelayRespFollowUp,
            Some(0xb) => Class::Announce,
            _ => Class::Other,
        }
    }
    pub fn name(self) -> &'static str {
        match self {
            Class::Announce => "Announce",
            Class::Sync => "Sync",
            Class::FollowUp => "Follow_Up",
            Class::DelayReq => "Delay_Req",
            Class::DelayResp => "Delay_Resp",
            Class::PdelayReq => "Pdelay_Req",
            Class::PdelayResp => "Pdelay_Resp",
            Class::PdelayRespFollowUp => "Pdelay_Resp_Follow_Up",
            Class::Other => "other",
        }
    }
}

#[derive(Serialize, Deserialize, Clone, Copy, Debug, PartialEq, Eq)]
#[serde(rename_all = "snake_case")]
pub enum FrameFault {
    Drop,
    Dup,
    DelayUs(u32),
}

#[derive(Serialize, Deserialize, Clone, Copy, Debug, PartialEq, Eq)]
#[serde(rename_all = "snake_case")]
pub enum TsFault {
    /// the NIC / kernel never delivers the transmit timestamp (send returns None after 200 ms)
    NoTimestamp,
    LateMs(u32),
}

#[derive(Serialize, Deserialize, Clone, Copy, Debug, PartialEq, Eq)]
#[serde(rename_all = "snake_case")]
pub enum SockSel {
    Event,
    General,
    Eth,
}

#[derive(Serialize, Deserialize, Clone, Debug, PartialEq)]
#[serde(tag = "fault", rename_all = "snake_case")]
pub enum Fault {
    /// the nth send on a socket of a daemon port gets no / a late transmit timestamp
    TxTimestamp { port: usize, sock: SockSel, nth: u64, kind: TsFault },
    /// the nth frame of a class from a scripted endpoint to the daemon
    ToDaemon { peer: usize, class: Class, nth: u64, kind: FrameFault },
    /// the nth frame of a class the daemon emits on a port, on its way to the endpoints
    FromDaemon { port: usize, class: Class, nth: u64, kind: FrameFault },
}

impl Fault {
    pub fn kind_name(&self) -> String {
        match self {
            Fault::TxTimestamp { kind: TsFault::NoTimestamp, .. } => "tx_timestamp_lost".into(),
            Fault::TxTimestamp { kind: TsFault::LateMs(_), .. } => "tx_timestamp_late".into(),
            Fault::ToDaemon { kind, class, .. } => format!("to_daemon_{}_{}", ff_name(*kind), class.name()),
            Fault::FromDaemon { kind, class, .. } => format!("from_daemon_{}_{}", ff_name(*kind), class.name()),
        }
    }
}

fn ff_name(k: FrameFault) -> &'static str {
    match k {
        FrameFault::Drop => "drop",
        FrameFault::Dup => "dup",
        FrameFault::DelayUs(_) => "delay",
    }
}

#[derive(Serialize, Deserialize, Clone, Debug, PartialEq)]
#[serde(tag = "tail", rename_all = "snake_case")]
pub enum Tail {
    /// C15: no tail
    None,
    /// every scripted endpoint falls silent at `warmup_ms`; at `probe_ms` endpoint `probe_peer`
    /// comes back as a better master (BMCA liveness probe)
    Silence { probe_ms: u64, probe_peer: usize },
    /// from `warmup_ms` on only endpoint `peer` speaks, as a steadily announcing better master;
    /// at `probe_ms` it disappears (BMCA liveness probe)
    BetterMaster { peer: usize, probe_ms: u64 },
}

#[derive(Serialize, Deserialize, Clone, Debug, PartialEq)]
pub struct Scenario {
    pub id: u64,
    pub property: String,
    /// seeds tokio's select!/timer RNG, the daemon's `StdRng::from_entropy()` and link jitter
    pub seed: u64,
    pub daemon: DaemonCfg,
    pub clock: ClockCfg,
    pub peers: Vec<Peer>,
    pub steps: Vec<Step>,
    pub faults: Vec<Fault>,
    /// C15: forwarding is checked from here on. C12: the prelude ends and the tail starts here.
    pub warmup_ms: u64,
    pub end_ms: u64,
    pub tail: Tail,
    /// C15: the daemon port facing the parent
    pub slave_port: usize,
    /// generator's notes, not interpreted by the worker
    #[serde(default)]
    pub notes: Vec<String>,
    /// C19: the real observer serves the observation socket and the harness reads it after every
    /// BMCA round, a third of a BMCA interval later, and at these extra instants
    #[serde(default)]
    pub observe_ms: Option<Vec<u64>>,
}

impl Scenario {
    pub fn bmca_interval_ns(&self) -> u64 {
        self.daemon.ports.iter().map(|p| p.announce_ns()).min().unwrap_or(1_000_000_000)
    }
    pub fn config_toml(&self, observation_path: Option<&std::path::Path>) -> String {
        let d = &self.daemon;
        let mut s = String::new();
        s.push_str(&format!("loglevel = \"{}\"\n", d.loglevel));
        if d.identity_in_config {
            s.push_str(&format!("identity = \"{}\"\n", hex(&d.identity)));
        }
        s.push_str(&format!("priority1 = {}\npriority2 = {}\n", d.priority1, d.priority2));
        s.push_str(&format!("path-trace = {}\n", d.path_trace));
        for (i, p) in d.ports.iter().enumerate() {
            s.push_str("\n[[port]]\n");
            s.push_str(&format!("interface = \"sim{i}\"\n"));
            s.push_str("hardware-clock = \"none\"\n");
            s.push_str(&format!("network-mode = \"{}\"\n", p.mode.name()));
            s.push_str(&format!("announce-interval = {}\n", p.announce_log));
            s.push_str(&format!("sync-interval = {}\n", p.sync_log));
            s.push_str(&format!("announce-receipt-timeout = {}\n", p.receipt_timeout));
            s.push_str(&format!("delay-mechanism = \"{}\"\n", if p.p2p { "P2P" } else { "E2E" }));
            s.push_str(&format!("delay-interval = {}\n", p.delay_log));
            if p.master_only {
                s.push_str("master-only = true\n");
            }
        }
        match observation_path {
            // C19: the real observer binds this path - through the tokio facade, in memory
            Some(p) => s.push_str(&format!("\n[observability]\nobservation-path = \"{}\"\n", p.display())),
            // no [observability] section: observation-path stays unset, the real observer task
            // returns at once and never creates a socket
            None => {}
        }
        s
    }
}

pub fn hex(b: &[u8]) -> String {
    b.iter().map(|x| format!("{x:02x}")).collect()
}

// ------------------------------------------------------------------ generators

fn pick_log(ch: &mut Chooser, set: &[i8]) -> i8 {
    *ch.pick(S_CFG, set)
}

fn gen_modes(ch: &mut Chooser, n: usize) -> Vec<Mode> {
    // all-ethernet, all-ipv4, all-ipv6 or mixed
    match ch.weighted(S_CFG, &[3, 2, 2, 3]) {
        0 => vec![Mode::Ethernet; n],
        1 => vec![Mode::Ipv4; n],
        2 => vec![Mode::Ipv6; n],
        _ => (0..n).map(|_| *ch.pick(S_CFG, &[Mode::Ethernet, Mode::Ipv4, Mode::Ipv6])).collect(),
    }
}

fn gen_ports(ch: &mut Chooser, n: usize, jitter: bool, allow_p2p: bool) -> Vec<PortCfg> {
    let modes = gen_modes(ch, n);
    let same = ch.chance(S_CFG, 2, 3);
    let a0 = pick_log(ch, &[0, -1, -2]);
    let s0 = pick_log(ch, &[0, -1, -2]);
    let d0 = pick_log(ch, &[0, -1]);
    let rt0 = ch.range(S_CFG, 2, 4) as u8;
    (0..n)
        .map(|i| {
            let (a, s, d, rt) = if same { (a0, s0, d0, rt0) } else { (pick_log(ch, &[0, -1, -2]), pick_log(ch, &[0, -1, -2]), pick_log(ch, &[0, -1]), ch.range(S_CFG, 2, 4) as u8) };
            PortCfg {
                mode: modes[i],
                announce_log: a,
                sync_log: s,
                delay_log: d,
                receipt_timeout: rt,
                p2p: allow_p2p && ch.chance(S_CFG, 1, 3),
                master_only: false,
                // first interface: globally unique unicast MAC (clock identity source); the others are
                // locally administered so that `get_clock_id` has exactly one candidate whatever the
                // HashMap order
                mac: if i == 0 { [0x00, 0x1d, 0xc1, 0x00, 0x00, 0x01] } else { [0x02, 0x1d, 0xc1, 0x00, 0x00, 1 + i as u8] },
                delay_ns: ch.range(S_NET, 20, 500) * US,
                jitter_ns: if jitter { ch.range(S_NET, 0, 100) * US } else { 0 },
                egress_ns: ch.range(S_NET, 2, 40) * US,
            }
        })
        .collect()
}

fn peer_id(k: u8) -> [u8; 8] {
    [0xaa, 0xbb, 0xcc, 0xff, 0xfe, 0x00, 0x10, k]
}

fn base_peer(name: &str, port: usize, k: u8, p: &PortCfg, prio1: u8) -> Peer {
    Peer {
        name: name.to_string(),
        port,
        clock_id: peer_id(k),
        port_no: 1,
        gm: Gm { priority1: prio1, class: 248, accuracy: 0xfe, variance: 0xffff, priority2: 128, identity: peer_id(k), steps_removed: 0 },
        announce_log: p.announce_log,
        sync_log: p.sync_log,
        two_step: true,
        announces: true,
        syncs: true,
        answer_delay: true,
        answer_pdelay: true,
        path: Vec::new(),
        phase_us: 0,
        clock_offset_ns: 0,
        on_at_start: true,
        ann_plan: Vec::new(),
        disabled: false,
    }
}

const DAEMON_ID: [u8; 8] = [0x00, 0x1d, 0xc1, 0xff, 0xfe, 0x00, 0x00, 0x01];

fn gen_daemon(ch: &mut Chooser, ports: Vec<PortCfg>, path_trace: bool) -> DaemonCfg {
    let identity_in_config = ch.boolean(S_CFG);
    // without `identity` the daemon pads the 6 MAC bytes of its first eligible interface with zeros
    let identity = if identity_in_config { DAEMON_ID } else { [0x00, 0x1d, 0xc1, 0x00, 0x00, 0x01, 0x00, 0x00] };
    DaemonCfg { identity_in_config, identity, priority1: 128, priority2: 128, path_trace, ports, loglevel: "error".into() }
}

fn gen_clock(ch: &mut Chooser) -> ClockCfg {
    let offset_ns = match ch.weighted(S_HOST, &[3, 2, 1]) {
        0 => ch.irange(S_HOST, -200, 200) * 1_000,
        1 => ch.irange(S_HOST, -50, 50) * 1_000_000,
        _ => ch.irange(S_HOST, -3, 3) * 1_000_000_000,
    };
    ClockCfg { offset_ns, drift_ppb: ch.irange(S_HOST, -50_000, 50_000), tai: 37 }
}

fn tlv_value(ch: &mut Chooser, peer: u8, counter: &mut u16, len: usize) -> Vec<u8> {
    let mut v = vec![0u8; len];
    for (i, b) in v.iter_mut().enumerate() {
        *b = match i {
            0 => 0x5a,
            1 => peer,
            2 => (*counter >> 8) as u8,
            3 => *counter as u8,
            _ => ch.choose(S_WORK, 256) as u8,
        };
    }
    v
}

/// 0-3 small propagating TLVs with unique contents, interleaved with 0-2 non-propagating ones
fn gen_tlvs(ch: &mut Chooser, peer: u8, counter: &mut u16, allow_empty: bool) -> Vec<TlvSpec> {
    let n_prop = if allow_empty { ch.weighted(S_WORK, &[1, 4, 3, 2]) } else { 1 + ch.weighted(S_WORK, &[4, 3, 2]) };
    let n_non = ch.weighted(S_WORK, &[5, 2, 1]);
    let mut out = Vec::new();
    for _ in 0..n_prop {
        *counter += 1;
        let len = 2 * ch.range(S_WORK, 0, 20) as usize;
        let typ = if len < 4 {
            // too short for a unique value: unique type inside the propagating range instead
            0x4100 + *counter
        } else {
            *ch.pick(S_WORK, &[0x4000u16, 0x4000, 0x4000, 0x4001, 0x7fff, 0x0009])
        };
        out.push(TlvSpec { typ, value: tlv_value(ch, peer, counter, len) });
    }
    for _ in 0..n_non {
        *counter += 1;
        let len = 4 + 2 * ch.range(S_WORK, 0, 18) as usize;
        let typ = *ch.pick(S_WORK, &[0x0003u16, 0x8000, 0x2004, 0x0001, 0x3fff]);
        let at = ch.choose(S_WORK, out.len() as u64 + 1) as usize;
        out.insert(at, TlvSpec { typ, value: tlv_value(ch, peer, counter, len) });
    }
    out
}

/// C15: boundary clock, scripted parent on one port, listeners on the others.
pub fn gen_c15(ch: &mut Chooser, id: u64, tier: Tier) -> Scenario {
    let n = 2 + ch.choose(S_CFG, 2) as usize;
    let faulty = ch.boolean(S_FAULT);
    let ports = gen_ports(ch, n, faulty, false);
    let path_trace = ch.boolean(S_CFG);
    let daemon = gen_daemon(ch, ports, path_trace);
    let clock = gen_clock(ch);
    let sp = ch.choose(S_CFG, n as u64) as usize;
    let seed = ch.bits(S_HOST);

    let mut peers = Vec::new();
    let mut parent = base_peer("parent", sp, 1, &daemon.ports[sp], ch.range(S_CFG, 10, 120) as u8);
    parent.gm.steps_removed = ch.weighted(S_CFG, &[3, 2, 1, 1]) as u16;
    if parent.gm.steps_removed > 0 {
        parent.gm.identity = peer_id(0x80);
    }
    if path_trace {
        let mut path = Vec::new();
        if parent.gm.steps_removed > 0 {
            path.push(parent.gm.identity);
            for k in 1..parent.gm.steps_removed {
                path.push(peer_id(0x80 + k as u8));
            }
        }
        path.push(parent.clock_id);
        parent.path = path;
    }
    parent.two_step = ch.chance(S_CFG, 3, 4);
    let i_sp = daemon.ports[sp].announce_ns();
    parent.phase_us = ch.range(S_WORK, 0, i_sp / US - 1);
    peers.push(parent);

    // an acceptable but worse master, on the parent's segment or on a master port's segment
    let worse = ch.chance(S_CFG, 2, 5);
    if worse {
        let wp = if ch.boolean(S_CFG) { sp } else { ch.choose(S_CFG, n as u64) as usize };
        let better_than_daemon = ch.boolean(S_CFG);
        let p1 = if better_than_daemon { ch.range(S_CFG, 121, 127) as u8 } else { ch.range(S_CFG, 129, 200) as u8 };
        let mut w = base_peer("worse", wp, 2, &daemon.ports[wp], p1);
        w.syncs = false;
        w.answer_delay = false;
        w.answer_pdelay = false;
        w.phase_us = ch.range(S_WORK, 0, daemon.ports[wp].announce_ns() / US - 1);
        if path_trace {
            w.path = vec![w.clock_id];
        }
        peers.push(w);
    }

    let i_max = daemon.ports.iter().map(|p| p.announce_ns()).max().unwrap();
    let rt_max = daemon.ports.iter().map(|p| p.receipt_timeout as u64).max().unwrap();
    let warmup_ns = (2 * rt_max + 5) * i_max;
    let bmca_ns = daemon.ports.iter().map(|p| p.announce_ns()).min().unwrap();

    // TLV bursts on the parent's Announces after the warm-up, at chosen phases
    let bursts = match tier {
        Tier::Quick => ch.range(S_WORK, 3, 8),
        Tier::Thorough => ch.range(S_WORK, 3, 14),
    };
    let mut counter = 0u16;
    let mut nslot = (warmup_ns / i_sp + 2) as u32;
    let delay = daemon.ports[sp].delay_ns;
    let phase_ns = peers[0].phase_us * US;
    let mut plan = Vec::new();
    for _ in 0..bursts {
        nslot += 1 + ch.weighted(S_WORK, &[5, 2, 1]) as u32;
        let nominal = phase_ns + nslot as u64 * i_sp;
        let (shift_us, aim) = match ch.weighted(S_WORK, &[2, 2, 5]) {
            0 => (0i64, None),
            1 => (ch.irange(S_WORK, -(i_sp as i64 * 2 / 5 / 1000), i_sp as i64 * 2 / 5 / 1000), None),
            _ => {
                // aim at the nominal BMCA tick (k * bmca interval after boot) nearest to the slot:
                // arrive `before` us ahead of it (negative = just after it)
                let k = (nominal + delay + bmca_ns / 2) / bmca_ns;
                let tick = k * bmca_ns;
                let before = *ch.pick(S_WORK, &[300i64, 1_000, 2_000, 5_000, 20_000, 100_000, 300_000, -300, -2_000, -20_000]);
                let before = before.min(bmca_ns as i64 / 1000 / 2);
                let target_send = tick as i64 - before * 1000 - delay as i64;
                let mut sh = (target_send - nominal as i64) / 1000;
                let lim = i_sp as i64 * 9 / 20 / 1000;
                sh = sh.clamp(-lim, lim);
                (sh, Some(before))
            }
        };
        plan.push(AnnPlan { n: nslot, shift_us, tlvs: gen_tlvs(ch, 1, &mut counter, true), aim_before_bmca_us: aim });
    }
    let last_slot = nslot;
    peers[0].ann_plan = plan;
    if worse {
        // the worse master attaches propagating TLVs to many of its Announces
        let wp = peers[1].port;
        let i_w = daemon.ports[wp].announce_ns();
        let end_guess = phase_ns + (last_slot as u64 + 4) * i_sp;
        let mut c2 = 0u16;
        let mut wplan = Vec::new();
        let mut k = (warmup_ns / i_w) as u32;
        while (k as u64) * i_w < end_guess {
            if ch.chance(S_WORK, 2, 3) {
                wplan.push(AnnPlan { n: k, shift_us: 0, tlvs: gen_tlvs(ch, 2, &mut c2, false), aim_before_bmca_us: None });
            }
            k += 1;
        }
        peers[1].ann_plan = wplan;
    }
    let end_ns = phase_ns + (last_slot as u64 + 1) * i_sp + 3 * i_max + 300 * MS;

    // faults: only on the Sync / Delay traffic, plus withheld transmit timestamps
    let mut faults = Vec::new();
    if faulty {
        let nf = ch.range(S_FAULT, 1, 6);
        let horizon = end_ns / daemon.ports[sp].sync_ns().min(i_sp);
        for _ in 0..nf {
            let kind = match ch.weighted(S_FAULT, &[3, 2, 2]) {
                0 => FrameFault::Drop,
                1 => FrameFault::Dup,
                _ => FrameFault::DelayUs(ch.range(S_FAULT, 100, 30_000) as u32),
            };
            match ch.weighted(S_FAULT, &[3, 2, 2, 2, 2]) {
                0 => faults.push(Fault::ToDaemon { peer: 0, class: Class::Sync, nth: ch.range(S_FAULT, 0, horizon), kind }),
                1 => faults.push(Fault::ToDaemon { peer: 0, class: Class::FollowUp, nth: ch.range(S_FAULT, 0, horizon), kind }),
                2 => faults.push(Fault::ToDaemon { peer: 0, class: Class::DelayResp, nth: ch.range(S_FAULT, 0, horizon), kind }),
                3 => faults.push(Fault::FromDaemon { port: sp, class: Class::DelayReq, nth: ch.range(S_FAULT, 0, horizon), kind }),
                _ => {
                    let port = ch.choose(S_FAULT, n as u64) as usize;
                    let sock = if daemon.ports[port].mode == Mode::Ethernet { SockSel::Eth } else { SockSel::Event };
                    let mult = if sock == SockSel::Eth { 3 } else { 1 };
                    let kind = if ch.chance(S_FAULT, 2, 3) { TsFault::NoTimestamp } else { TsFault::LateMs(ch.range(S_FAULT, 1, 150) as u32) };
                    faults.push(Fault::TxTimestamp { port, sock, nth: ch.range(S_FAULT, 0, horizon * mult), kind });
                }
            }
        }
    }

    Scenario {
        id,
        property: "C15".into(),
        seed,
        daemon,
        clock,
        peers,
        steps: Vec::new(),
        faults,
        warmup_ms: warmup_ns / MS,
        end_ms: end_ns / MS,
        tail: Tail::None,
        slave_port: sp,
        notes: vec![format!("bmca_interval_ms={}", bmca_ns / MS)],
        observe_ms: None,
    }
}

/// C12: 1-3 port daemon, random prelude, then silence or a steady better master.
pub fn gen_c12(ch: &mut Chooser, id: u64, tier: Tier) -> Scenario {
    let n = 1 + ch.choose(S_CFG, 3) as usize;
    let ports = gen_ports(ch, n, true, true);
    let path_trace = ch.chance(S_CFG, 1, 4);
    let daemon = gen_daemon(ch, ports, path_trace);
    let clock = gen_clock(ch);
    let seed = ch.bits(S_HOST);
    let i_max = daemon.ports.iter().map(|p| p.announce_ns()).max().unwrap();
    let rt_max = daemon.ports.iter().map(|p| p.receipt_timeout as u64).max().unwrap();

    let mut peers = Vec::new();
    // endpoint 0: the master of the tail, on port 0
    let mut m0 = base_peer("master0", 0, 1, &daemon.ports[0], ch.range(S_CFG, 10, 120) as u8);
    m0.two_step = ch.chance(S_CFG, 3, 4);
    m0.phase_us = ch.range(S_WORK, 0, daemon.ports[0].announce_ns() / US - 1);
    m0.on_at_start = ch.boolean(S_WORK);
    if path_trace {
        m0.path = vec![m0.clock_id];
    }
    peers.push(m0);
    // further endpoints: another master, peer-delay responders (a second one makes a P2P port Faulty)
    for (pi, p) in daemon.ports.iter().enumerate() {
        if pi > 0 && ch.chance(S_CFG, 1, 2) {
            let mut m = base_peer(&format!("master{pi}"), pi, 2 + pi as u8, p, ch.range(S_CFG, 10, 200) as u8);
            m.phase_us = ch.range(S_WORK, 0, p.announce_ns() / US - 1);
            m.on_at_start = ch.boolean(S_WORK);
            m.two_step = ch.boolean(S_CFG);
            if path_trace {
                m.path = vec![m.clock_id];
            }
            // sometimes the same grandmaster as master0's over a path of the same length (the data set
            // comparison then ends "better by topology": the port facing it goes Passive while master0
            // is heard) or over a longer path (plain "better": the port stays Master)
            if ch.chance(S_CFG, 1, 3) {
                m.gm = peers[0].gm.clone();
                m.gm.steps_removed = ch.weighted(S_CFG, &[2, 1, 1]) as u16;
                if path_trace {
                    m.path = vec![m.gm.identity, m.clock_id];
                }
            }
            peers.push(m);
        }
        if p.p2p {
            // port 0's first responder is master0 itself; other P2P ports get a plain responder
            if pi > 0 {
                let mut r = base_peer(&format!("responder{pi}"), pi, 0x20 + pi as u8, p, 250);
                r.announces = false;
                r.syncs = false;
                r.answer_delay = false;
                r.on_at_start = ch.chance(S_WORK, 2, 3);
                peers.push(r);
            }
            if ch.chance(S_CFG, 2, 3) {
                let mut r2 = base_peer(&format!("responder{pi}b"), pi, 0x30 + pi as u8, p, 250);
                r2.announces = false;
                r2.syncs = false;
                r2.answer_delay = false;
                r2.on_at_start = false;
                peers.push(r2);
            }
        }
    }

    // prelude
    let prelude_iv = match tier {
        Tier::Quick => ch.range(S_WORK, 8, 30),
        Tier::Thorough => ch.range(S_WORK, 8, 60),
    };
    let prelude_ns = prelude_iv * i_max;
    let nsteps = ch.range(S_WORK, 0, 10);
    let mut steps = Vec::new();
    for _ in 0..nsteps {
        let at_ms = ch.range(S_WORK, 0, prelude_ns / MS);
        let peer = ch.choose(S_WORK, peers.len() as u64) as usize;
        let op = match ch.weighted(S_WORK, &[3, 3, 2]) {
            0 => Op::PeerOn { peer },
            1 => Op::PeerOff { peer },
            _ => Op::SetPriority1 { peer, value: *ch.pick(S_WORK, &[10u8, 100, 127, 129, 200]) },
        };
        steps.push(Step { at_ms, op });
    }
    steps.sort_by_key(|s| s.at_ms);

    let mut faults = Vec::new();
    let nf = ch.range(S_FAULT, 0, 8);
    let horizon = prelude_ns / daemon.ports.iter().map(|p| p.sync_ns().min(p.announce_ns())).min().unwrap();
    for _ in 0..nf {
        let kind = match ch.weighted(S_FAULT, &[3, 2, 1]) {
            0 => FrameFault::Drop,
            1 => FrameFault::Dup,
            _ => FrameFault::DelayUs(ch.range(S_FAULT, 100, 50_000) as u32),
        };
        match ch.weighted(S_FAULT, &[4, 3, 2]) {
            0 => {
                let port = ch.choose(S_FAULT, n as u64) as usize;
                let eth = daemon.ports[port].mode == Mode::Ethernet;
                let sock = if eth { SockSel::Eth } else { SockSel::Event };
                let kindt = if ch.chance(S_FAULT, 3, 4) { TsFault::NoTimestamp } else { TsFault::LateMs(ch.range(S_FAULT, 1, 150) as u32) };
                faults.push(Fault::TxTimestamp { port, sock, nth: ch.range(S_FAULT, 0, horizon * if eth { 3 } else { 1 }), kind: kindt });
            }
            1 => {
                let peer = ch.choose(S_FAULT, peers.len() as u64) as usize;
                let class = *ch.pick(S_FAULT, &[Class::Announce, Class::Sync, Class::FollowUp, Class::DelayResp, Class::PdelayResp, Class::PdelayRespFollowUp]);
                faults.push(Fault::ToDaemon { peer, class, nth: ch.range(S_FAULT, 0, horizon), kind });
            }
            _ => {
                let port = ch.choose(S_FAULT, n as u64) as usize;
                let class = *ch.pick(S_FAULT, &[Class::DelayReq, Class::PdelayReq, Class::PdelayResp]);
                faults.push(Fault::FromDaemon { port, class, nth: ch.range(S_FAULT, 0, horizon), kind });
            }
        }
    }

    let tail_iv = match tier {
        Tier::Quick => 60,
        Tier::Thorough => ch.range(S_WORK, 60, 120),
    };
    let tail_ns = tail_iv * i_max;
    let probe_ns = (2 * rt_max + 10) * i_max;
    let silence = ch.boolean(S_CFG);
    let tail = if silence {
        Tail::Silence { probe_ms: (prelude_ns + tail_ns) / MS, probe_peer: 0 }
    } else {
        Tail::BetterMaster { peer: 0, probe_ms: (prelude_ns + tail_ns) / MS }
    };
    Scenario {
        id,
        property: "C12".into(),
        seed,
        daemon,
        clock,
        peers,
        steps,
        faults,
        warmup_ms: prelude_ns / MS,
        end_ms: (prelude_ns + tail_ns + probe_ns) / MS,
        tail,
        slave_port: 0,
        notes: Vec::new(),
        observe_ms: None,
    }
}

/// C19: what the real daemon publishes for observation. 1-3 ports, masters that appear, disappear,
/// degrade their announced quality below the daemon's own (the BMCA itself takes the slave role
/// away) or are outbid by a better master on another port (the slave role moves), with Sync /
/// Follow_Up / Delay traffic so that the slave port's filter has a non-zero estimate.
pub fn gen_c19(ch: &mut Chooser, id: u64, tier: Tier) -> Scenario {
    let n = 1 + ch.weighted(S_CFG, &[2, 3, 2]);
    let mut ports = gen_ports(ch, n, true, false);
    for p in ports.iter_mut() {
        p.p2p = ch.chance(S_CFG, 1, 5);
    }
    let path_trace = ch.chance(S_CFG, 1, 4);
    let daemon = gen_daemon(ch, ports, path_trace);
    let mut clock = gen_clock(ch);
    if clock.offset_ns == 0 {
        clock.offset_ns = 37_000;
    }
    let seed = ch.bits(S_HOST);
    let i_max = daemon.ports.iter().map(|p| p.announce_ns()).max().unwrap();

    let mut peers = Vec::new();
    // one master per port; the one on port 0 is usually there from the start
    for (pi, p) in daemon.ports.iter().enumerate() {
        if pi > 0 && ch.chance(S_CFG, 1, 4) {
            continue;
        }
        let mut m = base_peer(&format!("master{pi}"), pi, 1 + pi as u8, p, ch.range(S_CFG, 10, 120) as u8);
        m.two_step = ch.chance(S_CFG, 3, 4);
        m.phase_us = ch.range(S_WORK, 0, p.announce_ns() / US - 1);
        m.on_at_start = if pi == 0 { ch.chance(S_WORK, 4, 5) } else { ch.chance(S_WORK, 1, 3) };
        m.gm.steps_removed = ch.weighted(S_CFG, &[3, 1, 1]) as u16;
        m.clock_offset_ns = ch.irange(S_WORK, -20_000, 20_000);
        if m.gm.steps_removed > 0 {
            m.gm.identity = peer_id(0x80 + pi as u8);
        }
        if path_trace {
            m.path = if m.gm.steps_removed > 0 { vec![m.gm.identity, m.clock_id] } else { vec![m.clock_id] };
        }
        peers.push(m);
    }
    // sometimes a second master on the slave's own segment (parent change on one port)
    if ch.chance(S_CFG, 1, 3) {
        let p = &daemon.ports[0];
        let mut m = base_peer("rival0", 0, 0x11, p, ch.range(S_CFG, 10, 120) as u8);
        m.phase_us = ch.range(S_WORK, 0, p.announce_ns() / US - 1);
        m.on_at_start = false;
        if path_trace {
            m.path = vec![m.clock_id];
        }
        peers.push(m);
    }

    let len_iv = match tier {
        Tier::Quick => ch.range(S_WORK, 20, 50),
        Tier::Thorough => ch.range(S_WORK, 20, 90),
    };
    let len_ns = len_iv * i_max;
    let nsteps = ch.range(S_WORK, 2, 10);
    let mut steps = Vec::new();
    for _ in 0..nsteps {
        // not before the first master had time to become the parent and the filter to settle
        let at_ms = ch.range(S_WORK, 6 * i_max / MS, len_ns / MS);
        let peer = ch.choose(S_WORK, peers.len() as u64) as usize;
        let op = match ch.weighted(S_WORK, &[3, 2, 4, 2]) {
            0 => Op::PeerOn { peer },
            1 => Op::PeerOff { peer },
            // announced quality falls below (or stays above) the daemon's own priority1 128
            2 => Op::SetPriority1 { peer, value: *ch.pick(S_WORK, &[200u8, 129, 250, 200]) },
            _ => Op::SetPriority1 { peer, value: *ch.pick(S_WORK, &[5u8, 50, 100, 127]) },
        };
        steps.push(Step { at_ms, op });
    }
    steps.sort_by_key(|s| s.at_ms);

    let mut faults = Vec::new();
    let horizon = len_ns / daemon.ports.iter().map(|p| p.sync_ns().min(p.announce_ns())).min().unwrap();
    for _ in 0..ch.weighted(S_FAULT, &[3, 2, 1, 1]) {
        let kind = match ch.weighted(S_FAULT, &[3, 2, 1]) {
            0 => FrameFault::Drop,
            1 => FrameFault::Dup,
            _ => FrameFault::DelayUs(ch.range(S_FAULT, 100, 50_000) as u32),
        };
        match ch.weighted(S_FAULT, &[2, 3]) {
            0 => {
                let port = ch.choose(S_FAULT, n as u64) as usize;
                let eth = daemon.ports[port].mode == Mode::Ethernet;
                let kindt = if ch.chance(S_FAULT, 3, 4) { TsFault::NoTimestamp } else { TsFault::LateMs(ch.range(S_FAULT, 1, 150) as u32) };
                faults.push(Fault::TxTimestamp { port, sock: if eth { SockSel::Eth } else { SockSel::Event }, nth: ch.range(S_FAULT, 0, horizon * if eth { 3 } else { 1 }), kind: kindt });
            }
            _ => {
                let peer = ch.choose(S_FAULT, peers.len() as u64) as usize;
                let class = *ch.pick(S_FAULT, &[Class::Announce, Class::Sync, Class::FollowUp, Class::DelayResp]);
                faults.push(Fault::ToDaemon { peer, class, nth: ch.range(S_FAULT, 0, horizon), kind });
            }
        }
    }
    let extra: Vec<u64> = (0..ch.range(S_WORK, 0, 6)).map(|_| ch.range(S_WORK, 0, len_ns / MS)).collect();
    Scenario {
        id,
        property: "C19".into(),
        seed,
        daemon,
        clock,
        peers,
        steps,
        faults,
        warmup_ms: 0,
        end_ms: len_ns / MS,
        tail: Tail::None,
        slave_port: 0,
        notes: Vec::new(),
        observe_ms: Some(extra),
    }
}

pub fn generate(property: &str, base_seed: u64, index: u64, tier: Tier) -> Scenario {
    let fam = format!("daemon-{property}");
    let seed = vcommon::run_seed(base_seed, &fam, index);
    let mut ch = Chooser::generate(seed);
    match property {
        "C15" => gen_c15(&mut ch, index, tier),
        "C12" => gen_c12(&mut ch, index, tier),
        "C19" => gen_c19(&mut ch, index, tier),
        _ => panic!("no daemon scenario family for {property}"),
    }
}
