#!/bin/bash
# scratch-check.sh <tree> <daemonsim args...>
# Runs daemonsim against ANOTHER copy of the statime sources (a patched scratch worktree,
# a mutant) without touching /repo, /verif/evidence or /verif/replays:
#   * copies /verif/sim/{vcommon,ptpsim}, /verif/expsim/simtokio (the tokio facade) and /verif/daemonsim
#     to a scratch directory,
#   * rewrites every "/repo" path in the copied manifests / build scripts to <tree>,
#   * builds there (own target dir; SCRATCH_TARGET=<dir> keeps and reuses one across calls),
#   * runs `daemonsim <args>` with VERIF_OUT_ROOT pointing into the scratch directory
#     (SCRATCH_COPY_OUT=<dir> copies evidence/ and replays/ out before cleaning up),
#   * removes the scratch directory (KEEP_SCRATCH=1 or SCRATCH_DIR=<dir> keep it).
set -u
TREE="${1:?usage: scratch-check.sh <tree> <daemonsim args...>}"; shift
TREE="$(readlink -f "$TREE")"
case "$TREE" in /repo|/repo/*|/verif|/verif/*) echo "scratch tree must live outside /repo and /verif"; exit 2;; esac
# SCRATCH_DIR=<dir>: use (and keep) this directory, so that several trees / mutants in a row
# rebuild incrementally instead of from scratch
if [ -n "${SCRATCH_DIR:-}" ]; then
  S="$SCRATCH_DIR"; KEEP_SCRATCH=1
  case "$(readlink -m "$S")" in /repo|/repo/*|/verif|/verif/*) echo "scratch dir must live outside /repo and /verif"; exit 2;; esac
  rm -rf "$S/sim" "$S/daemonsim" "$S/expsim" "$S/out"
else
  S="$(mktemp -d /tmp/daemonsim-scratch-run.XXXXXX)"
fi
trap '[ -n "${KEEP_SCRATCH:-}" ] || rm -rf "$S"' EXIT
mkdir -p "$S/sim" "$S/daemonsim" "$S/expsim" "$S/out"
cp -r /verif/expsim/simtokio "$S/expsim/"
cp -r /verif/sim/vcommon /verif/sim/ptpsim /verif/sim/Cargo.toml /verif/sim/Cargo.lock "$S/sim/" 2>/dev/null
( cd /verif/daemonsim && cp -r Cargo.toml Cargo.lock .cargo simsock simclock simrand shadow-statime-linux daemonsim "$S/daemonsim/" )
TARGET="${SCRATCH_TARGET:-$S/target}"
grep -rlE '/repo|/verif/' "$S" --include=Cargo.toml --include=build.rs --include=config.toml | while read -r f; do
  sed -i -e "s#/repo/#$TREE/#g" -e "s#\"/repo\"#\"$TREE\"#g" -e "s#/verif/sim/#$S/sim/#g" -e "s#/verif/expsim/#$S/expsim/#g" -e "s#/verif/target/daemonsim#$TARGET#g" "$f"
done
cd "$S/daemonsim" || exit 2
if ! cargo build --release --offline >"$S/build.log" 2>&1; then grep -E "^error" -A12 "$S/build.log" | head -60; echo "HARNESS-ERROR: scratch build failed"; exit 2; fi
VERIF_OUT_ROOT="$S/out" "$TARGET/release/daemonsim" "$@"
rc=$?
if [ -n "${SCRATCH_COPY_OUT:-}" ]; then mkdir -p "$SCRATCH_COPY_OUT" && cp -r "$S/out/." "$SCRATCH_COPY_OUT/"; fi
exit $rc
