#!/bin/bash
# sensitivity.sh [mutant...]: for each mutant of statime-linux/src/main.rs, applied to the scratch
# worktree /tmp/daemonsim-scratch (created from /repo HEAD if missing, never /repo itself), run
# `daemonsim check C15 quick` and `check C12 quick` from a scratch copy of this workspace and
# print which oracle ids fire. Results: /tmp/daemonsim-sens/<mutant>.{C15,C12}.log
set -u
WT=/tmp/daemonsim-scratch
SB=/tmp/daemonsim-sb
OUT=/tmp/daemonsim-sens; mkdir -p "$OUT"
HERE="$(dirname "$(readlink -f "$0")")"
[ -d "$WT" ] || git -C /repo worktree add --detach "$WT" HEAD >/dev/null 2>&1 || { echo "cannot create $WT"; exit 2; }
ALL="baseline a_sync_timer_reset_noop a2_sync_timer_reset_noop_ethernet_only b_ignore_reset_announce_receipt_udp b2_ignore_reset_announce_receipt_both c_send_timestamp_never_handed_back d1_fix_ethernet_empty_when_not_master d2_bug_also_in_udp_port_task d3_fix_in_both_tasks e_timer_never_stops_running f_bmca_never_deasserts_stop g_announce_timer_reset_noop h_delay_request_timer_reset_noop i_forward_tlv_dropped_udp"
[ $# -gt 0 ] && ALL="$*"
for m in $ALL; do
  git -C "$WT" checkout -q -- . && python3 "$HERE/mutants/apply.py" "$WT" "$m" || { echo "$m: cannot apply"; continue; }
  for id in C15 C12; do
    VERIF_BUDGET_SCALE="${SENS_SCALE:-0.4}" SCRATCH_DIR="$SB" "$HERE/scratch-check.sh" "$WT" check "$id" quick >"$OUT/$m.$id.log" 2>&1
    rc=$?
    fired=$(grep -oE "^violation: oracle=[A-Za-z0-9_.]+ key=[^ ]+( [a-z_0-9]+=[^ ]+)*" "$OUT/$m.$id.log" | sed -E 's/^violation: oracle=//; s/ scenarios_hit.*//' | cut -c1-110 | sort -u | head -8 | tr '\n' ';')
    known=$(grep -c "^KNOWN-FINDING" "$OUT/$m.$id.log")
    echo "$m $id exit=$rc known=$known fired=[$fired]"
  done
done
git -C "$WT" checkout -q -- .
