//! Reproduces what /repo/statime-linux/build.rs sets (STATIME_GIT_REV and
//! STATIME_GIT_DATE), reading the git state of the source tree the shadow
//! manifest points at - never of the directory this file lives in.
use std::process::Command;

const SRC: &str = "/repo/statime-linux";

fn out(cmd: &str, args: &[&str]) -> Option<String> {
    let o = Command::new(cmd).args(args).output().ok()?;
    let s = String::from_utf8(o.stdout).ok()?.trim().to_owned();
    Some(s)
}

fn main() {
    let is_dirty = Command::new("git")
        .args(["-C", SRC, "diff-index", "--quiet", "HEAD", "--"])
        .status()
        .map(|s| !s.success())
        .unwrap_or(false);
    let git_rev = std::env::var("STATIME_GIT_REV").ok().or_else(|| {
        out("git", &["-C", SRC, "rev-parse", "HEAD"])
            .filter(|r| !r.is_empty())
            .map(|r| if is_dirty { format!("{r}-dirty") } else { r })
    });
    let git_date = std::env::var("STATIME_GIT_DATE").ok().or_else(|| {
        let hash = git_rev.as_ref()?;
        if is_dirty {
            out("date", &["-u", "+%Y-%m-%d"])
        } else {
            out("git", &["-C", SRC, "show", "-s", "--date=format:%Y-%m-%d", "--format=%cd", hash, "--"])
        }
    });
    println!("cargo:rustc-env=STATIME_GIT_REV={}", git_rev.unwrap_or("-".to_owned()));
    println!("cargo:rustc-env=STATIME_GIT_DATE={}", git_date.unwrap_or("-".to_owned()));
    // the library sources themselves are tracked by cargo through rustc's dep-info
    println!("cargo:rerun-if-changed=build.rs");
    println!("cargo:rerun-if-changed={SRC}/../.git/HEAD");
    println!("cargo:rerun-if-changed={SRC}/../.git/index");
}
