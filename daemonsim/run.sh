#!/bin/bash
# /verif/daemonsim/run.sh check <C15|C12> <quick|thorough> | replay <file> | selftest | show <ID> <index>
# Rebuilds the workspace (offline) against /repo's CURRENT working tree, then runs daemonsim.
set -u
cd /verif/daemonsim || exit 2
export CARGO_NET_OFFLINE=true
LOG="$(mktemp /tmp/daemonsim-build.XXXXXX.log)"
if ! cargo build --release --offline >"$LOG" 2>&1; then grep -E "^error" -A12 "$LOG" | head -60; rm -f "$LOG"; echo "HARNESS-ERROR: build failed"; exit 2; fi
rm -f "$LOG"
exec /verif/target/daemonsim/release/daemonsim "$@"
