//! Facade for `rand` 0.8 where /repo/statime-linux/src/main.rs is compiled.
//! Everything is the real crate, except `rngs::StdRng`: a wrapper around the
//! real `StdRng` whose `from_entropy()` takes its seed from the scenario
//! (`sim::set_seed`) instead of the operating system. The wrapper implements
//! the real `RngCore` / `SeedableRng`, so the statime library (compiled against
//! the real rand) accepts it as `R: Rng`.
pub use rand_real::*;

pub mod sim {
    use std::cell::Cell;
    thread_local! {
        static SEED: Cell<u64> = const { Cell::new(0) };
        static DRAWN: Cell<u64> = const { Cell::new(0) };
    }
    /// seed of this thread's `from_entropy()` sequence
    pub fn set_seed(seed: u64) {
        SEED.with(|s| s.set(seed));
        DRAWN.with(|d| d.set(0));
    }
    /// number of `from_entropy()` generators handed out so far
    pub fn generators() -> u64 {
        DRAWN.with(|d| d.get())
    }
    pub(crate) fn next_seed() -> [u8; 32] {
        let n = DRAWN.with(|d| {
            let v = d.get();
            d.set(v + 1);
            v
        });
        let mut x = SEED.with(|s| s.get()) ^ n.wrapping_mul(0x9E37_79B9_7F4A_7C15);
        let mut out = [0u8; 32];
        for chunk in out.chunks_mut(8) {
            // splitmix64
            x = x.wrapping_add(0x9E37_79B9_7F4A_7C15);
            let mut z = x;
            z = (z ^ (z >> 30)).wrapping_mul(0xBF58_476D_1CE4_E5B9);
            z = (z ^ (z >> 27)).wrapping_mul(0x94D0_49BB_1331_11EB);
            z ^= z >> 31;
            chunk.copy_from_slice(&z.to_le_bytes());
        }
        out
    }
}

pub mod rngs {
    pub use rand_real::rngs::*;

    /// `rand::rngs::StdRng`, deterministic under simulation
    #[derive(Clone, Debug, PartialEq, Eq)]
    pub struct StdRng(rand_real::rngs::StdRng);

    impl StdRng {
        /// shadows `SeedableRng::from_entropy` (inherent associated functions win
        /// over trait ones): the n-th generator of a thread is a pure function of
        /// the scenario seed and n
        pub fn from_entropy() -> Self {
            use rand_real::SeedableRng;
            StdRng(rand_real::rngs::StdRng::from_seed(crate::sim::next_seed()))
        }
    }

    impl rand_real::RngCore for StdRng {
        #[inline]
        fn next_u32(&mut self) -> u32 {
            self.0.next_u32()
        }
        #[inline]
        fn next_u64(&mut self) -> u64 {
            self.0.next_u64()
        }
        #[inline]
        fn fill_bytes(&mut self, dest: &mut [u8]) {
            self.0.fill_bytes(dest)
        }
        #[inline]
        fn try_fill_bytes(&mut self, dest: &mut [u8]) -> Result<(), rand_real::Error> {
            self.0.try_fill_bytes(dest)
        }
    }

    impl rand_real::SeedableRng for StdRng {
        type Seed = <rand_real::rngs::StdRng as rand_real::SeedableRng>::Seed;
        fn from_seed(seed: Self::Seed) -> Self {
            StdRng(rand_real::rngs::StdRng::from_seed(seed))
        }
    }

    impl rand_real::CryptoRng for StdRng {}
}
