#!/bin/bash
# /verif/expsim/run.sh check <C19|C20> <quick|thorough> | replay <file> | selftest
# Rebuilds the workspace (offline) against /repo's CURRENT working tree, then runs expsim.
set -u
cd /verif/expsim || exit 2
export CARGO_NET_OFFLINE=true
LOG="$(mktemp /tmp/expsim-build.XXXXXX.log)"
if ! cargo build --release --offline >"$LOG" 2>&1; then cat "$LOG"; rm -f "$LOG"; echo "HARNESS-ERROR: build failed"; exit 2; fi
rm -f "$LOG"
exec /verif/target/expsim/release/expsim "$@"
