//! The simulated network: a per-process registry of listeners (TCP listen
//! address / unix socket path -> accept queue) and in-memory duplex
//! connections. The code under test holds `net::{TcpStream, UnixStream}`
//! ends; the harness holds `TcpClient` ends (synchronous API) and can plan
//! faults for the next unix-socket connection.
//!
//! Kernel-faithful rules (so that no fault is invented):
//! * a read returns everything that has arrived, up to the destination size
//!   (one unix-stream write of <= 16 KiB therefore arrives as one read);
//! * after a plain close by the peer a read returns 0 bytes (EOF) and a TCP
//!   write still succeeds (the data is discarded by the peer's RST later);
//! * only after a reset do reads fail with ECONNRESET and writes with EPIPE;
//! * a write to a unix stream whose peer end is gone fails with EPIPE.
//!
//! Wedge detection lives here as well: more than `SPIN_LIMIT` consecutive
//! reads that return 0 bytes on one stream (EOF, or a zero-length destination
//! buffer) can only be a busy loop; the stream records `SpinInfo` and panics
//! with a `SpinDetected` message, which ends the spinning task.
use std::collections::{BTreeMap, VecDeque};
use std::io;
use std::path::{Path, PathBuf};
use std::sync::atomic::{AtomicU64, Ordering};
use std::sync::{Arc, Mutex, MutexGuard};
use std::task::{Context, Poll, Waker};

use tokio_real::io::ReadBuf;

pub const SPIN_LIMIT: u32 = 1000;

static ACTIVITY: AtomicU64 = AtomicU64::new(0);

/// Monotone counter of everything that happened on simulated sockets (bytes
/// moved, connections made, ends closed, wake-ups issued). Two executor rounds
/// without a change mean that no task can make progress any more.
pub fn activity() -> u64 {
    ACTIVITY.load(Ordering::Relaxed)
}
fn bump() {
    ACTIVITY.fetch_add(1, Ordering::Relaxed);
}

pub(crate) fn lock<T>(m: &Mutex<T>) -> MutexGuard<'_, T> {
    m.lock().unwrap_or_else(|e| e.into_inner())
}

fn wake(w: &mut Option<Waker>) {
    if let Some(w) = w.take() {
        bump();
        w.wake();
    }
}

#[derive(Debug, Clone, Copy, PartialEq, Eq)]
pub enum Kind {
    Tcp,
    Unix,
}

#[derive(Debug, Clone, Copy, PartialEq, Eq)]
pub(crate) enum Side {
    /// the connecting end
    Client,
    /// the accepting end
    Server,
}

/// What the next connection to a unix socket path will experience.
#[derive(Debug, Clone, Copy, PartialEq, Eq)]
pub enum UnixFault {
    None,
    /// connect() fails with ECONNREFUSED (socket file present, nobody listens)
    Refuse,
    /// the accepting side's data never arrives: the connecting side reads EOF at once
    CloseBeforeWrite,
    /// the last `drop_tail` bytes of the first write (all of it when shorter) never
    /// arrive, then EOF. Positions count from the END of the write so that a
    /// variable-length prefix (the uptime digits) cannot move the fault.
    Truncate { drop_tail: u32 },
    /// the byte `from_end` positions before the end of the first write (>= 1;
    /// the first byte when the write is shorter) is xor-ed with `xor`
    Corrupt { from_end: u32, xor: u8 },
}

#[derive(Default)]
pub(crate) struct Dir {
    buf: VecDeque<u8>,
    fin: bool,
    reader_waker: Option<Waker>,
    reader_gone: bool,
    /// bytes are accepted but thrown away (after an injected truncation)
    discard: bool,
    zero_reads: u32,
    /// every byte the writer handed over (before any injected fault)
    pub(crate) written_log: Vec<u8>,
    /// every byte the reader actually received
    pub(crate) read_log: Vec<u8>,
    /// sizes of the successful non-empty reads
    pub(crate) read_sizes: Vec<usize>,
}

pub(crate) struct Conn {
    pub(crate) id: u64,
    pub(crate) kind: Kind,
    pub(crate) c2s: Dir,
    pub(crate) s2c: Dir,
    reset: bool,
    reset_when_c2s_drained: bool,
    /// largest number of bytes one server-side write accepts (partial writes)
    server_write_max: usize,
    fault: UnixFault,
    fault_applied: bool,
}

pub(crate) struct Listener {
    queue: VecDeque<Arc<Mutex<Conn>>>,
    waker: Option<Waker>,
}

#[derive(Debug, Clone)]
pub struct SpinInfo {
    pub conn: u64,
    pub kind: Kind,
    /// "eof" or "empty_buffer"
    pub cause: &'static str,
    pub zero_reads: u32,
}

/// A finished or still open unix-socket connection, as seen on the wire.
#[derive(Debug, Clone)]
pub struct UnixRecord {
    pub conn: u64,
    pub fault: UnixFault,
    /// bytes the accepting side (observer) wrote
    pub written: Vec<u8>,
    /// bytes the connecting side (exporter) received
    pub delivered: Vec<u8>,
    pub read_sizes: Vec<usize>,
}

struct World {
    tcp: BTreeMap<String, Arc<Mutex<Listener>>>,
    unix: BTreeMap<PathBuf, Arc<Mutex<Listener>>>,
    next_id: u64,
    next_unix_fault: UnixFault,
    unix_conns: Vec<Arc<Mutex<Conn>>>,
    spin: Option<SpinInfo>,
    counters: BTreeMap<&'static str, u64>,
}

static WORLD: Mutex<World> = Mutex::new(World {
    tcp: BTreeMap::new(),
    unix: BTreeMap::new(),
    next_id: 1,
    next_unix_fault: UnixFault::None,
    unix_conns: Vec::new(),
    spin: None,
    counters: BTreeMap::new(),
});

fn count(k: &'static str) {
    *lock(&WORLD).counters.entry(k).or_insert(0) += 1;
}

/// Counters of socket-level happenings since the last call.
pub fn take_counters() -> BTreeMap<&'static str, u64> {
    std::mem::take(&mut lock(&WORLD).counters)
}

/// Set by the stream that detected a busy loop (never cleared: the task that
/// spun is dead and so is the process' usefulness).
pub fn spin_info() -> Option<SpinInfo> {
    lock(&WORLD).spin.clone()
}

/// Plan the fate of the next unix-socket connection (one-shot).
pub fn set_next_unix_fault(f: UnixFault) {
    lock(&WORLD).next_unix_fault = f;
}
/// Remove a plan that was not consumed.
pub fn clear_unix_fault() -> UnixFault {
    std::mem::replace(&mut lock(&WORLD).next_unix_fault, UnixFault::None)
}

/// The unix-socket connections made since the last call, in order.
pub fn take_unix_records() -> Vec<UnixRecord> {
    let conns = std::mem::take(&mut lock(&WORLD).unix_conns);
    conns
        .iter()
        .map(|c| {
            let c = lock(c);
            UnixRecord {
                conn: c.id,
                fault: c.fault,
                written: c.s2c.written_log.clone(),
                delivered: c.s2c.read_log.clone(),
                read_sizes: c.s2c.read_sizes.clone(),
            }
        })
        .collect()
}

pub fn tcp_listening(addr: &str) -> bool {
    lock(&WORLD).tcp.contains_key(addr)
}
/// A task is parked in accept() on this TCP listener (its waker is registered).
pub fn tcp_accept_pending(addr: &str) -> bool {
    let l = lock(&WORLD).tcp.get(addr).cloned();
    l.map(|l| lock(&l).waker.is_some()).unwrap_or(false)
}
pub fn unix_listening(path: &Path) -> bool {
    lock(&WORLD).unix.contains_key(path)
}

fn new_conn(kind: Kind, fault: UnixFault) -> Arc<Mutex<Conn>> {
    let id = {
        let mut w = lock(&WORLD);
        let id = w.next_id;
        w.next_id += 1;
        id
    };
    Arc::new(Mutex::new(Conn {
        id,
        kind,
        c2s: Dir::default(),
        s2c: Dir::default(),
        reset: false,
        reset_when_c2s_drained: false,
        server_write_max: usize::MAX,
        fault,
        fault_applied: false,
    }))
}

// ------------------------------------------------------------ listeners

pub(crate) fn tcp_bind(addr: String) -> io::Result<Arc<Mutex<Listener>>> {
    let mut w = lock(&WORLD);
    if w.tcp.contains_key(&addr) {
        return Err(io::Error::from_raw_os_error(98)); // EADDRINUSE
    }
    let l = Arc::new(Mutex::new(Listener { queue: VecDeque::new(), waker: None }));
    w.tcp.insert(addr, l.clone());
    bump();
    Ok(l)
}
pub(crate) fn tcp_unbind(addr: &str) {
    lock(&WORLD).tcp.remove(addr);
    bump();
}

pub(crate) fn unix_bind(path: &Path) -> io::Result<Arc<Mutex<Listener>>> {
    {
        let w = lock(&WORLD);
        if w.unix.contains_key(path) {
            return Err(io::Error::from_raw_os_error(98));
        }
    }
    // bind(2) creates the socket inode: EADDRINUSE when the name exists,
    // ENOENT when the directory does not. A regular file stands in for the
    // socket inode (the caller chmods it afterwards).
    match std::fs::OpenOptions::new().write(true).create_new(true).open(path) {
        Ok(_) => {}
        Err(e) if e.kind() == io::ErrorKind::AlreadyExists => return Err(io::Error::from_raw_os_error(98)),
        Err(e) => return Err(e),
    }
    let l = Arc::new(Mutex::new(Listener { queue: VecDeque::new(), waker: None }));
    lock(&WORLD).unix.insert(path.to_path_buf(), l.clone());
    bump();
    Ok(l)
}
pub(crate) fn unix_unbind(path: &Path) {
    lock(&WORLD).unix.remove(path);
    bump();
}

pub(crate) fn poll_accept(l: &Arc<Mutex<Listener>>, cx: &mut Context<'_>) -> Poll<Endpoint> {
    let mut g = lock(l);
    match g.queue.pop_front() {
        Some(conn) => {
            bump();
            Poll::Ready(Endpoint { conn, side: Side::Server })
        }
        None => {
            g.waker = Some(cx.waker().clone());
            Poll::Pending
        }
    }
}

/// connect() of the code under test to a unix path
pub(crate) fn unix_connect(path: &Path) -> io::Result<Endpoint> {
    let (listener, fault) = {
        let mut w = lock(&WORLD);
        let fault = std::mem::replace(&mut w.next_unix_fault, UnixFault::None);
        (w.unix.get(path).cloned(), fault)
    };
    bump();
    if fault == UnixFault::Refuse {
        count("unix_connect_refused_injected");
        return Err(io::Error::from_raw_os_error(111)); // ECONNREFUSED
    }
    let Some(listener) = listener else {
        count("unix_connect_no_listener");
        return Err(if path.exists() {
            io::Error::from_raw_os_error(111)
        } else {
            io::Error::from_raw_os_error(2) // ENOENT
        });
    };
    let conn = new_conn(Kind::Unix, fault);
    if fault == UnixFault::CloseBeforeWrite {
        let mut c = lock(&conn);
        c.s2c.fin = true;
        c.s2c.discard = true;
        c.fault_applied = true;
        drop(c);
        count("unix_fault_close_before_write");
    }
    lock(&WORLD).unix_conns.push(conn.clone());
    count("unix_connects");
    let mut l = lock(&listener);
    l.queue.push_back(conn.clone());
    wake(&mut l.waker);
    Ok(Endpoint { conn, side: Side::Client })
}

// ------------------------------------------------------------ SUT-side stream end

pub(crate) struct Endpoint {
    conn: Arc<Mutex<Conn>>,
    side: Side,
}

impl Endpoint {
    pub(crate) fn poll_read(&self, cx: &mut Context<'_>, out: &mut ReadBuf<'_>) -> Poll<io::Result<()>> {
        let mut g = lock(&self.conn);
        let c = &mut *g;
        if c.reset {
            drop(g);
            bump();
            count("read_econnreset");
            return Poll::Ready(Err(io::Error::from_raw_os_error(104))); // ECONNRESET
        }
        let (id, kind) = (c.id, c.kind);
        let dir = match self.side {
            Side::Server => &mut c.c2s,
            Side::Client => &mut c.s2c,
        };
        let zero_cause = if out.remaining() == 0 {
            Some("empty_buffer")
        } else if !dir.buf.is_empty() {
            None
        } else if dir.fin {
            Some("eof")
        } else {
            dir.zero_reads = 0;
            dir.reader_waker = Some(cx.waker().clone());
            return Poll::Pending;
        };
        bump();
        match zero_cause {
            None => {
                let n = out.remaining().min(dir.buf.len());
                let (a, b) = dir.buf.as_slices();
                let na = n.min(a.len());
                out.put_slice(&a[..na]);
                dir.read_log.extend_from_slice(&a[..na]);
                if n > na {
                    out.put_slice(&b[..n - na]);
                    dir.read_log.extend_from_slice(&b[..n - na]);
                }
                dir.buf.drain(..n);
                dir.read_sizes.push(n);
                dir.zero_reads = 0;
                let drained = dir.buf.is_empty();
                if self.side == Side::Server && drained && c.reset_when_c2s_drained {
                    c.reset = true;
                    c.reset_when_c2s_drained = false;
                }
                Poll::Ready(Ok(()))
            }
            Some(cause) => {
                dir.zero_reads += 1;
                let z = dir.zero_reads;
                drop(g);
                if cause == "eof" {
                    count("read_eof");
                } else {
                    count("read_into_empty_buffer");
                }
                if z > SPIN_LIMIT {
                    let info = SpinInfo { conn: id, kind, cause, zero_reads: z };
                    let mut w = lock(&WORLD);
                    if w.spin.is_none() {
                        w.spin = Some(info.clone());
                    }
                    drop(w);
                    panic!(
                        "SpinDetected: {z} consecutive zero-byte reads ({cause}) on {kind:?} connection {id} - the reading task is in a busy loop"
                    );
                }
                Poll::Ready(Ok(()))
            }
        }
    }

    pub(crate) fn poll_write(&self, _cx: &mut Context<'_>, data: &[u8]) -> Poll<io::Result<usize>> {
        let mut g = lock(&self.conn);
        let c = &mut *g;
        bump();
        if c.reset {
            drop(g);
            count("write_epipe");
            return Poll::Ready(Err(io::Error::from_raw_os_error(32))); // EPIPE
        }
        let kind = c.kind;
        let (dir, max) = match self.side {
            Side::Server => (&mut c.s2c, c.server_write_max),
            Side::Client => (&mut c.c2s, usize::MAX),
        };
        let n = data.len().min(max.max(1));
        if dir.discard {
            // an injected fault sits between the two ends: the writer sees a healthy peer
            dir.written_log.extend_from_slice(&data[..n]);
            return Poll::Ready(Ok(n));
        }
        if kind == Kind::Unix && dir.reader_gone {
            drop(g);
            count("write_epipe");
            return Poll::Ready(Err(io::Error::from_raw_os_error(32)));
        }
        if n < data.len() {
            count("partial_write");
        }
        let data = &data[..n];
        dir.written_log.extend_from_slice(data);
        // injected faults on the accepting side's first write of a unix connection
        if self.side == Side::Server && kind == Kind::Unix && !c.fault_applied && !data.is_empty() {
            c.fault_applied = true;
            match c.fault {
                UnixFault::Truncate { drop_tail } => {
                    let keep = data.len().saturating_sub((drop_tail as usize).max(1));
                    dir.buf.extend(&data[..keep]);
                    dir.fin = true;
                    dir.discard = true;
                    wake(&mut dir.reader_waker);
                    drop(g);
                    count("unix_fault_truncate");
                    return Poll::Ready(Ok(n));
                }
                UnixFault::Corrupt { from_end, xor } => {
                    let at = data.len().saturating_sub((from_end as usize).max(1));
                    let mut v = data.to_vec();
                    v[at] ^= if xor == 0 { 1 } else { xor };
                    dir.buf.extend(&v);
                    wake(&mut dir.reader_waker);
                    drop(g);
                    count("unix_fault_corrupt");
                    return Poll::Ready(Ok(n));
                }
                _ => {}
            }
        }
        dir.buf.extend(data);
        wake(&mut dir.reader_waker);
        Poll::Ready(Ok(n))
    }

    pub(crate) fn shutdown_write(&self) {
        let mut g = lock(&self.conn);
        let dir = match self.side {
            Side::Server => &mut g.s2c,
            Side::Client => &mut g.c2s,
        };
        if !dir.fin {
            dir.fin = true;
            bump();
        }
        wake(&mut dir.reader_waker);
    }
}

impl Drop for Endpoint {
    fn drop(&mut self) {
        let mut g = lock(&self.conn);
        let c = &mut *g;
        let (out, inp) = match self.side {
            Side::Server => (&mut c.s2c, &mut c.c2s),
            Side::Client => (&mut c.c2s, &mut c.s2c),
        };
        out.fin = true;
        inp.reader_gone = true;
        inp.reader_waker = None;
        bump();
        wake(&mut out.reader_waker);
    }
}

// ------------------------------------------------------------ harness-side TCP client

/// The harness' end of a simulated TCP connection (synchronous; the harness
/// decides when the executor runs).
pub struct TcpClient {
    conn: Arc<Mutex<Conn>>,
    closed: bool,
}

impl TcpClient {
    pub fn connect(addr: &str) -> io::Result<TcpClient> {
        let listener = lock(&WORLD).tcp.get(addr).cloned();
        bump();
        let Some(listener) = listener else {
            count("tcp_connect_refused");
            return Err(io::Error::from_raw_os_error(111));
        };
        let conn = new_conn(Kind::Tcp, UnixFault::None);
        count("tcp_connects");
        let mut l = lock(&listener);
        l.queue.push_back(conn.clone());
        wake(&mut l.waker);
        Ok(TcpClient { conn, closed: false })
    }
    pub fn id(&self) -> u64 {
        lock(&self.conn).id
    }
    /// the server's writes accept at most `n` bytes each from now on
    pub fn set_server_write_max(&self, n: usize) {
        lock(&self.conn).server_write_max = n.max(1);
    }
    pub fn write(&self, data: &[u8]) {
        let mut c = lock(&self.conn);
        c.c2s.written_log.extend_from_slice(data);
        c.c2s.buf.extend(data);
        bump();
        wake(&mut c.c2s.reader_waker);
    }
    /// everything the server has sent since the last call
    pub fn take_received(&self) -> Vec<u8> {
        let mut c = lock(&self.conn);
        let v: Vec<u8> = c.s2c.buf.drain(..).collect();
        c.s2c.read_log.extend_from_slice(&v);
        v
    }
    /// the server has closed (or dropped) its end
    pub fn server_closed(&self) -> bool {
        lock(&self.conn).s2c.fin
    }
    /// sizes of the reads by which the server consumed what the client wrote
    pub fn server_read_sizes(&self) -> Vec<usize> {
        lock(&self.conn).c2s.read_sizes.clone()
    }
    /// bytes of the client's writes the server has not read yet
    pub fn unread_by_server(&self) -> usize {
        lock(&self.conn).c2s.buf.len()
    }
    /// orderly close (FIN): the server reads EOF; its writes still succeed
    pub fn close(&mut self) {
        if self.closed {
            return;
        }
        self.closed = true;
        let mut c = lock(&self.conn);
        c.c2s.fin = true;
        c.s2c.reader_gone = true;
        bump();
        wake(&mut c.c2s.reader_waker);
    }
    /// abortive close (RST) now: pending data is lost, server reads fail with
    /// ECONNRESET and writes with EPIPE
    pub fn reset(&mut self) {
        self.closed = true;
        let mut c = lock(&self.conn);
        c.reset = true;
        c.c2s.buf.clear();
        bump();
        count("tcp_reset_injected");
        wake(&mut c.c2s.reader_waker);
    }
    /// the RST arrives right after the server has read everything sent so far
    pub fn reset_when_consumed(&mut self) {
        self.closed = true;
        let mut c = lock(&self.conn);
        if c.c2s.buf.is_empty() {
            c.reset = true;
        } else {
            c.reset_when_c2s_drained = true;
        }
        bump();
        count("tcp_reset_injected");
        wake(&mut c.c2s.reader_waker);
    }
}

impl Drop for TcpClient {
    fn drop(&mut self) {
        self.close();
    }
}

#[cfg(test)]
mod tests {
    use super::*;
    use crate::net::{TcpListener, UnixListener, UnixStream};
    use tokio_real::io::{AsyncReadExt, AsyncWriteExt};

    fn rt() -> tokio_real::runtime::Runtime {
        tokio_real::runtime::Builder::new_current_thread().build().unwrap()
    }

    #[test]
    fn close_gives_eof_and_writes_still_succeed_reset_gives_errors() {
        rt().block_on(async {
            let l = TcpListener::bind("127.0.0.1:7001").await.unwrap();
            let mut c = TcpClient::connect("127.0.0.1:7001").unwrap();
            let (mut s, _) = l.accept().await.unwrap();
            c.write(b"abc");
            let mut buf = [0u8; 8];
            assert_eq!(s.read(&mut buf).await.unwrap(), 3);
            c.close();
            assert_eq!(s.read(&mut buf).await.unwrap(), 0);
            s.write_all(b"late answer").await.unwrap();
            assert_eq!(c.take_received(), b"late answer");

            let mut c = TcpClient::connect("127.0.0.1:7001").unwrap();
            let (mut s, _) = l.accept().await.unwrap();
            c.write(b"xyz");
            c.reset_when_consumed();
            assert_eq!(s.read(&mut buf).await.unwrap(), 3);
            assert_eq!(s.read(&mut buf).await.unwrap_err().raw_os_error(), Some(104));
            assert_eq!(s.write(b"x").await.unwrap_err().raw_os_error(), Some(32));
            assert!(TcpClient::connect("127.0.0.1:7999").is_err());
        });
    }

    #[test]
    fn reading_past_eof_a_thousand_times_is_a_spin() {
        let r = std::panic::catch_unwind(|| {
            rt().block_on(async {
                let l = TcpListener::bind("127.0.0.1:7002").await.unwrap();
                let mut c = TcpClient::connect("127.0.0.1:7002").unwrap();
                let (mut s, _) = l.accept().await.unwrap();
                c.close();
                let mut buf = [0u8; 8];
                loop {
                    let _ = s.read(&mut buf).await.unwrap();
                }
            })
        });
        let msg = *r.unwrap_err().downcast::<String>().unwrap();
        assert!(msg.starts_with("SpinDetected"), "{msg}");
        assert_eq!(spin_info().unwrap().cause, "eof");
    }

    #[test]
    fn unix_faults_count_from_the_end_and_hide_from_the_writer() {
        rt().block_on(async {
            let dir = std::env::temp_dir().join(format!("simtokio-test-{}", std::process::id()));
            std::fs::create_dir_all(&dir).unwrap();
            let path = dir.join("s");
            let _ = std::fs::remove_file(&path);
            let l = UnixListener::bind(&path).unwrap();
            assert!(UnixListener::bind(&path).is_err());
            for (fault, want) in [
                (UnixFault::None, &b"0123456789"[..]),
                (UnixFault::Truncate { drop_tail: 4 }, &b"012345"[..]),
                (UnixFault::Corrupt { from_end: 1, xor: 1 }, &b"0123456788"[..]),
                (UnixFault::CloseBeforeWrite, &b""[..]),
            ] {
                set_next_unix_fault(fault);
                let mut c = UnixStream::connect(&path).await.unwrap();
                let (mut s, _) = l.accept().await.unwrap();
                s.write_all(b"0123456789").await.unwrap();
                drop(s);
                let mut got = Vec::new();
                c.read_to_end(&mut got).await.unwrap();
                assert_eq!(got, want, "{fault:?}");
            }
            set_next_unix_fault(UnixFault::Refuse);
            assert_eq!(UnixStream::connect(&path).await.err().unwrap().raw_os_error(), Some(111));
            // a writer whose peer is really gone gets EPIPE
            let c = UnixStream::connect(&path).await.unwrap();
            let (mut s, _) = l.accept().await.unwrap();
            drop(c);
            assert_eq!(s.write(b"x").await.unwrap_err().raw_os_error(), Some(32));
            let recs = take_unix_records();
            assert_eq!(recs.len(), 5);
            assert_eq!(recs[1].written, b"0123456789");
            assert_eq!(recs[1].delivered, b"012345");
            std::fs::remove_dir_all(&dir).unwrap();
        });
    }
}
