//! Stand-ins for `tokio::net::{TcpListener, TcpStream, UnixListener,
//! UnixStream}` with the signatures the observer and the exporter use.
//! All are `Send + Sync` (`Arc<Mutex<..>>` inside): `observer::spawn` uses
//! `tokio::spawn`, although only one thread ever runs.
use std::future::poll_fn;
use std::io;
use std::net::SocketAddr;
use std::path::{Path, PathBuf};
use std::pin::Pin;
use std::sync::{Arc, Mutex};
use std::task::{Context, Poll};

use tokio_real::io::{AsyncRead, AsyncWrite, ReadBuf};

use crate::sim::{self, Endpoint, Listener};

pub struct TcpListener {
    inner: Arc<Mutex<Listener>>,
    addr: SocketAddr,
}

impl TcpListener {
    pub async fn bind<A: std::net::ToSocketAddrs>(addr: A) -> io::Result<TcpListener> {
        let mut last = io::Error::new(io::ErrorKind::InvalidInput, "could not resolve to any address");
        for a in addr.to_socket_addrs()? {
            match sim::tcp_bind(a.to_string()) {
                Ok(inner) => return Ok(TcpListener { inner, addr: a }),
                Err(e) => last = e,
            }
        }
        Err(last)
    }
    pub async fn accept(&self) -> io::Result<(TcpStream, SocketAddr)> {
        let ep = poll_fn(|cx| sim::poll_accept(&self.inner, cx)).await;
        Ok((TcpStream(ep), "127.0.0.1:1".parse().unwrap()))
    }
    pub fn local_addr(&self) -> io::Result<SocketAddr> {
        Ok(self.addr)
    }
}

impl Drop for TcpListener {
    fn drop(&mut self) {
        sim::tcp_unbind(&self.addr.to_string());
    }
}

pub struct TcpStream(Endpoint);

pub struct UnixListener {
    inner: Arc<Mutex<Listener>>,
    path: PathBuf,
}

pub mod unix {
    /// placeholder for `tokio::net::unix::SocketAddr` (unnamed peer)
    #[derive(Debug, Clone, Default)]
    pub struct SocketAddr;
}

impl UnixListener {
    pub fn bind<P: AsRef<Path>>(path: P) -> io::Result<UnixListener> {
        let path = path.as_ref().to_path_buf();
        let inner = sim::unix_bind(&path)?;
        Ok(UnixListener { inner, path })
    }
    pub async fn accept(&self) -> io::Result<(UnixStream, unix::SocketAddr)> {
        let ep = poll_fn(|cx| sim::poll_accept(&self.inner, cx)).await;
        Ok((UnixStream(ep), unix::SocketAddr))
    }
}

impl Drop for UnixListener {
    fn drop(&mut self) {
        // like the kernel: the name stays in the file system, nobody listens
        sim::unix_unbind(&self.path);
    }
}

pub struct UnixStream(Endpoint);

impl UnixStream {
    pub async fn connect<P: AsRef<Path>>(path: P) -> io::Result<UnixStream> {
        sim::unix_connect(path.as_ref()).map(UnixStream)
    }
}

macro_rules! stream_impl {
    ($t:ty) => {
        impl AsyncRead for $t {
            fn poll_read(self: Pin<&mut Self>, cx: &mut Context<'_>, buf: &mut ReadBuf<'_>) -> Poll<io::Result<()>> {
                self.0.poll_read(cx, buf)
            }
        }
        impl AsyncWrite for $t {
            fn poll_write(self: Pin<&mut Self>, cx: &mut Context<'_>, buf: &[u8]) -> Poll<io::Result<usize>> {
                self.0.poll_write(cx, buf)
            }
            fn poll_flush(self: Pin<&mut Self>, _cx: &mut Context<'_>) -> Poll<io::Result<()>> {
                Poll::Ready(Ok(()))
            }
            fn poll_shutdown(self: Pin<&mut Self>, _cx: &mut Context<'_>) -> Poll<io::Result<()>> {
                self.0.shutdown_write();
                Poll::Ready(Ok(()))
            }
        }
    };
}
stream_impl!(TcpStream);
stream_impl!(UnixStream);

fn _assert_send_sync() {
    fn is<T: Send + Sync>() {}
    is::<TcpListener>();
    is::<TcpStream>();
    is::<UnixListener>();
    is::<UnixStream>();
}
