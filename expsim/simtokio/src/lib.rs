//! `simtokio` - the facade that is *named* `tokio` when the unmodified
//! statime-linux library sources are compiled (see ../shadow-statime-linux).
//!
//! Everything is real tokio, re-exported, except `tokio::net`: the four socket
//! types used by the observer and the metrics exporter are in-memory streams
//! owned by the simulator (`sim`). No file descriptor, no reactor, no timer.
pub use tokio_real::*;

/// Replaces `tokio::net` (explicit item: shadows the glob re-export).
pub mod net;
/// Test-side handle on the simulated network.
pub mod sim;
