#!/bin/bash
# scratch-check.sh <tree> <expsim args...>
# Runs expsim against ANOTHER copy of the statime sources (a patched scratch
# worktree such as /tmp/expsim-fixed, or a mutant) without touching /repo,
# /verif/evidence or /verif/replays:
#   * copies /verif/sim and /verif/expsim to a scratch directory outside /repo and /verif,
#   * rewrites every "/repo" path in the copied manifests/build script to <tree>,
#   * builds there (own target dir), runs `expsim <args>` with evidence/replays
#     redirected to the scratch directory,
#   * removes the scratch directory (set KEEP_SCRATCH=1 to keep it; it is printed).
set -u
TREE="${1:?usage: scratch-check.sh <tree> <expsim args...>}"; shift
TREE="$(readlink -f "$TREE")"
case "$TREE" in /repo|/repo/*|/verif|/verif/*) echo "scratch tree must live outside /repo and /verif"; exit 2;; esac
S="$(mktemp -d /tmp/expsim-scratch.XXXXXX)"
trap '[ -n "${KEEP_SCRATCH:-}" ] && echo "scratch kept: $S" || rm -rf "$S"' EXIT
mkdir -p "$S/sim" "$S/expsim" "$S/out"
cp -r /verif/sim/vcommon /verif/sim/ptpsim /verif/sim/Cargo.toml /verif/sim/Cargo.lock "$S/sim/" 2>/dev/null
( cd /verif/expsim && cp -r Cargo.toml Cargo.lock .cargo simtokio shadow-statime-linux expsim "$S/expsim/" )
TARGET="${SCRATCH_TARGET:-$S/target}"   # SCRATCH_TARGET=<dir>: keep and reuse one target dir across calls
grep -rlE '/repo|/verif/' "$S" --include=Cargo.toml --include=build.rs --include=config.toml | while read -r f; do
  sed -i -e "s#/repo/#$TREE/#g" -e "s#\"/repo\"#\"$TREE\"#g" -e "s#/verif/sim/#$S/sim/#g" -e "s#/verif/target/expsim#$TARGET#g" "$f"
done
cd "$S/expsim" || exit 2
if ! cargo build --release --offline >"$S/build.log" 2>&1; then tail -40 "$S/build.log"; echo "HARNESS-ERROR: scratch build failed"; exit 2; fi
EXPSIM_OUT_ROOT="$S/out" "$TARGET/release/expsim" "$@"
rc=$?
if [ -n "${SCRATCH_COPY_OUT:-}" ]; then mkdir -p "$SCRATCH_COPY_OUT" && cp -r "$S/out/." "$SCRATCH_COPY_OUT/"; fi
exit $rc
