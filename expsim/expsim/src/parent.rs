//! The parent side: builds the scenario lists, farms them out to worker
//! processes (up to 16 at a time), merges results in scenario order,
//! classifies violations against /verif/known_findings.json, minimises by
//! deletion, writes replay and evidence files.
use crate::scenario::*;
use crate::worker::{ScenarioResult, WorkerSummary};
use serde::{Deserialize, Serialize};
use serde_json::json;
use std::collections::{BTreeMap, BTreeSet};
use std::path::{Path, PathBuf};
use std::process::{Command, Stdio};
use std::sync::atomic::{AtomicU64, AtomicUsize, Ordering};
use std::sync::Mutex;
use std::time::Instant;
use vcommon::{hash_str, match_known, KnownFinding, Tier, Violation, VERIF_ROOT};

static DIR_COUNTER: AtomicU64 = AtomicU64::new(0);
static WORKER_STARTS: AtomicU64 = AtomicU64::new(0);

pub fn threads() -> usize {
    std::env::var("VERIF_THREADS")
        .ok()
        .and_then(|s| s.parse().ok())
        .unwrap_or_else(|| std::thread::available_parallelism().map(|n| n.get()).unwrap_or(8))
        .clamp(1, 16)
}

/// /verif/known_findings.json (read-only; missing = empty). EXPSIM_KNOWN_FINDINGS
/// names another file - used only to test the known-finding path without
/// touching the real file.
fn load_known_findings() -> Vec<KnownFinding> {
    match std::env::var("EXPSIM_KNOWN_FINDINGS") {
        Ok(p) => match std::fs::read_to_string(&p).map_err(|e| e.to_string()).and_then(|s| serde_json::from_str(&s).map_err(|e| e.to_string())) {
            Ok(v) => v,
            Err(e) => {
                eprintln!("HARNESS-ERROR: cannot read {p}: {e}");
                std::process::exit(2);
            }
        },
        Err(_) => vcommon::load_known_findings(),
    }
}

/// where evidence/ and replays/ go: /verif, unless EXPSIM_OUT_ROOT redirects them
/// (scratch runs against a patched copy of the tree must not overwrite the real evidence)
fn out_root() -> PathBuf {
    std::env::var("EXPSIM_OUT_ROOT").map(PathBuf::from).unwrap_or_else(|_| Path::new(VERIF_ROOT).to_path_buf())
}

pub fn base_seed() -> u64 {
    std::env::var("VERIF_SEED").ok().and_then(|s| s.parse().ok()).unwrap_or(1)
}

#[derive(Default)]
pub struct BatchOutput {
    pub results: BTreeMap<u64, ScenarioResult>,
    pub summary: WorkerSummary,
    pub harness_errors: Vec<String>,
}

struct WorkerRun {
    results: Vec<ScenarioResult>,
    summary: Option<WorkerSummary>,
    errors: Vec<String>,
}

/// Start one worker process for `scenarios` (in order) and collect what it reports.
fn run_worker(scenarios: &[Scenario]) -> WorkerRun {
    let mut run = WorkerRun { results: Vec::new(), summary: None, errors: Vec::new() };
    let exe = match std::env::current_exe() {
        Ok(e) => e,
        Err(e) => {
            run.errors.push(format!("current_exe: {e}"));
            return run;
        }
    };
    // fresh directory outside /verif and /repo: config, batch and the observation socket's name
    let dir = std::env::temp_dir().join(format!("expsim-{}-{}", std::process::id(), DIR_COUNTER.fetch_add(1, Ordering::Relaxed)));
    let _ = std::fs::remove_dir_all(&dir);
    if let Err(e) = std::fs::create_dir_all(&dir) {
        run.errors.push(format!("cannot create {}: {e}", dir.display()));
        return run;
    }
    let cfg = dir.join("statime.toml");
    let batch = dir.join("batch.jsonl");
    let sock = dir.join("observe.sock");
    let cfg_text = format!(
        "loglevel = \"warn\"\n\n[[port]]\ninterface = \"lo\"\n\n[observability]\nobservation-path = \"{}\"\nmetrics-exporter-listen = \"127.0.0.1:9975\"\n",
        sock.display()
    );
    let mut batch_text = String::new();
    for s in scenarios {
        batch_text.push_str(&serde_json::to_string(s).unwrap());
        batch_text.push('\n');
    }
    if let Err(e) = std::fs::write(&cfg, cfg_text).and_then(|_| std::fs::write(&batch, batch_text)) {
        run.errors.push(format!("cannot write worker input: {e}"));
        let _ = std::fs::remove_dir_all(&dir);
        return run;
    }
    WORKER_STARTS.fetch_add(1, Ordering::Relaxed);
    let out = Command::new(&exe)
        .arg("-c")
        .arg(&cfg)
        .env("EXPSIM_WORKER", &batch)
        .env("NO_COLOR", "1")
        .stdin(Stdio::null())
        .stdout(Stdio::piped())
        .stderr(Stdio::piped())
        .output();
    let _ = std::fs::remove_dir_all(&dir);
    let out = match out {
        Ok(o) => o,
        Err(e) => {
            run.errors.push(format!("cannot start worker: {e}"));
            return run;
        }
    };
    for line in String::from_utf8_lossy(&out.stdout).lines() {
        if let Some(j) = line.strip_prefix("@@R ") {
            match serde_json::from_str::<ScenarioResult>(j) {
                Ok(r) => run.results.push(r),
                Err(e) => run.errors.push(format!("unparsable result line: {e}")),
            }
        } else if let Some(j) = line.strip_prefix("@@S ") {
            run.summary = serde_json::from_str(j).ok();
        }
    }
    for line in String::from_utf8_lossy(&out.stderr).lines() {
        if line.contains("HARNESS-ERROR") || line.starts_with("worker panic") {
            run.errors.push(format!("worker stderr: {line}"));
        }
    }
    if !out.status.success() {
        run.errors.push(format!("worker ended with {} after {} of {} scenarios", out.status, run.results.len(), scenarios.len()));
    }
    run
}

/// Run one chunk to completion: a worker that loses its exporter is replaced
/// and the remaining scenarios go to the fresh one.
fn run_chunk(chunk: &[Scenario], out: &mut BatchOutput) {
    let mut rest = chunk;
    while !rest.is_empty() {
        let run = run_worker(rest);
        let n = run.results.len();
        let last_fatal = run.results.last().map(|r| r.fatal).unwrap_or(false);
        let mut ok = true;
        for (i, r) in run.results.into_iter().enumerate() {
            if i >= rest.len() || r.id != rest[i].id {
                out.harness_errors.push(format!("worker reported scenario {} out of order", r.id));
                ok = false;
                break;
            }
            if let Some(e) = &r.harness_error {
                out.harness_errors.push(format!("scenario {}: {e}", r.id));
            }
            out.results.insert(r.id, r);
        }
        if let Some(s) = run.summary {
            for (k, v) in s.faults {
                *out.summary.faults.entry(k).or_insert(0) += v;
            }
            for (k, v) in s.probes {
                *out.summary.probes.entry(k).or_insert(0) += v;
            }
            out.summary.rounds += s.rounds;
            out.summary.scenarios += s.scenarios;
        }
        out.harness_errors.extend(run.errors);
        if !ok {
            return;
        }
        if n == rest.len() {
            return;
        }
        if n == 0 || !last_fatal {
            out.harness_errors.push(format!("worker stopped after {n} of {} scenarios without a verdict for scenario {}", rest.len(), rest[n.min(rest.len() - 1)].id));
            return;
        }
        rest = &rest[n..];
    }
}

/// Run all scenarios on up to `threads` worker processes; results are keyed by
/// scenario id, so the merge order never depends on scheduling.
pub fn run_batch(scenarios: &[Scenario], chunk_size: usize, threads: usize) -> BatchOutput {
    let chunks: Vec<&[Scenario]> = scenarios.chunks(chunk_size.max(1)).collect();
    let next = AtomicUsize::new(0);
    let merged = Mutex::new(BatchOutput::default());
    std::thread::scope(|s| {
        for _ in 0..threads.min(chunks.len()).max(1) {
            s.spawn(|| {
                let mut local = BatchOutput::default();
                loop {
                    let i = next.fetch_add(1, Ordering::Relaxed);
                    if i >= chunks.len() {
                        break;
                    }
                    run_chunk(chunks[i], &mut local);
                }
                let mut m = merged.lock().unwrap();
                m.results.extend(local.results);
                for (k, v) in local.summary.faults {
                    *m.summary.faults.entry(k).or_insert(0) += v;
                }
                for (k, v) in local.summary.probes {
                    *m.summary.probes.entry(k).or_insert(0) += v;
                }
                m.summary.rounds += local.summary.rounds;
                m.summary.scenarios += local.summary.scenarios;
                m.harness_errors.extend(local.harness_errors);
            });
        }
    });
    let mut m = merged.into_inner().unwrap();
    m.harness_errors.sort();
    m
}

/// Run a single scenario in a fresh worker.
pub fn run_single(sc: &Scenario) -> Result<ScenarioResult, String> {
    let run = run_worker(std::slice::from_ref(sc));
    match run.results.into_iter().next() {
        Some(r) => Ok(r),
        None => Err(format!("no result from worker: {:?}", run.errors)),
    }
}

#[derive(Clone, Debug, Serialize, Deserialize)]
pub struct ExpReplay {
    pub property: String,
    pub family: String,
    pub tier: Tier,
    pub seed: u64,
    pub run_index: u64,
    pub oracle: String,
    pub key: String,
    pub message: String,
    pub digest: u64,
    pub minimised: bool,
    /// script size (steps / edits) before minimisation
    pub script_len_before: usize,
    pub scenario: Scenario,
}

fn class_key(k: &str) -> String {
    k.chars().filter(|c| !c.is_ascii_digit()).collect()
}

fn script_len(s: &Scenario) -> usize {
    match &s.body {
        Body::C19(b) => b.edits.len() + b.transport.request_chunks.len() + b.transport.server_write_max.is_some() as usize + b.transport.long_request as usize,
        Body::C20(b) => b.steps.len(),
    }
}

fn fires(sc: &Scenario, oracle: &str, known: &[KnownFinding]) -> Option<(Violation, u64)> {
    let r = run_single(sc).ok()?;
    let v = r.violations.iter().find(|v| v.oracle == oracle && match_known(known, v).is_none())?.clone();
    Some((v, r.digest))
}

/// Shrink the script by deletion, keeping a candidate only if the same oracle id still fires.
fn minimise(sc: &Scenario, oracle: &str, known: &[KnownFinding]) -> (Scenario, Option<(Violation, u64)>) {
    let mut best = sc.clone();
    let mut best_v = match fires(&best, oracle, known) {
        Some(v) => v,
        None => return (best, None),
    };
    let mut progress = true;
    let mut tries = 0;
    while progress && tries < 60 {
        progress = false;
        let mut cands: Vec<Scenario> = Vec::new();
        match &best.body {
            Body::C20(b) => {
                for i in 0..b.steps.len() {
                    let mut c = b.clone();
                    c.steps.remove(i);
                    cands.push(Scenario { id: best.id, body: Body::C20(c) });
                }
            }
            Body::C19(b) => {
                if !b.edits.is_empty() {
                    let mut c = b.clone();
                    c.edits.clear();
                    cands.push(Scenario { id: best.id, body: Body::C19(c) });
                }
                if b.edits.len() > 1 {
                    for i in 0..b.edits.len() {
                        let mut c = b.clone();
                        c.edits.remove(i);
                        cands.push(Scenario { id: best.id, body: Body::C19(c) });
                    }
                }
                if b.transport != Transport::default() {
                    let mut c = b.clone();
                    c.transport = Transport::default();
                    cands.push(Scenario { id: best.id, body: Body::C19(c) });
                }
                if !b.prelude.is_empty() {
                    let mut c = b.clone();
                    c.prelude.clear();
                    cands.push(Scenario { id: best.id, body: Body::C19(c) });
                    if b.prelude.len() > 1 {
                        for i in 0..b.prelude.len() {
                            let mut c = b.clone();
                            c.prelude.remove(i);
                            cands.push(Scenario { id: best.id, body: Body::C19(c) });
                        }
                    }
                }
            }
        }
        for c in cands {
            tries += 1;
            if let Some(v) = fires(&c, oracle, known) {
                best = c;
                best_v = v;
                progress = true;
                break;
            }
        }
    }
    (best, Some(best_v))
}

pub struct CheckPlan<'a> {
    pub property: &'a str,
    pub tier: Tier,
    pub level: &'a str,
    pub rule: String,
    pub exhaustive: bool,
    pub extra_coverage: serde_json::Value,
    pub assumptions: Vec<String>,
    pub notes: Vec<String>,
}

fn components() -> serde_json::Value {
    json!({
        "real": [
            "statime-linux metrics::exporter::main (accept loop, request reader, handler, read_json) - unmodified source, compiled from /repo's working tree",
            "statime-linux metrics::format::* (format_response, format_state, format_metric, format_bool!)",
            "statime-linux observer::spawn / observer accept loop / create_unix_socket_with_permissions / write_json",
            "statime-linux config::Config::from_file, initialize_logging_parse_config, clap argument parsing",
            "statime observability data sets and their serde implementations (Duration/TimeInterval/PathTraceDS), serde_json",
            "statime PtpInstance/Port/BMCA producing the instance states (through ptpsim)",
            "tokio 1.x current-thread runtime, tokio::spawn, LocalSet, sync::watch, io::AsyncReadExt/AsyncWriteExt (read, read_buf, write_all)"
        ],
        "stub": [
            "tokio::net::{TcpListener,TcpStream,UnixListener,UnixStream}: in-memory streams of the simtokio facade (kernel-faithful EOF/RST/EPIPE rules, placeholder file for the unix socket inode)",
            "the daemon's main.rs (construction of ObservableInstanceState from the data-set getters): ptpsim host model takes the snapshot with the same getter calls",
            "kernel, NIC, clocks of the simulated PTP network (ptpsim SimNet/SimClock)",
            "HTTP client (Prometheus) and hostile clients: scripted by the harness",
            "synthesised instance states: fields of reached snapshots edited through their public fields (recorded per scenario in `edits`)"
        ]
    })
}

/// Classify, minimise, write replays and evidence, print the verdict lines. Returns the exit code.
#[allow(clippy::too_many_arguments)]
pub fn conclude(plan: &CheckPlan, scenarios: &BTreeMap<u64, Scenario>, out: &BatchOutput, t0: Instant, evaluations: u64, extra_errors: Vec<String>) -> i32 {
    let property = plan.property;
    let known = load_known_findings();
    let seed = base_seed();
    let mut harness_errors = out.harness_errors.clone();
    harness_errors.extend(extra_errors);

    let mut shapes: BTreeSet<u64> = BTreeSet::new();
    let mut nontrivial = 0u64;
    let mut other_props: BTreeMap<String, u64> = BTreeMap::new();
    let mut known_hits: BTreeMap<String, (u64, String, String)> = BTreeMap::new();
    let mut classes: BTreeMap<(String, String), Vec<(u64, Violation)>> = BTreeMap::new();
    let mut fatal = 0u64;
    for (id, r) in &out.results {
        if r.nontrivial {
            nontrivial += 1;
            shapes.insert(r.shape);
        }
        if r.fatal {
            fatal += 1;
        }
        for v in &r.violations {
            if v.property != property {
                *other_props.entry(v.oracle.clone()).or_insert(0) += 1;
                continue;
            }
            if let Some(k) = match_known(&known, v) {
                let idk = format!("{} {}", k.oracle, k.key_contains.join(","));
                let e = known_hits.entry(idk).or_insert((0, k.what.clone(), k.oracle.clone()));
                e.0 += 1;
            } else {
                classes.entry((v.oracle.clone(), class_key(&v.key))).or_default().push((*id, v.clone()));
            }
        }
    }

    let mut violation_lines = Vec::new();
    let replay_dir = out_root().join("replays");
    std::fs::create_dir_all(&replay_dir).ok();
    let mut class_reports = Vec::new();
    for (n, ((oracle, _ck), list)) in classes.iter().enumerate() {
        let (first_id, first_v) = list.iter().min_by_key(|(id, _)| *id).unwrap();
        let sc = &scenarios[first_id];
        let before = script_len(sc);
        let (min_sc, min_v) = if n < 40 { minimise(sc, oracle, &known) } else { (sc.clone(), None) };
        let (v, digest, minimised) = match min_v {
            Some((v, d)) => (v, d, true),
            None => (first_v.clone(), out.results[first_id].digest, false),
        };
        let rf = ExpReplay {
            property: property.to_string(),
            family: "expsim".into(),
            tier: plan.tier,
            seed,
            run_index: *first_id,
            oracle: v.oracle.clone(),
            key: v.key.clone(),
            message: v.message.clone(),
            digest,
            minimised,
            script_len_before: before,
            scenario: min_sc.clone(),
        };
        let h = hash_str(&format!("{}{}", rf.oracle, class_key(&rf.key)));
        let path: PathBuf = replay_dir.join(format!("{}-{}-{:08x}.json", property, seed, h as u32));
        if let Err(e) = std::fs::write(&path, serde_json::to_string_pretty(&rf).unwrap()) {
            harness_errors.push(format!("cannot write {}: {e}", path.display()));
        }
        // must reproduce in a fresh process before the line is printed
        let confirmed = match run_single(&min_sc) {
            Ok(r) => r.violations.iter().any(|x| x.oracle == rf.oracle) && r.digest == digest,
            Err(_) => false,
        };
        if !confirmed {
            println!("warning: replay of {} in a fresh worker did not reproduce the same oracle and digest", path.display());
        }
        println!(
            "violation: oracle={} key={} scenarios_hit={} first_scenario={} script {} -> {} elements\n  {}",
            oracle,
            v.key,
            list.len(),
            first_id,
            before,
            script_len(&min_sc),
            v.message
        );
        class_reports.push(json!({"oracle": oracle, "key": v.key, "scenarios_hit": list.len(), "replay": path.display().to_string(), "reproduced_in_fresh_process": confirmed}));
        violation_lines.push(format!("VIOLATION property={} replay={}", property, path.display()));
    }
    for (idk, (n, what, _)) in &known_hits {
        println!("KNOWN-FINDING: property={} {} ({} scenarios) {}", property, idk, n, what);
    }
    for l in &violation_lines {
        println!("{l}");
    }
    for e in harness_errors.iter().take(10) {
        eprintln!("HARNESS-ERROR: {e}");
    }

    // samples: a few complete scenario descriptions with what happened
    let mut samples = Vec::new();
    let mut picks: Vec<u64> = out.results.keys().copied().take(2).collect();
    if let Some(last) = out.results.keys().last() {
        picks.push(*last);
    }
    if let Some((id, _)) = out.results.iter().find(|(_, r)| !r.violations.is_empty()) {
        picks.push(*id);
    }
    if let Some((id, _)) = out.results.iter().find(|(_, r)| r.nontrivial && r.violations.is_empty()) {
        picks.push(*id);
    }
    picks.sort();
    picks.dedup();
    for id in picks {
        if let (Some(sc), Some(r)) = (scenarios.get(&id), out.results.get(&id)) {
            samples.push(json!({
                "scenario": sc,
                "what_happened": r.trace,
                "violations": r.violations.iter().map(|v| format!("{} [{}]", v.oracle, v.key)).collect::<Vec<_>>(),
                "digest": format!("{:016x}", r.digest),
            }));
        }
    }

    let wall = t0.elapsed().as_secs_f64();
    let n_classes = classes.len();
    let mut coverage = json!({
        "evaluations": evaluations,
        "distinct_nontrivial": shapes.len(),
        "rule": plan.rule,
        "samples": samples,
        "exhaustive": plan.exhaustive,
        "nontrivial_runs": nontrivial,
        "executor_rounds": out.summary.rounds,
        "runs_per_hour": if wall > 0.0 { (evaluations as f64 / wall * 3600.0) as u64 } else { 0 },
        "faults_fired": out.summary.faults,
        "probes": out.summary.probes,
        "components": components(),
        "worker_processes_started": WORKER_STARTS.load(Ordering::Relaxed),
        "scenarios_that_lost_the_exporter": fatal,
        "violations_of_other_properties_seen": other_props,
        "known_findings_matched": known_hits.iter().map(|(k, (n, _, _))| json!({"finding": k, "runs": n})).collect::<Vec<_>>(),
        "unlisted_violation_classes": n_classes,
        "violation_classes": class_reports,
        "threads": threads(),
        "notes": plan.notes,
    });
    if let (Some(c), Some(e)) = (coverage.as_object_mut(), plan.extra_coverage.as_object()) {
        for (k, v) in e {
            c.insert(k.clone(), v.clone());
        }
    }
    let evidence = json!({
        "property_id": property,
        "tier": plan.tier.name(),
        "seed": seed,
        "level": plan.level,
        "coverage": coverage,
        "assumptions": plan.assumptions,
        "wall_s": wall,
        "violations": n_classes,
    });
    let evdir = out_root().join("evidence");
    std::fs::create_dir_all(&evdir).ok();
    let evpath = evdir.join(format!("{property}.json"));
    if let Err(e) = std::fs::write(&evpath, serde_json::to_string_pretty(&evidence).unwrap()) {
        eprintln!("HARNESS-ERROR: cannot write {}: {e}", evpath.display());
        return 2;
    }
    println!(
        "{} {}: scenarios={} nontrivial={} distinct={} lost_exporter={} workers={} wall_s={:.1} violations={} known={}",
        property,
        plan.tier.name(),
        evaluations,
        nontrivial,
        shapes.len(),
        fatal,
        WORKER_STARTS.load(Ordering::Relaxed),
        wall,
        n_classes,
        known_hits.len()
    );
    if !harness_errors.is_empty() {
        return 2;
    }
    if n_classes > 0 {
        1
    } else {
        0
    }
}

// ------------------------------------------------------------------ the two checks

pub fn check_c19(tier: Tier) -> i32 {
    let t0 = Instant::now();
    let list = c19_scenarios(base_seed(), tier);
    let world_of = |s: &Scenario| match &s.body {
        Body::C19(b) => Some(b.world.clone()),
        _ => None,
    };
    let first = list.first().and_then(world_of);
    // one chunk = the scenarios of one simulated network (it is simulated once per worker)
    let per_world = list.iter().take_while(|s| world_of(s) == first).count().max(1);
    let out = run_batch(&list, per_world, threads());
    let map: BTreeMap<u64, Scenario> = list.iter().map(|s| (s.id, s.clone())).collect();
    let mut errs = Vec::new();
    if out.results.len() != list.len() {
        errs.push(format!("{} of {} scenarios have no verdict", list.len() - out.results.len(), list.len()));
    }
    let states: BTreeSet<u64> = out.results.values().map(|r| r.state).collect();
    let plan = CheckPlan {
        property: "C19",
        tier,
        level: "exploration",
        rule: "scenario = (simulated PTP network recipe: one of 6 topologies, tape-decided attributes, clocks up to +-10 s apart; one of its distinct BMCA-tick snapshots; optional field edits; tape-decided transport chunking; for a quarter of the scenarios one or two earlier connections to the same exporter that went wrong - C20's client and observation-socket behaviours - while the instance was in another snapshot's state). \
               Every 4th scenario serves the state exactly as reached; the others cycle systematically through all time-properties combinations and all port-state x delay-mechanism combinations, or draw offsets/delays (0..+-10 s, incl. >64-bit fixed-point patterns), path trace lists (0..128), qualities and priorities from the tape. \
               A scenario is non-trivial when the exporter answered 200, the body parsed and every series was compared with the live data sets; distinct = distinct instance states (hash of the Debug rendering of the ObservableInstanceState served)."
            .into(),
        exhaustive: false,
        extra_coverage: json!({
            "distinct_instance_states": states.len(),
            "timeprops_combinations_total": N_TIMEPROP_COMBOS,
            "port_state_x_mechanism_combinations_total": N_PORT_COMBOS,
        }),
        assumptions: vec![
            "the ptpsim host model builds the observable snapshot with the same getter calls as statime-linux/src/main.rs::run (the daemon binary itself cannot be linked)".into(),
            "unix-stream writes of at most 16 KiB arrive in one read (kernel behaviour); larger documents are outside the quantifier (boundary clocks with 2-3 ports) and are reported by the probe json_larger_than_16KiB".into(),
            "statime_uptime_seconds comes from std::time::Instant: only required to be finite, >= 0 and equal to the JSON's value; masked in digests".into(),
            "the reference model knows the metric families by base name; an unknown family is counted (probe unmodelled_family), not judged".into(),
        ],
        notes: vec![
            "states marked state_edited are synthesised from reached snapshots through public fields; the PathTraceRepeat edit models what a peer's PATH_TRACE TLV with a repeated identity leaves in pathTraceDS (statime copies the TLV verbatim)".into(),
        ],
    };
    conclude(&plan, &map, &out, t0, out.results.len() as u64, errs)
}

pub fn check_c20(tier: Tier) -> i32 {
    let t0 = Instant::now();
    let alphabet = c20_alphabet();
    let max_len = c20_enumerated_lengths(tier);
    let mut all: BTreeMap<u64, Scenario> = BTreeMap::new();
    let mut merged = BatchOutput::default();
    let mut next_id = 0u64;
    let mut survivors: Vec<Vec<Step>> = vec![vec![]];
    let mut level_report = Vec::new();
    let mut errs = Vec::new();
    let mut fatal_classes: BTreeSet<&'static str> = BTreeSet::new();
    let mut alive_classes: BTreeSet<&'static str> = BTreeSet::new();
    let mut pruned_total = 0u64;
    for level in 1..=max_len {
        let mut list = Vec::new();
        for p in &survivors {
            for a in &alphabet {
                let mut steps = p.clone();
                steps.push(a.clone());
                list.push(Scenario { id: next_id, body: Body::C20(C20Scenario { steps }) });
                next_id += 1;
            }
        }
        let full = (alphabet.len() as u64).pow(level as u32);
        let out = run_batch(&list, 96, threads());
        if out.results.len() != list.len() {
            errs.push(format!("level {level}: {} of {} scenarios have no verdict", list.len() - out.results.len(), list.len()));
        }
        // a sequence whose exporter was lost cannot be extended: everything after the loss
        // never executes, so all its extensions have exactly this verdict (determinism)
        let mut next = Vec::new();
        let mut lost = 0u64;
        for s in &list {
            let Body::C20(b) = &s.body else { continue };
            match out.results.get(&s.id) {
                Some(r) if !r.fatal => {
                    next.push(b.steps.clone());
                    if level == 1 {
                        alive_classes.insert(b.steps[0].client.class());
                    }
                }
                Some(_) => {
                    lost += 1;
                    if level == 1 {
                        fatal_classes.insert(b.steps[0].client.class());
                    }
                }
                None => {}
            }
        }
        let pruned = full - list.len() as u64;
        pruned_total += pruned;
        level_report.push(json!({"length": level, "sequences_total": full, "executed": list.len(), "covered_by_a_prefix_that_lost_the_exporter": pruned, "lost_the_exporter_at_this_length": lost}));
        for s in list {
            all.insert(s.id, s);
        }
        merge(&mut merged, out);
        survivors = next;
    }
    // client classes whose every representative lost the exporter on its own
    let dead: BTreeSet<&'static str> = fatal_classes.difference(&alive_classes).copied().collect();
    // sampled length-4 sequences with tape-drawn parameters
    let n_samples = c20_sample_count(tier);
    let mut list = Vec::new();
    let mut resteered = 0u64;
    for i in 0..n_samples {
        let mut ch = vcommon::Chooser::generate(vcommon::run_seed(base_seed(), "c20-len4", i));
        let mut steps = Vec::new();
        // one sample in twelve is a long run of 12..40 connections (a port scanner, a client stuck in
        // a reconnect loop): whatever the exporter remembers about earlier clients must not add up
        let len = if i % 12 == 11 { ch.range(vcommon::tape::S_WORK, 12, 40) as usize } else { 4 };
        for k in 0..len {
            let mut st = c20_random_step(&mut ch);
            if len > 4 && k + 1 < len && ch.chance(vcommon::tape::S_WORK, 3, 4) {
                // mostly clients that go away without a response
                let mut t2 = 0;
                while matches!(st.client, ClientB::Get | ClientB::Split(_)) && t2 < 8 {
                    st = c20_random_step(&mut ch);
                    t2 += 1;
                }
            }
            // a step of a class that is already known to lose the exporter on its own would hide
            // the rest of the sequence: redraw (except in the last position), and say how often
            let mut tries = 0;
            while k + 1 < len && dead.contains(st.client.class()) && tries < 8 {
                st = c20_random_step(&mut ch);
                tries += 1;
                resteered += 1;
            }
            steps.push(st);
        }
        list.push(Scenario { id: next_id, body: Body::C20(C20Scenario { steps }) });
        next_id += 1;
    }
    let out = run_batch(&list, 96, threads());
    if out.results.len() != list.len() {
        errs.push(format!("samples: {} of {} scenarios have no verdict", list.len() - out.results.len(), list.len()));
    }
    let sample_lost = out.results.values().filter(|r| r.fatal).count();
    for s in list {
        all.insert(s.id, s);
    }
    merge(&mut merged, out);

    let lens: Vec<usize> = (1..=max_len).collect();
    let plan = CheckPlan {
        property: "C20",
        tier,
        level: "fault_enumeration",
        rule: format!(
            "alphabet = {} symbols = 13 client behaviours (get; close after 0/5/all-but-one bytes; 2048 and 4096 bytes without terminator; POST; GET split in 2 and byte by byte; reset at once / after 10 bytes / after the request was read; gone before the response) x 5 observation-socket behaviours (valid JSON from the real observer; truncated; one corrupted byte; connection refused; closed before writing). \
             ALL sequences of length {:?} are enumerated (a sequence is executed unless one of its proper prefixes already lost the exporter - then nothing after the prefix can execute and the verdict is the prefix's verdict; counted separately), each followed by a well-formed GET with a healthy observation socket that must be answered 200 with a well-formed body within {} executor rounds; {} sequences of length 4 with tape-drawn parameters are sampled. \
             A scenario is non-trivial when at least one hostile client behaviour or failing observation hop was executed; distinct = distinct sequences of (behaviour, observation behaviour, outcome).",
            alphabet.len(),
            lens,
            crate::worker::POLL_BUDGET,
            n_samples
        ),
        exhaustive: true,
        extra_coverage: json!({
            "enumerated_lengths": lens,
            "alphabet_size": alphabet.len(),
            "levels": level_report,
            "sequences_covered_by_prefix_verdict": pruned_total,
            "sampled_length_4": n_samples,
            "sampled_length_4_lost_exporter": sample_lost,
            "sample_steps_redrawn_because_class_loses_exporter_alone": resteered,
            "client_classes_losing_the_exporter_alone": dead.iter().collect::<Vec<_>>(),
            "spin_limit_zero_reads": 1000,
            "poll_budget_rounds": crate::worker::POLL_BUDGET,
        }),
        assumptions: vec![
            "every hostile client eventually goes away (premise of the property); clients that stay connected and silent are not modelled".into(),
            "kernel-faithful socket semantics: after an orderly close the server reads EOF and its response write succeeds; only a reset gives ECONNRESET on read and EPIPE on write".into(),
            "exhaustive means: exhaustive over the stated alphabet of representative parameter values up to the stated length, not over all byte strings".into(),
            "one simulated thread, no timers: the exporter has no timeouts, so a wedge cannot heal by waiting".into(),
        ],
        notes: vec![],
    };
    let evaluations = merged.results.len() as u64;
    conclude(&plan, &all, &merged, t0, evaluations, errs)
}

fn merge(into: &mut BatchOutput, from: BatchOutput) {
    into.results.extend(from.results);
    for (k, v) in from.summary.faults {
        *into.summary.faults.entry(k).or_insert(0) += v;
    }
    for (k, v) in from.summary.probes {
        *into.summary.probes.entry(k).or_insert(0) += v;
    }
    into.summary.rounds += from.summary.rounds;
    into.summary.scenarios += from.summary.scenarios;
    into.harness_errors.extend(from.harness_errors);
}

// ------------------------------------------------------------------ replay and selftest

pub fn replay(path: &str, quiet: bool) -> i32 {
    let rf: ExpReplay = match std::fs::read_to_string(path).map_err(|e| e.to_string()).and_then(|s| serde_json::from_str(&s).map_err(|e| e.to_string())) {
        Ok(r) => r,
        Err(e) => {
            eprintln!("HARNESS-ERROR: cannot read replay file {path}: {e}");
            return 2;
        }
    };
    match run_single(&rf.scenario) {
        Err(e) => {
            eprintln!("HARNESS-ERROR: {e}");
            2
        }
        Ok(r) => {
            if let Some(v) = r.violations.iter().find(|v| v.oracle == rf.oracle) {
                println!("REPRODUCED oracle={} digest_match={} key={}", v.oracle, r.digest == rf.digest, v.key);
                if !quiet {
                    for t in &r.trace {
                        println!("  | {t}");
                    }
                    println!("  {}", v.message);
                    println!("VIOLATION property={} replay={}", rf.property, path);
                }
                1
            } else {
                println!("NOT-REPRODUCED oracle={} (violations seen: {:?})", rf.oracle, r.violations.iter().map(|v| &v.oracle).collect::<Vec<_>>());
                for t in &r.trace {
                    println!("  | {t}");
                }
                0
            }
        }
    }
}

fn fingerprint(out: &BatchOutput) -> BTreeMap<u64, (u64, u64, Vec<(String, String)>, bool)> {
    out.results.iter().map(|(id, r)| (*id, (r.digest, r.shape, r.violations.iter().map(|v| (v.oracle.clone(), v.key.clone())).collect(), r.fatal))).collect()
}

/// Determinism: the same sample of scenarios is run twice, with different
/// numbers of worker processes and different chunking; scenario lists,
/// verdicts and per-scenario digests must be identical.
pub fn selftest() -> i32 {
    let seed = base_seed();
    let mut bad = 0;
    // C19: list generation twice, then a slice of it executed twice
    let a = c19_scenarios(seed, Tier::Quick);
    let b = c19_scenarios(seed, Tier::Quick);
    if a != b {
        println!("SELFTEST C19: scenario list differs between two generations");
        bad += 1;
    }
    let slice: Vec<Scenario> = a.into_iter().take(50 * 12).collect();
    let r1 = run_batch(&slice, 50, 16);
    let r2 = run_batch(&slice, 17, 3);
    let (f1, f2) = (fingerprint(&r1), fingerprint(&r2));
    let diff = f1.iter().filter(|(k, v)| f2.get(k) != Some(v)).count() + f2.len().abs_diff(f1.len());
    println!("SELFTEST C19: {} scenarios, run with 16 workers/chunk 50 and 3 workers/chunk 17: {} differences, harness errors {}/{}", f1.len(), diff, r1.harness_errors.len(), r2.harness_errors.len());
    if diff > 0 || f1.len() != slice.len() || !r1.harness_errors.is_empty() || !r2.harness_errors.is_empty() {
        bad += 1;
        for (k, v) in f1.iter().filter(|(k, v)| f2.get(k) != Some(v)).take(5) {
            println!("  scenario {k}: {:?} vs {:?}", v, f2.get(k));
        }
    }
    // C20: all length-1 and a stride of length-2 sequences plus random length-4 ones
    let alphabet = c20_alphabet();
    let mut list = Vec::new();
    let mut id = 0;
    for x in &alphabet {
        list.push(Scenario { id, body: Body::C20(C20Scenario { steps: vec![x.clone()] }) });
        id += 1;
    }
    for (i, x) in alphabet.iter().enumerate() {
        for (j, y) in alphabet.iter().enumerate() {
            if (i * 7 + j) % 5 == 0 {
                list.push(Scenario { id, body: Body::C20(C20Scenario { steps: vec![x.clone(), y.clone()] }) });
                id += 1;
            }
        }
    }
    for i in 0..300 {
        let mut ch = vcommon::Chooser::generate(vcommon::run_seed(seed, "c20-len4", i));
        let steps = (0..4).map(|_| c20_random_step(&mut ch)).collect();
        list.push(Scenario { id, body: Body::C20(C20Scenario { steps }) });
        id += 1;
    }
    let r1 = run_batch(&list, 96, 16);
    let r2 = run_batch(&list, 11, 4);
    let (f1, f2) = (fingerprint(&r1), fingerprint(&r2));
    let diff = f1.iter().filter(|(k, v)| f2.get(k) != Some(v)).count() + f2.len().abs_diff(f1.len());
    println!("SELFTEST C20: {} scenarios, run with 16 workers/chunk 96 and 4 workers/chunk 11: {} differences, harness errors {}/{}", f1.len(), diff, r1.harness_errors.len(), r2.harness_errors.len());
    if diff > 0 || f1.len() != list.len() || !r1.harness_errors.is_empty() || !r2.harness_errors.is_empty() {
        bad += 1;
        for (k, v) in f1.iter().filter(|(k, v)| f2.get(k) != Some(v)).take(5) {
            println!("  scenario {k}: {:?} vs {:?}", v, f2.get(k));
        }
        for e in r1.harness_errors.iter().chain(r2.harness_errors.iter()).take(5) {
            println!("  harness error: {e}");
        }
    }
    if bad == 0 {
        println!("SELFTEST ok");
        0
    } else {
        println!("SELFTEST FAILED");
        1
    }
}
