//! A strict parser for the OpenMetrics 1.0 text exposition (the format the
//! exporter announces by ending its body with `# EOF`), written for the
//! harness from the specification, plus a strict HTTP/1.1 response parser.
//! Every deviation is reported (the parser keeps going to collect them all).
use std::collections::BTreeSet;

#[derive(Debug, Clone, PartialEq)]
pub struct Sample {
    pub name: String,
    pub labels: Vec<(String, String)>,
    pub value: f64,
    pub value_text: String,
    pub line: usize,
}

#[derive(Debug, Clone, Default, PartialEq)]
pub struct Family {
    pub name: String,
    pub help: Option<String>,
    pub typ: Option<String>,
    pub unit: Option<String>,
    pub samples: Vec<Sample>,
}

#[derive(Debug, Clone, PartialEq)]
pub struct SyntaxError {
    pub line: usize,
    /// stable kind, used in violation keys
    pub kind: &'static str,
    pub detail: String,
}

#[derive(Debug, Clone, Default)]
pub struct Exposition {
    pub families: Vec<Family>,
    pub errors: Vec<SyntaxError>,
}

fn is_name_start(c: char, colon: bool) -> bool {
    c.is_ascii_alphabetic() || c == '_' || (colon && c == ':')
}
fn is_name_char(c: char, colon: bool) -> bool {
    c.is_ascii_alphanumeric() || c == '_' || (colon && c == ':')
}
pub fn valid_metric_name(s: &str) -> bool {
    let mut it = s.chars();
    matches!(it.next(), Some(c) if is_name_start(c, true)) && it.all(|c| is_name_char(c, true))
}
pub fn valid_label_name(s: &str) -> bool {
    let mut it = s.chars();
    matches!(it.next(), Some(c) if is_name_start(c, false)) && it.all(|c| is_name_char(c, false))
}

/// OpenMetrics number: realnumber | [sign] inf | [sign] infinity | nan (case-insensitive words)
pub fn parse_number(s: &str) -> Option<f64> {
    if s.is_empty() {
        return None;
    }
    let lower = s.to_ascii_lowercase();
    let (sign, rest) = match lower.as_bytes()[0] {
        b'+' => (1.0, &lower[1..]),
        b'-' => (-1.0, &lower[1..]),
        _ => (1.0, &lower[..]),
    };
    match rest {
        "inf" | "infinity" => return Some(sign * f64::INFINITY),
        "nan" if rest.len() == lower.len() => return Some(f64::NAN),
        _ => {}
    }
    // realnumber: digits [. [digits]] [e [sign] digits]  |  . digits [e ...]
    let b = rest.as_bytes();
    let mut i = 0;
    let mut int_digits = 0;
    while i < b.len() && b[i].is_ascii_digit() {
        i += 1;
        int_digits += 1;
    }
    let mut frac_digits = 0;
    if i < b.len() && b[i] == b'.' {
        i += 1;
        while i < b.len() && b[i].is_ascii_digit() {
            i += 1;
            frac_digits += 1;
        }
    }
    if int_digits == 0 && frac_digits == 0 {
        return None;
    }
    if i < b.len() && b[i] == b'e' {
        i += 1;
        if i < b.len() && (b[i] == b'+' || b[i] == b'-') {
            i += 1;
        }
        let mut exp_digits = 0;
        while i < b.len() && b[i].is_ascii_digit() {
            i += 1;
            exp_digits += 1;
        }
        if exp_digits == 0 {
            return None;
        }
    }
    if i != b.len() {
        return None;
    }
    rest.parse::<f64>().ok().map(|v| sign * v)
}

/// Unescape HELP text / label values: only `\\`, `\"` and `\n` are escapes.
fn unescape(s: &str) -> Result<String, String> {
    let mut out = String::with_capacity(s.len());
    let mut it = s.chars();
    while let Some(c) = it.next() {
        if c == '\\' {
            match it.next() {
                Some('\\') => out.push('\\'),
                Some('"') => out.push('"'),
                Some('n') => out.push('\n'),
                Some(o) => return Err(format!("invalid escape \\{o}")),
                None => return Err("dangling backslash".into()),
            }
        } else {
            out.push(c);
        }
    }
    Ok(out)
}

const TYPES: [&str; 8] = ["unknown", "gauge", "counter", "stateset", "info", "histogram", "gaugehistogram", "summary"];

fn sample_belongs(sample: &str, fam: &Family) -> bool {
    let base = fam.name.as_str();
    let suffixes: &[&str] = match fam.typ.as_deref().unwrap_or("unknown") {
        "counter" => &["_total", "_created"],
        "summary" => &["", "_count", "_sum", "_created"],
        "histogram" => &["_bucket", "_count", "_sum", "_created"],
        "gaugehistogram" => &["_bucket", "_gcount", "_gsum"],
        "info" => &["_info"],
        _ => &[""],
    };
    suffixes.iter().any(|s| sample.len() == base.len() + s.len() && sample.starts_with(base) && sample.ends_with(s))
}

/// parse `{a="b",c="d"}` starting at the `{`; returns labels and the index after `}`
fn parse_labels(s: &str) -> Result<(Vec<(String, String)>, usize), (&'static str, String)> {
    let b = s.as_bytes();
    debug_assert_eq!(b[0], b'{');
    let mut i = 1;
    let mut labels: Vec<(String, String)> = Vec::new();
    if i < b.len() && b[i] == b'}' {
        return Ok((labels, i + 1));
    }
    loop {
        let start = i;
        while i < b.len() && b[i] != b'=' {
            i += 1;
        }
        if i >= b.len() {
            return Err(("label_syntax", "missing '=' in label set".into()));
        }
        let name = &s[start..i];
        if !valid_label_name(name) {
            return Err(("label_name", format!("invalid label name {name:?}")));
        }
        i += 1;
        if i >= b.len() || b[i] != b'"' {
            return Err(("label_syntax", format!("label {name} value is not quoted")));
        }
        i += 1;
        let vstart = i;
        loop {
            if i >= b.len() {
                return Err(("label_syntax", format!("unterminated value of label {name}")));
            }
            if b[i] == b'\\' {
                i += 2;
                continue;
            }
            if b[i] == b'"' {
                break;
            }
            i += 1;
        }
        let raw = &s[vstart..i.min(s.len())];
        let value = unescape(raw).map_err(|e| ("label_escape", format!("label {name}: {e}")))?;
        if labels.iter().any(|(n, _)| n == name) {
            return Err(("duplicate_label", format!("label {name} occurs twice")));
        }
        labels.push((name.to_string(), value));
        i += 1;
        if i < b.len() && b[i] == b',' {
            i += 1;
            continue;
        }
        if i < b.len() && b[i] == b'}' {
            return Ok((labels, i + 1));
        }
        return Err(("label_syntax", "expected ',' or '}' after label value".into()));
    }
}

pub fn parse(body: &[u8]) -> Exposition {
    let mut ex = Exposition::default();
    let err = |ex: &mut Exposition, line: usize, kind: &'static str, detail: String| {
        ex.errors.push(SyntaxError { line, kind, detail });
    };
    let text = match std::str::from_utf8(body) {
        Ok(t) => t,
        Err(e) => {
            err(&mut ex, 0, "not_utf8", e.to_string());
            return ex;
        }
    };
    if !text.ends_with("# EOF\n") {
        err(&mut ex, 0, "missing_eof", "body does not end with \"# EOF\\n\"".into());
    }
    let mut lines: Vec<&str> = text.split('\n').collect();
    if text.ends_with('\n') {
        lines.pop();
    } else {
        err(&mut ex, lines.len(), "missing_final_newline", "last line is not terminated".into());
    }
    let mut seen_families: BTreeSet<String> = BTreeSet::new();
    let mut seen_series: BTreeSet<String> = BTreeSet::new();
    let mut cur: Option<Family> = None;
    let mut eof_seen = false;
    let n_lines = lines.len();
    for (idx, line) in lines.into_iter().enumerate() {
        let ln = idx + 1;
        if eof_seen {
            err(&mut ex, ln, "content_after_eof", format!("{line:?}"));
            continue;
        }
        if line.is_empty() {
            err(&mut ex, ln, "empty_line", String::new());
            continue;
        }
        if line.contains('\r') {
            err(&mut ex, ln, "carriage_return", format!("{line:?}"));
        }
        if let Some(rest) = line.strip_prefix('#') {
            if rest == " EOF" {
                eof_seen = true;
                if ln != n_lines {
                    err(&mut ex, ln, "eof_not_last", String::new());
                }
                continue;
            }
            let mut parts = rest.strip_prefix(' ').unwrap_or("").splitn(3, ' ');
            let kw = parts.next().unwrap_or("");
            let name = parts.next().unwrap_or("");
            let arg = parts.next();
            if !matches!(kw, "HELP" | "TYPE" | "UNIT") {
                err(&mut ex, ln, "unknown_comment", format!("{line:?}"));
                continue;
            }
            if !valid_metric_name(name) {
                err(&mut ex, ln, "metric_name", format!("invalid metric family name {name:?}"));
                continue;
            }
            // a new family starts when the name changes
            if cur.as_ref().map(|f| f.name != name).unwrap_or(true) {
                if let Some(f) = cur.take() {
                    ex.families.push(f);
                }
                if !seen_families.insert(name.to_string()) {
                    err(&mut ex, ln, "family_repeated", format!("metric family {name} appears twice (interleaved)"));
                }
                cur = Some(Family { name: name.to_string(), ..Default::default() });
            }
            let f = cur.as_mut().unwrap();
            if !f.samples.is_empty() {
                err(&mut ex, ln, "metadata_after_samples", format!("# {kw} {name} after samples of the family"));
            }
            match kw {
                "HELP" => {
                    if f.help.is_some() {
                        err(&mut ex, ln, "duplicate_metadata", format!("second HELP for {name}"));
                    }
                    match unescape(arg.unwrap_or("")) {
                        Ok(h) => f.help = Some(h),
                        Err(e) => {
                            f.help = Some(arg.unwrap_or("").to_string());
                            err(&mut ex, ln, "help_escape", format!("{name}: {e}"));
                        }
                    }
                }
                "TYPE" => {
                    if f.typ.is_some() {
                        err(&mut ex, ln, "duplicate_metadata", format!("second TYPE for {name}"));
                    }
                    let t = arg.unwrap_or("");
                    if !TYPES.contains(&t) {
                        err(&mut ex, ln, "unknown_type", format!("{name}: type {t:?}"));
                    }
                    f.typ = Some(t.to_string());
                }
                _ => {
                    if f.unit.is_some() {
                        err(&mut ex, ln, "duplicate_metadata", format!("second UNIT for {name}"));
                    }
                    let u = arg.unwrap_or("");
                    if u.is_empty() || !u.chars().all(|c| is_name_char(c, true)) {
                        err(&mut ex, ln, "unit_syntax", format!("{name}: unit {u:?}"));
                    } else if !name.ends_with(&format!("_{u}")) {
                        err(&mut ex, ln, "unit_suffix", format!("family {name} does not end in _{u}"));
                    }
                    f.unit = Some(u.to_string());
                }
            }
            continue;
        }
        // sample line
        let name_end = line.find(|c: char| c == '{' || c == ' ').unwrap_or(line.len());
        let name = &line[..name_end];
        if !valid_metric_name(name) {
            err(&mut ex, ln, "metric_name", format!("invalid sample name in {line:?}"));
            continue;
        }
        let mut rest = &line[name_end..];
        let mut labels = Vec::new();
        if rest.starts_with('{') {
            match parse_labels(rest) {
                Ok((l, used)) => {
                    labels = l;
                    rest = &rest[used..];
                }
                Err((kind, d)) => {
                    err(&mut ex, ln, kind, format!("{d} in {line:?}"));
                    continue;
                }
            }
        }
        let Some(rest) = rest.strip_prefix(' ') else {
            err(&mut ex, ln, "sample_syntax", format!("no space before the value in {line:?}"));
            continue;
        };
        let mut toks = rest.split(' ');
        let vtext = toks.next().unwrap_or("");
        let value = match parse_number(vtext) {
            Some(v) => v,
            None => {
                err(&mut ex, ln, "value_not_a_number", format!("{vtext:?} in {line:?}"));
                continue;
            }
        };
        if let Some(ts) = toks.next() {
            if ts == "#" {
                err(&mut ex, ln, "exemplar_not_allowed", format!("{line:?}"));
            } else if parse_number(ts).map(|t| !t.is_finite()).unwrap_or(true) {
                err(&mut ex, ln, "timestamp_syntax", format!("{ts:?} in {line:?}"));
            }
            if toks.next().is_some() {
                err(&mut ex, ln, "sample_syntax", format!("trailing tokens in {line:?}"));
            }
        }
        // which family?
        let belongs = cur.as_ref().map(|f| sample_belongs(name, f)).unwrap_or(false);
        if !belongs {
            if let Some(f) = cur.take() {
                ex.families.push(f);
            }
            if !seen_families.insert(name.to_string()) {
                err(&mut ex, ln, "family_repeated", format!("samples of {name} are not contiguous"));
            }
            // a sample without preceding metadata: family of type unknown named like the sample
            cur = Some(Family { name: name.to_string(), ..Default::default() });
        }
        let mut sorted = labels.clone();
        sorted.sort();
        let series_key = format!("{name}{sorted:?}");
        if !seen_series.insert(series_key) {
            err(&mut ex, ln, "duplicate_series", format!("family={} series {name}{labels:?} occurs twice", cur.as_ref().unwrap().name));
        }
        cur.as_mut().unwrap().samples.push(Sample { name: name.to_string(), labels, value, value_text: vtext.to_string(), line: ln });
    }
    if let Some(f) = cur.take() {
        ex.families.push(f);
    }
    if !eof_seen && !ex.errors.iter().any(|e| e.kind == "missing_eof") {
        err(&mut ex, n_lines, "missing_eof", "no # EOF line".into());
    }
    ex
}

// ---------------------------------------------------------------- HTTP

#[derive(Debug, Clone, PartialEq)]
pub struct HttpResponse {
    pub status: u16,
    pub reason: String,
    pub headers: Vec<(String, String)>,
    pub body: Vec<u8>,
    /// offset of the body in the raw bytes
    pub body_offset: usize,
}

#[derive(Debug, Clone, PartialEq)]
pub enum HttpParse {
    /// head and the announced number of body bytes are there (and nothing else)
    Complete(HttpResponse),
    /// more bytes are needed
    Incomplete(&'static str),
    Malformed(&'static str, String),
}

impl HttpResponse {
    pub fn header(&self, name: &str) -> Option<&str> {
        self.headers.iter().find(|(n, _)| n.eq_ignore_ascii_case(name)).map(|(_, v)| v.as_str())
    }
}

pub fn parse_http(raw: &[u8]) -> HttpParse {
    let Some(head_end) = raw.windows(4).position(|w| w == b"\r\n\r\n") else {
        return HttpParse::Incomplete("no header terminator");
    };
    let head = match std::str::from_utf8(&raw[..head_end]) {
        Ok(h) => h,
        Err(_) => return HttpParse::Malformed("head_not_ascii", String::new()),
    };
    let mut lines = head.split("\r\n");
    let status_line = lines.next().unwrap_or("");
    let mut sp = status_line.splitn(3, ' ');
    let version = sp.next().unwrap_or("");
    let code = sp.next().unwrap_or("");
    let reason = sp.next().unwrap_or("");
    if version != "HTTP/1.1" && version != "HTTP/1.0" {
        return HttpParse::Malformed("status_line", format!("{status_line:?}"));
    }
    let status = match code.parse::<u16>() {
        Ok(c) if code.len() == 3 && (100..=599).contains(&c) => c,
        _ => return HttpParse::Malformed("status_line", format!("{status_line:?}")),
    };
    let mut headers = Vec::new();
    for l in lines {
        if l.contains('\n') || l.contains('\r') {
            return HttpParse::Malformed("header_line_ending", format!("{l:?}"));
        }
        let Some((n, v)) = l.split_once(':') else {
            return HttpParse::Malformed("header_syntax", format!("{l:?}"));
        };
        let token = !n.is_empty() && n.bytes().all(|b| b.is_ascii_alphanumeric() || b"!#$%&'*+-.^_`|~".contains(&b));
        if !token {
            return HttpParse::Malformed("header_name", format!("{l:?}"));
        }
        if headers.iter().any(|(hn, _): &(String, String)| hn.eq_ignore_ascii_case(n)) && n.eq_ignore_ascii_case("content-length") {
            return HttpParse::Malformed("duplicate_content_length", format!("{l:?}"));
        }
        headers.push((n.to_string(), v.trim_matches(|c| c == ' ' || c == '\t').to_string()));
    }
    let body_offset = head_end + 4;
    let cl = headers.iter().find(|(n, _)| n.eq_ignore_ascii_case("content-length")).map(|(_, v)| v.clone());
    let Some(cl) = cl else {
        return HttpParse::Malformed("no_content_length", String::new());
    };
    let Ok(n) = cl.parse::<usize>() else {
        return HttpParse::Malformed("content_length_syntax", cl);
    };
    if !cl.bytes().all(|b| b.is_ascii_digit()) {
        return HttpParse::Malformed("content_length_syntax", cl);
    }
    let have = raw.len() - body_offset;
    if have < n {
        return HttpParse::Incomplete("body shorter than content-length");
    }
    if have > n {
        return HttpParse::Malformed("content_length_mismatch", format!("content-length {n} but {have} body bytes were sent"));
    }
    HttpParse::Complete(HttpResponse { status, reason: reason.to_string(), headers, body: raw[body_offset..].to_vec(), body_offset })
}

#[cfg(test)]
mod tests {
    use super::*;

    #[test]
    fn numbers() {
        assert_eq!(parse_number("1"), Some(1.0));
        assert_eq!(parse_number("-1.5e3"), Some(-1500.0));
        assert_eq!(parse_number(".5"), Some(0.5));
        assert_eq!(parse_number("5."), Some(5.0));
        assert!(parse_number("NaN").unwrap().is_nan());
        assert_eq!(parse_number("+Inf"), Some(f64::INFINITY));
        assert_eq!(parse_number("-inf"), Some(f64::NEG_INFINITY));
        assert_eq!(parse_number("0x10"), None);
        assert_eq!(parse_number(""), None);
        assert_eq!(parse_number("1e"), None);
        assert_eq!(parse_number("1 "), None);
        assert_eq!(parse_number("-nan"), None);
        assert_eq!(parse_number("1_0"), None);
    }

    #[test]
    fn good_exposition() {
        let t = b"# HELP a_seconds help \\\\ text.\n# TYPE a_seconds gauge\n# UNIT a_seconds seconds\na_seconds{x=\"1\",y=\"q\\\"\\n\"} 1.5\na_seconds{x=\"2\",y=\"\"} -3\n# TYPE c counter\nc_total 3 1234.5\n# EOF\n";
        let e = parse(t);
        assert!(e.errors.is_empty(), "{:?}", e.errors);
        assert_eq!(e.families.len(), 2);
        assert_eq!(e.families[0].samples[0].labels[1].1, "q\"\n");
        assert_eq!(e.families[0].help.as_deref(), Some("help \\ text."));
    }

    fn kinds(t: &[u8]) -> Vec<&'static str> {
        parse(t).errors.iter().map(|e| e.kind).collect()
    }

    #[test]
    fn bad_expositions() {
        assert_eq!(kinds(b"a 1\n"), vec!["missing_eof"]);
        assert_eq!(kinds(b"a 1\na 2\n# EOF\n"), vec!["duplicate_series"]);
        assert_eq!(kinds(b"a{x=\"1\"} 1\na{x=\"1\"} 2\n# EOF\n"), vec!["duplicate_series"]);
        assert_eq!(kinds(b"# TYPE a gauge\n# UNIT a seconds\na 1\n# EOF\n"), vec!["unit_suffix"]);
        assert_eq!(kinds(b"# TYPE a gauge\na 1\n# TYPE b gauge\nb 1\na{x=\"y\"} 2\n# EOF\n"), vec!["family_repeated"]);
        assert_eq!(kinds(b"# TYPE a gauge\na 1\n# HELP a x\n# EOF\n"), vec!["metadata_after_samples"]);
        assert_eq!(kinds(b"a one\n# EOF\n"), vec!["value_not_a_number"]);
        assert_eq!(kinds(b"a{x=\"\\q\"} 1\n# EOF\n"), vec!["label_escape"]);
        assert_eq!(kinds(b"a{x=\"1\",x=\"2\"} 1\n# EOF\n"), vec!["duplicate_label"]);
        assert_eq!(kinds(b"a{1x=\"1\"} 1\n# EOF\n"), vec!["label_name"]);
        assert_eq!(kinds(b"a{x=\"1\",} 1\n# EOF\n"), vec!["label_syntax"]);
        assert_eq!(kinds(b"a 1\n\n# EOF\n"), vec!["empty_line"]);
        assert_eq!(kinds(b"# hello\na 1\n# EOF\n"), vec!["unknown_comment"]);
        assert_eq!(kinds(b"a 1\n# EOF\nb 2\n"), vec!["missing_eof", "eof_not_last", "content_after_eof"]);
        assert_eq!(kinds(b"# TYPE a wibble\na 1\n# EOF\n"), vec!["unknown_type"]);
        assert_eq!(kinds(b"# TYPE a counter\na 1\n# EOF\n"), vec!["family_repeated"]);
        assert_eq!(kinds(b"a  1\n# EOF\n"), vec!["value_not_a_number"]);
    }

    #[test]
    fn http() {
        let ok = b"HTTP/1.1 200 OK\r\ncontent-type: text/plain\r\ncontent-length: 3\r\n\r\nabc";
        match parse_http(ok) {
            HttpParse::Complete(r) => {
                assert_eq!(r.status, 200);
                assert_eq!(r.body, b"abc");
                assert_eq!(r.header("Content-Type"), Some("text/plain"));
            }
            o => panic!("{o:?}"),
        }
        assert!(matches!(parse_http(&ok[..ok.len() - 1]), HttpParse::Incomplete(_)));
        assert!(matches!(parse_http(b"HTTP/1.1 200 OK\r\ncontent-length: 2\r\n\r\nabc"), HttpParse::Malformed("content_length_mismatch", _)));
        assert!(matches!(parse_http(b"HTTP/1.1 200 OK\r\n\r\n"), HttpParse::Malformed("no_content_length", _)));
        assert!(matches!(parse_http(b"HTTP/1.1 OK\r\ncontent-length: 0\r\n\r\n"), HttpParse::Malformed("status_line", _)));
        assert!(matches!(parse_http(b"HTTP/1.1 200 OK\r\ncontent-length: 0"), HttpParse::Incomplete(_)));
    }
}
