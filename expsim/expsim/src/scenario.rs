//! Scenario scripts: what the parent sends to a worker and what a replay file
//! contains. Everything a worker does is determined by the script (values
//! drawn from the tape by the parent are written into it), every selector is
//! reduced modulo the available range, so any script shortened by deletion is
//! still a valid script.
use serde::{Deserialize, Serialize};
use vcommon::tape::{S_CFG, S_FAULT, S_NET, S_WORK};
use vcommon::{Chooser, Tier};

pub const REQUEST: &[u8] = b"GET /metrics HTTP/1.1\r\n\r\n";
pub const REQUEST_LONG: &[u8] =
    b"GET /metrics HTTP/1.1\r\nHost: 127.0.0.1:9975\r\nUser-Agent: Prometheus/2.51.0\r\nAccept: application/openmetrics-text;version=1.0.0,text/plain;version=0.0.4;q=0.5\r\nAccept-Encoding: gzip\r\nX-Prometheus-Scrape-Timeout-Seconds: 10\r\n\r\n";

#[derive(Clone, Debug, Serialize, Deserialize, PartialEq)]
pub struct Scenario {
    pub id: u64,
    pub body: Body,
}

#[derive(Clone, Debug, Serialize, Deserialize, PartialEq)]
#[serde(tag = "property")]
pub enum Body {
    C19(C19Scenario),
    C20(C20Scenario),
}

// ---------------------------------------------------------------- C19

#[derive(Clone, Debug, Serialize, Deserialize, PartialEq)]
pub struct WorldRecipe {
    /// gm | pair | pair_p2p | chain3 | bc3 | dual
    pub topo: String,
    pub seed: u64,
    /// simulated seconds
    pub seconds: u32,
}

#[derive(Clone, Debug, Serialize, Deserialize, PartialEq)]
#[serde(rename_all = "snake_case")]
pub enum Edit {
    /// currentDS.offsetFromMaster, raw fixed-point bits (2^-32 ns), decimal string
    OffsetBits(String),
    /// currentDS.meanDelay, raw fixed-point bits (2^-32 ns), decimal string
    MeanDelayBits(String),
    StepsRemoved(u16),
    /// (port selector, IEEE 1588 port state number 1..=9)
    PortState(u32, u8),
    /// (port selector, mechanism 0=E2E 1=P2P 2=NoMechanism 3=CommonP2P 4=Special, log interval, meanLinkDelay bits 2^-16 ns)
    PortMechanism(u32, u8, i8, i64),
    TimeProps { utc: Option<i16>, leap: u8, time_traceable: bool, frequency_traceable: bool, ptp_timescale: bool, source: u8 },
    /// path trace data set: enable flag and a list of `len` distinct identities derived from `seed`
    PathTrace { enable: bool, len: u16, seed: u64 },
    /// append a copy of entry (sel mod len) to the path trace list (what a peer's
    /// PATH_TRACE TLV with a repeated identity leaves behind); no-op on an empty list
    PathTraceRepeat(u32),
    Quality { class: u8, accuracy: u8, variance: u16 },
    GmQuality { class: u8, accuracy: u8, variance: u16 },
    Priorities { p1: u8, p2: u8, gm_p1: u8, gm_p2: u8 },
}

#[derive(Clone, Debug, Default, Serialize, Deserialize, PartialEq)]
pub struct Transport {
    /// sizes of the client's writes (the rest goes into a last write); empty = one write
    #[serde(default)]
    pub request_chunks: Vec<u32>,
    /// use the long (realistic Prometheus) request instead of the minimal one
    #[serde(default)]
    pub long_request: bool,
    /// largest server-side TCP write accepted at once (partial writes); None = unlimited
    #[serde(default)]
    pub server_write_max: Option<u32>,
}

#[derive(Clone, Debug, Serialize, Deserialize, PartialEq)]
pub struct C19Scenario {
    pub world: WorldRecipe,
    /// selects one of the distinct snapshots of the world (modulo their number)
    pub snapshot: u32,
    #[serde(default)]
    pub edits: Vec<Edit>,
    #[serde(default)]
    pub transport: Transport,
    /// earlier connections served by the same exporter before the checked scrape (C20 client /
    /// observation-socket behaviours: aborted, reset, failed scrapes), run while the instance was
    /// in the state of snapshot `prelude_snapshot`
    #[serde(default)]
    pub prelude: Vec<Step>,
    #[serde(default)]
    pub prelude_snapshot: u32,
}

pub const TOPOS: [&str; 6] = ["gm", "pair", "pair_p2p", "chain3", "bc3", "dual"];

/// fixed-point bit patterns (2^-32 ns) worth visiting
fn interesting_bits(ch: &mut Chooser) -> i128 {
    const NS: i128 = 1 << 32;
    const S: i128 = 1_000_000_000 * NS;
    let table: [i128; 18] = [
        0,
        1,
        NS,
        999 * NS,
        1_000_000 * NS,
        S,
        (1i128 << 63) - 1,
        1i128 << 63,
        (1i128 << 63) + 1,
        (1i128 << 64) - 1,
        1i128 << 64,
        (1i128 << 64) + 12345,
        5 * S,
        10 * S - 1,
        10 * S,
        123_456_789 * NS + 0x8000_0000,
        2 * S + 500_000_000 * NS,
        37 * NS + 1,
    ];
    let k = ch.choose(S_WORK, table.len() as u64 + 6) as usize;
    let mag = if k < table.len() {
        table[k]
    } else {
        // uniform in 0..=10 s
        let hi = ch.choose(S_WORK, 10_000_000_001) as i128;
        let lo = ch.choose(S_WORK, 1 << 32) as i128;
        (hi * NS + lo).min(10 * S)
    };
    if ch.boolean(S_WORK) {
        -mag
    } else {
        mag
    }
}

pub const TIME_SOURCES: [u8; 14] = [0x10, 0x20, 0x30, 0x39, 0x40, 0x50, 0x60, 0x90, 0xa0, 0xf0, 0xfe, 0xff, 0x00, 0x77];
pub const N_TIMEPROP_COMBOS: u64 = 2 * 3 * 2 * 2 * 2 * TIME_SOURCES.len() as u64;
pub const N_PORT_COMBOS: u64 = 9 * 5;

pub fn timeprops_combo(i: u64, ch: &mut Chooser) -> Edit {
    let mut i = i % N_TIMEPROP_COMBOS;
    let utc_some = i % 2 == 1;
    i /= 2;
    let leap = (i % 3) as u8;
    i /= 3;
    let tt = i % 2 == 1;
    i /= 2;
    let ft = i % 2 == 1;
    i /= 2;
    let ptp = i % 2 == 1;
    i /= 2;
    let source = TIME_SOURCES[i as usize % TIME_SOURCES.len()];
    let utc = if utc_some { Some(*ch.pick(S_WORK, &[37i16, 0, -1, i16::MAX, i16::MIN, 36])) } else { None };
    Edit::TimeProps { utc, leap, time_traceable: tt, frequency_traceable: ft, ptp_timescale: ptp, source }
}

pub fn port_combo(i: u64, ch: &mut Chooser) -> Vec<Edit> {
    let i = i % N_PORT_COMBOS;
    let state = (i % 9) as u8 + 1;
    let mech = (i / 9) as u8;
    let sel = ch.choose(S_WORK, 4) as u32;
    let log = ch.irange(S_WORK, -4, 4) as i8;
    // mean link delay, 2^-16 ns units: 0 .. 10 s, sometimes negative
    let mld = match ch.choose(S_WORK, 6) {
        0 => 0,
        1 => 1,
        2 => 65536 * 1234 + 0x8000,
        3 => 65536i64 * 10_000_000_000,
        4 => -(65536 * 250),
        _ => ch.choose(S_WORK, 65536u64 * 1_000_000_000) as i64,
    };
    vec![Edit::PortState(sel, state), Edit::PortMechanism(sel, mech, log, mld)]
}

fn gen_transport(ch: &mut Chooser) -> Transport {
    let mut t = Transport::default();
    t.long_request = ch.chance(S_NET, 1, 4);
    let len = if t.long_request { REQUEST_LONG.len() } else { REQUEST.len() } as u64;
    match ch.choose(S_NET, 4) {
        0 => {}
        1 => t.request_chunks = vec![ch.range(S_NET, 1, len - 1) as u32],
        2 => {
            let n = ch.range(S_NET, 2, 5);
            for _ in 0..n {
                t.request_chunks.push(ch.range(S_NET, 1, (len / 2).max(1)) as u32);
            }
        }
        _ => t.request_chunks = vec![(len - 2) as u32, 1],
    }
    t.server_write_max = match ch.choose(S_NET, 4) {
        0 | 1 => None,
        2 => Some(ch.range(S_NET, 1, 4096) as u32),
        _ => Some(*ch.pick(S_NET, &[1u32, 7, 512, 1460, 4096, 16384])),
    };
    t
}

/// The C19 scenario list of one batch: `worlds` simulated networks, `per_world`
/// snapshots/edits/transports each. Purely a function of (base_seed, tier).
pub fn c19_scenarios(base_seed: u64, tier: Tier) -> Vec<Scenario> {
    let scale: f64 = std::env::var("VERIF_BUDGET_SCALE").ok().and_then(|s| s.parse().ok()).unwrap_or(1.0);
    let (worlds, per_world) = match tier {
        Tier::Quick => (480u64, 50u64),
        Tier::Thorough => (6000u64, 80u64),
    };
    let worlds = ((worlds as f64 * scale).ceil() as u64).max(1);
    let mut out = Vec::new();
    let mut id = 0u64;
    for w in 0..worlds {
        let mut ch = Chooser::generate(vcommon::run_seed(base_seed, "c19", w));
        // every topology gets its turn; the rest of the recipe is tape-decided
        let topo = TOPOS[(w % TOPOS.len() as u64) as usize];
        let recipe = WorldRecipe { topo: topo.to_string(), seed: ch.bits(S_CFG), seconds: ch.range(S_CFG, 8, 30) as u32 };
        for j in 0..per_world {
            let mut edits = Vec::new();
            match j % 4 {
                0 => {}
                1 => edits.push(timeprops_combo(id / 4, &mut ch)),
                2 => edits.extend(port_combo(id / 4, &mut ch)),
                _ => {
                    let n = ch.range(S_WORK, 1, 3);
                    for _ in 0..n {
                        edits.push(match ch.choose(S_WORK, 8) {
                            0 | 1 => Edit::OffsetBits(interesting_bits(&mut ch).to_string()),
                            2 => Edit::MeanDelayBits(interesting_bits(&mut ch).to_string()),
                            3 => Edit::StepsRemoved(*ch.pick(S_WORK, &[0u16, 1, 2, 255, 256, 65535])),
                            4 => Edit::PathTrace {
                                enable: ch.chance(S_WORK, 3, 4),
                                len: *ch.pick(S_WORK, &[0u16, 1, 2, 3, 17, 64, 127, 128]),
                                seed: ch.bits(S_WORK),
                            },
                            5 => Edit::PathTrace { enable: ch.boolean(S_WORK), len: ch.range(S_WORK, 0, 128) as u16, seed: ch.bits(S_WORK) },
                            6 => {
                                if ch.boolean(S_WORK) {
                                    Edit::Quality { class: ch.choose(S_WORK, 256) as u8, accuracy: ch.choose(S_WORK, 256) as u8, variance: ch.choose(S_WORK, 65536) as u16 }
                                } else {
                                    Edit::GmQuality { class: ch.choose(S_WORK, 256) as u8, accuracy: ch.choose(S_WORK, 256) as u8, variance: ch.choose(S_WORK, 65536) as u16 }
                                }
                            }
                            _ => Edit::Priorities {
                                p1: ch.choose(S_WORK, 256) as u8,
                                p2: ch.choose(S_WORK, 256) as u8,
                                gm_p1: ch.choose(S_WORK, 256) as u8,
                                gm_p2: ch.choose(S_WORK, 256) as u8,
                            },
                        });
                    }
                    // rarely: what a PATH_TRACE TLV with a repeated identity leaves in the data set
                    if ch.chance(S_FAULT, 1, 40) {
                        edits.push(Edit::PathTrace { enable: true, len: ch.range(S_FAULT, 1, 5) as u16, seed: ch.bits(S_FAULT) });
                        edits.push(Edit::PathTraceRepeat(ch.choose(S_FAULT, 8) as u32));
                    }
                }
            }
            let snapshot = ch.choose(S_CFG, 1 << 32) as u32;
            let transport = gen_transport(&mut ch);
            // a quarter of the scrapes follow one or two earlier connections that went wrong in some
            // way while the instance was in another state (what they leave behind must not show)
            let mut prelude = Vec::new();
            let mut prelude_snapshot = 0u32;
            if ch.chance(S_FAULT, 1, 4) {
                prelude_snapshot = ch.choose(S_FAULT, 1 << 32) as u32;
                for _ in 0..ch.range(S_FAULT, 1, 2) {
                    prelude.push(c20_random_step(&mut ch));
                }
            }
            out.push(Scenario { id, body: Body::C19(C19Scenario { world: recipe.clone(), snapshot, edits, transport, prelude, prelude_snapshot }) });
            id += 1;
        }
    }
    out
}

// ---------------------------------------------------------------- C20

#[derive(Clone, Debug, Serialize, Deserialize, PartialEq, Eq, PartialOrd, Ord)]
#[serde(rename_all = "snake_case")]
pub enum ClientB {
    /// well-formed GET in one write; reads the response; closes
    Get,
    /// connect, send the first `n` bytes of a GET (never the header terminator), close
    CloseAfter(u32),
    /// `n` >= 2048 bytes of request line/headers with no terminator, then close
    Oversized(u32),
    /// well-formed request with another verb; waits for the server's reaction; closes
    NonGet(String),
    /// well-formed GET split into writes of the given sizes (executor runs in between)
    Split(Vec<u32>),
    /// RST right after connecting
    ResetAtOnce,
    /// first `n` bytes of a GET, the server reads them, then RST
    ResetAfterPartial(u32),
    /// full GET; the RST arrives right after the server has read it (its response write hits EPIPE)
    ResetAfterRequest,
    /// full GET, then an orderly close before the response is written; never reads
    GoneBeforeResponse,
}

#[derive(Clone, Debug, Serialize, Deserialize, PartialEq, Eq, PartialOrd, Ord)]
#[serde(rename_all = "snake_case")]
pub enum ObsB {
    /// the real observer serves the real JSON
    Valid,
    /// only the first permille/1000 of the instance part of the JSON arrives, then EOF
    Truncated(u16),
    /// one byte (at permille/1000 of the instance part) is xor-ed
    Corrupt(u16, u8),
    /// connect() fails: nobody listens
    Refused,
    /// the connection is accepted but closed without a byte
    CloseEarly,
}

#[derive(Clone, Debug, Serialize, Deserialize, PartialEq, Eq, PartialOrd, Ord)]
pub struct Step {
    pub client: ClientB,
    pub obs: ObsB,
}

#[derive(Clone, Debug, Serialize, Deserialize, PartialEq)]
pub struct C20Scenario {
    /// executed in order; a final well-formed GET with a healthy observation socket follows implicitly
    pub steps: Vec<Step>,
}

impl ClientB {
    /// behaviour class used in oracle ids
    pub fn class(&self) -> &'static str {
        match self {
            ClientB::Get => "get",
            ClientB::CloseAfter(_) => "early_close",
            ClientB::Oversized(_) => "oversized_request",
            ClientB::NonGet(_) => "non_get_request",
            ClientB::Split(_) => "split_request",
            ClientB::ResetAtOnce | ClientB::ResetAfterPartial(_) | ClientB::ResetAfterRequest => "connection_error",
            ClientB::GoneBeforeResponse => "client_gone",
        }
    }
    pub fn name(&self) -> String {
        match self {
            ClientB::Get => "get".into(),
            ClientB::CloseAfter(n) => format!("close_after({n})"),
            ClientB::Oversized(n) => format!("oversized({n})"),
            ClientB::NonGet(v) => format!("non_get({v})"),
            ClientB::Split(p) => format!("split({})", p.iter().map(|x| x.to_string()).collect::<Vec<_>>().join("+")),
            ClientB::ResetAtOnce => "reset_at_once".into(),
            ClientB::ResetAfterPartial(n) => format!("reset_after_partial({n})"),
            ClientB::ResetAfterRequest => "reset_after_request".into(),
            ClientB::GoneBeforeResponse => "gone_before_response".into(),
        }
    }
    pub fn hostile(&self) -> bool {
        !matches!(self, ClientB::Get)
    }
}

impl ObsB {
    pub fn name(&self) -> String {
        match self {
            ObsB::Valid => "valid".into(),
            ObsB::Truncated(p) => format!("truncated({p})"),
            ObsB::Corrupt(p, x) => format!("corrupt({p},{x})"),
            ObsB::Refused => "refused".into(),
            ObsB::CloseEarly => "close_early".into(),
        }
    }
    pub fn class(&self) -> &'static str {
        match self {
            ObsB::Valid => "valid",
            ObsB::Truncated(_) => "truncated",
            ObsB::Corrupt(..) => "corrupt",
            ObsB::Refused => "refused",
            ObsB::CloseEarly => "close_early",
        }
    }
}

/// The enumerated alphabet: representative parameter values of every client
/// behaviour x every observation-socket behaviour.
pub fn c20_alphabet() -> Vec<Step> {
    let rl = REQUEST.len() as u32;
    let clients = vec![
        ClientB::Get,
        ClientB::CloseAfter(0),
        ClientB::CloseAfter(5),
        ClientB::CloseAfter(rl - 1),
        ClientB::Oversized(2048),
        ClientB::Oversized(4096),
        ClientB::NonGet("POST".into()),
        ClientB::Split(vec![rl - 2]),
        ClientB::Split(vec![1; (rl - 1) as usize]),
        ClientB::ResetAtOnce,
        ClientB::ResetAfterPartial(10),
        ClientB::ResetAfterRequest,
        ClientB::GoneBeforeResponse,
    ];
    let obs = vec![ObsB::Valid, ObsB::Truncated(500), ObsB::Corrupt(500, 0x20), ObsB::Refused, ObsB::CloseEarly];
    let mut v = Vec::new();
    for c in &clients {
        for o in &obs {
            v.push(Step { client: c.clone(), obs: o.clone() });
        }
    }
    v
}

/// A step with tape-drawn parameters (used for the sampled length-4 sequences).
pub fn c20_random_step(ch: &mut Chooser) -> Step {
    let rl = REQUEST.len() as u64;
    let client = match ch.choose(S_WORK, 9) {
        0 => ClientB::Get,
        1 => ClientB::CloseAfter(ch.range(S_WORK, 0, rl - 1) as u32),
        2 => ClientB::Oversized(ch.range(S_WORK, 2048, 9000) as u32),
        3 => ClientB::NonGet(ch.pick(S_WORK, &["POST", "HEAD", "PUT", "OPTIONS", "get", "GETX"]).to_string()),
        4 => {
            let n = ch.range(S_WORK, 1, 6);
            ClientB::Split((0..n).map(|_| ch.range(S_WORK, 1, rl / 2) as u32).collect())
        }
        5 => ClientB::ResetAtOnce,
        6 => ClientB::ResetAfterPartial(ch.range(S_WORK, 1, rl - 1) as u32),
        7 => ClientB::ResetAfterRequest,
        _ => ClientB::GoneBeforeResponse,
    };
    let obs = match ch.choose(S_FAULT, 5) {
        0 => ObsB::Valid,
        1 => ObsB::Truncated(ch.choose(S_FAULT, 1000) as u16),
        2 => ObsB::Corrupt(ch.choose(S_FAULT, 1000) as u16, ch.range(S_FAULT, 1, 255) as u8),
        3 => ObsB::Refused,
        _ => ObsB::CloseEarly,
    };
    Step { client, obs }
}

pub fn c20_enumerated_lengths(tier: Tier) -> usize {
    match tier {
        Tier::Quick => 2,
        Tier::Thorough => 3,
    }
}

pub fn c20_sample_count(tier: Tier) -> u64 {
    let scale: f64 = std::env::var("VERIF_BUDGET_SCALE").ok().and_then(|s| s.parse().ok()).unwrap_or(1.0);
    let n = match tier {
        Tier::Quick => 3000.0,
        Tier::Thorough => 60000.0,
    };
    (n * scale).ceil() as u64
}
